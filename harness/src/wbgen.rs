//! Random user-model histories (shared by the workbook-level suites) and a canonical snapshot.
//! A history is a function of (seed, number of ops) only, so a request line replays alone.
use crate::prng::Rng;
use ironcalc_base::expressions::types::Area;
use ironcalc_base::{Model, UserModel};
use std::fmt::Write;

#[derive(Clone, Debug)]
pub enum Op {
    Input { sheet: u32, row: i32, col: i32, text: String },
    ArrayFormula { sheet: u32, row: i32, col: i32, w: i32, h: i32, text: String },
    InsertRows { sheet: u32, row: i32, n: i32 },
    DeleteRows { sheet: u32, row: i32, n: i32 },
    InsertCols { sheet: u32, col: i32, n: i32 },
    DeleteCols { sheet: u32, col: i32, n: i32 },
    NewSheet,
    RenameSheet { sheet: u32, name: String },
    ColWidth { sheet: u32, col: i32, w: f64 },
    RowHeight { sheet: u32, row: i32, h: f64 },
    Style { sheet: u32, row: i32, col: i32, w: i32, h: i32, path: String, value: String },
    DefName { name: String, scope: Option<u32>, formula: String },
    Freeze { sheet: u32, rows: i32, cols: i32 },
    ClearContents { sheet: u32, row: i32, col: i32, w: i32, h: i32 },
    Undo,
    Redo,
    Language(String),
    Locale(String),
}

pub const VALUES: [&str; 22] = [
    "1", "2.5", "-3", "1e3", "50%", "$12.50", "2024-02-29", "TRUE", "false", "hello", "'123",
    "#N/A", "0", "12,345.5", "a&b", "1/2", "  spaced  ", "=", "3.14159265358979", "1E+20", "é€", "",
];

pub const FORMULAS: [&str; 50] = [
    "=A1+1", "=A1+B2", "=SUM(A1:B3)", "=Sheet2!A1*2", "=IF(A1>2,\"x\",\"y\")", "=(1+2)%", "=-(A1<2)",
    "=A1&(B1=C1)", "=1-(2-3)", "=(A1&B1)+3", "=-(2*3)", "=1=(2=3)", "=2^-2", "=(-2)^2", "=-2^2",
    "=SEQUENCE(3)", "=A1:A3*2", "=SUM(C:C)", "=SUM(2:2)", "=LAMBDA(x,x+1)(2)", "=LET(a,1,a+1)",
    "={1,2;3,4}", "=SUM({1,2;3,4})", "=@A1:A3", "=A4#", "=rate*2", "=MAX(,1)", "=IFERROR(1/0,\"e\")",
    "=A1%%", "=(A1+B1)*(C1-D1)/2", "=\"a\"&\"b\"&1", "=AND(TRUE,A1>0)", "=ROUND(A1/3,2)",
    "=$A$1+A$2+$A3", "=Sheet2!$B$2:$C$3", "=SUM(Sheet2!A1:B2)", "='My Sheet'!A1", "=Ghost!A1+1",
    "=SUM(Ghost!A1:A2)", "=1+(2+3)", "=A1<>B1", "=1E+3*2", "=#REF!+1", "=TRUE()",
    // identifiers shaped like references (LET variables, LAMBDA parameters, defined names)
    "=LET(R1C1_rate,A1,R1C1_rate+1)", "=LET(RC.x,2,RC.x*2)", "=LAMBDA(R2C3_v,R2C3_v+1)(1)",
    "=LET(A1_b,3,A1_b^2)", "=R1C1_total+1", "=LET(x.y,1,x.y+1)",
];

const NAMES: [&str; 4] = ["rate", "Total_2", "k3", "R1C1_total"];
const SHEET_NAMES: [&str; 5] = ["Data", "My Sheet", "Sheet2", "a&b", "Q1 2024"];
const STYLE_PATHS: [(&str, &str); 8] = [
    ("font.b", "true"), ("font.i", "true"), ("font.u", "true"), ("num_fmt", "0.00"), ("num_fmt", "#,##0"),
    ("fill.bg_color", "#FF0000"), ("alignment.horizontal", "center"), ("font.color", "#00FF00"),
];

pub fn gen_history(seed: u64, nops: usize) -> Vec<Op> {
    let mut rng = Rng::new(seed ^ 0x5EED_0B00);
    let mut ops = vec![];
    let mut nsheets: u32 = 1;
    for _ in 0..nops {
        let sheet = rng.below(nsheets as u64) as u32;
        let row = rng.range(1, 8) as i32;
        let col = rng.range(1, 6) as i32;
        let op = match rng.below(100) {
            0..=29 => Op::Input { sheet, row, col, text: rng.pick(&FORMULAS).to_string() },
            30..=49 => Op::Input { sheet, row, col, text: rng.pick(&VALUES).to_string() },
            50..=53 => Op::ArrayFormula { sheet, row, col, w: rng.range(1, 2) as i32, h: rng.range(1, 3) as i32, text: rng.pick(&["=A1:A3*2", "={1,2;3,4}", "=SEQUENCE(2,2)", "=B1:C2+1"]).to_string() },
            54..=58 => Op::InsertRows { sheet, row, n: rng.range(1, 2) as i32 },
            59..=62 => Op::DeleteRows { sheet, row, n: rng.range(1, 2) as i32 },
            63..=66 => Op::InsertCols { sheet, col, n: rng.range(1, 2) as i32 },
            67..=69 => Op::DeleteCols { sheet, col, n: 1 },
            70..=72 => {
                if nsheets < 3 {
                    nsheets += 1;
                    Op::NewSheet
                } else {
                    Op::Input { sheet, row, col, text: rng.pick(&FORMULAS).to_string() }
                }
            }
            73..=75 => Op::RenameSheet { sheet, name: rng.pick(&SHEET_NAMES).to_string() },
            76..=78 => Op::ColWidth { sheet, col, w: *rng.pick(&[45.0, 90.0, 133.0, 20.5]) },
            79..=80 => Op::RowHeight { sheet, row, h: *rng.pick(&[10.0, 25.0, 40.5]) },
            81..=86 => {
                let (p, v) = rng.pick(&STYLE_PATHS);
                Op::Style { sheet, row, col, w: rng.range(1, 2) as i32, h: rng.range(1, 2) as i32, path: p.to_string(), value: v.to_string() }
            }
            87..=89 => Op::DefName { name: rng.pick(&NAMES).to_string(), scope: if rng.chance(1, 3) { Some(sheet) } else { None }, formula: rng.pick(&["Sheet1!$A$1", "Sheet1!$A$1:$B$2", "=1+1", "Sheet2!$C$3"]).to_string() },
            90..=91 => Op::Freeze { sheet, rows: rng.range(0, 3) as i32, cols: rng.range(0, 2) as i32 },
            92..=93 => Op::ClearContents { sheet, row, col, w: 2, h: 2 },
            94..=97 => Op::Undo,
            _ => Op::Redo,
        };
        ops.push(op);
    }
    ops
}

/// apply one op; Err = the operation was rejected (which is fine)
pub fn apply(m: &mut UserModel, op: &Op) -> Result<(), String> {
    match op {
        Op::Input { sheet, row, col, text } => m.set_user_input(*sheet, *row, *col, text),
        Op::ArrayFormula { sheet, row, col, w, h, text } => m.set_user_array_formula(*sheet, *row, *col, *w, *h, text),
        Op::InsertRows { sheet, row, n } => m.insert_rows(*sheet, *row, *n),
        Op::DeleteRows { sheet, row, n } => m.delete_rows(*sheet, *row, *n),
        Op::InsertCols { sheet, col, n } => m.insert_columns(*sheet, *col, *n),
        Op::DeleteCols { sheet, col, n } => m.delete_columns(*sheet, *col, *n),
        Op::NewSheet => m.new_sheet(),
        Op::RenameSheet { sheet, name } => m.rename_sheet(*sheet, name),
        Op::ColWidth { sheet, col, w } => m.set_columns_width(*sheet, *col, *col, *w),
        Op::RowHeight { sheet, row, h } => m.set_rows_height(*sheet, *row, *row, *h),
        Op::Style { sheet, row, col, w, h, path, value } => m.update_range_style(&Area { sheet: *sheet, row: *row, column: *col, width: *w, height: *h }, path, value),
        Op::DefName { name, scope, formula } => m.new_defined_name(name, *scope, formula),
        Op::Freeze { sheet, rows, cols } => m.set_frozen_rows_count(*sheet, *rows).and_then(|_| m.set_frozen_columns_count(*sheet, *cols)),
        Op::ClearContents { sheet, row, col, w, h } => m.range_clear_contents(&Area { sheet: *sheet, row: *row, column: *col, width: *w, height: *h }),
        Op::Undo => m.undo(),
        Op::Redo => m.redo(),
        Op::Language(l) => m.set_language(l),
        Op::Locale(l) => m.set_locale(l),
    }
}

pub const LANGUAGES: [&str; 5] = ["en", "es", "fr", "de", "it"];
pub const LOCALES: [&str; 6] = ["en", "en-GB", "es", "fr", "de", "it"];

/// like `gen_history`, with language / locale switches interleaved (about one op in six)
pub fn gen_history_lang(seed: u64, nops: usize) -> Vec<Op> {
    let base = gen_history(seed, nops);
    let mut rng = Rng::new(seed ^ 0x1A46_0C10);
    let mut out = vec![];
    for op in base {
        if rng.chance(1, 6) {
            if rng.chance(1, 2) {
                out.push(Op::Language(rng.pick(&LANGUAGES).to_string()));
            } else {
                out.push(Op::Locale(rng.pick(&LOCALES).to_string()));
            }
        }
        out.push(op);
    }
    out
}

pub fn new_user_model() -> UserModel<'static> {
    UserModel::new_empty("book", "en", "UTC", "en").expect("new user model")
}

/// A canonical, sorted text snapshot of what the workbook-level properties call observable.
/// Style / shared-string / formula-table indices are never printed (decoded styles are).
pub fn snapshot(model: &Model) -> String {
    let mut s = String::new();
    let wb = &model.workbook;
    let _ = writeln!(s, "workbook name={:?} locale={:?} tz={:?}", wb.name, wb.settings.locale, wb.settings.tz);
    let mut names = model.get_defined_name_list();
    names.sort();
    for (n, scope, f) in names {
        let _ = writeln!(s, "defined-name {n:?} scope={scope:?} formula={f:?}");
    }
    for (i, ws) in wb.worksheets.iter().enumerate() {
        let i = i as u32;
        let _ = writeln!(s, "sheet {i} name={:?} id={} state={:?} color={:?} frozen=({},{}) grid={}", ws.name, ws.sheet_id, ws.state, ws.color, ws.frozen_rows, ws.frozen_columns, ws.show_grid_lines);
        // per-column / per-row attributes, normalised (descriptor layout is not observable)
        for c in 1..=24 {
            let w = model.get_column_width(i, c).unwrap_or(-1.0);
            let hidden = ws.cols.iter().any(|d| d.min <= c && c <= d.max && d.hidden);
            let style = model.get_column_style(i, c).ok().flatten();
            let _ = writeln!(s, "  col {c} width={:016x} hidden={hidden} style={style:?}", w.to_bits());
        }
        let mut rows: Vec<_> = ws.rows.iter().collect();
        rows.sort_by_key(|r| r.r);
        for r in rows {
            let style = model.get_row_style(i, r.r).ok().flatten();
            let _ = writeln!(s, "  row {} height={:016x} custom={} hidden={} style={style:?}", r.r, r.height.to_bits(), r.custom_height, r.hidden);
        }
        let mut coords: Vec<(i32, i32)> = vec![];
        for (r, cols) in ws.sheet_data.iter() {
            for c in cols.keys() {
                coords.push((*r, *c));
            }
        }
        coords.sort();
        for (r, c) in coords {
            let formula = model.get_cell_formula(i, r, c).ok().flatten();
            let content = model.get_localized_cell_content(i, r, c).unwrap_or_else(|e| format!("ERR:{e}"));
            let value = match model.get_cell_value_by_index(i, r, c) {
                Ok(ironcalc_base::cell::CellValue::Number(f)) => format!("num:{:016x}", f.to_bits()),
                Ok(v) => format!("{v:?}"),
                Err(e) => format!("ERR:{e}"),
            };
            let shown = model.get_formatted_cell_value(i, r, c).unwrap_or_else(|e| format!("ERR:{e}"));
            let ty = model.get_cell_type(i, r, c).map(|t| format!("{t:?}")).unwrap_or_default();
            let style = model.get_style_for_cell(i, r, c).map(|st| format!("{st:?}")).unwrap_or_else(|e| format!("ERR:{e}"));
            let _ = writeln!(s, "  cell {r},{c} formula={formula:?} content={content:?} value={value} shown={shown:?} type={ty} style={style}");
        }
        let mut links: Vec<_> = ws.links.iter().map(|(k, v)| format!("{k:?}={v:?}")).collect();
        links.sort();
        for l in links {
            let _ = writeln!(s, "  link {l}");
        }
        for cf in &ws.conditional_formatting {
            let _ = writeln!(s, "  cf {cf:?}");
        }
    }
    s
}

/// first differing line of two snapshots
pub fn first_diff(a: &str, b: &str) -> String {
    for (x, y) in a.lines().zip(b.lines()) {
        if x != y {
            return format!("`{x}` vs `{y}`");
        }
    }
    format!("line counts {} vs {}", a.lines().count(), b.lines().count())
}
