//! Suite framework: a suite generates request lines; `eval` runs the *implementation* on one
//! request line and returns its canonical answer plus the verdicts of the property oracle.
//! The same request lines are piped to the Lean model driver; answers are compared line by line.
use serde_json::{json, Value};
use std::collections::hash_map::DefaultHasher;
use std::collections::{BTreeMap, HashSet};
use std::fs::File;
use std::hash::{Hash, Hasher};
use std::io::{BufRead, BufReader, BufWriter, Write};
use std::path::PathBuf;
use std::process::{Command, Stdio};

#[derive(Clone, Copy, PartialEq, Eq, Debug)]
pub enum Tier {
    Quick,
    Thorough,
}

pub struct Ctx {
    pub tier: Tier,
    pub seed: u64,
    pub driver: PathBuf,
    pub work: PathBuf,
}

/// What the implementation did on one request.
pub struct ImplOut {
    /// canonical answer, compared verbatim with the model driver's answer
    pub ans: String,
    /// property-oracle failures observed on the implementation: (signature, detail)
    pub oracle: Vec<(String, String)>,
    /// histogram tags (branches hit, op kinds, error kinds …)
    pub tags: Vec<String>,
    /// does this case count as non-trivial by the suite's rule
    pub nontrivial: bool,
}

impl ImplOut {
    pub fn new(ans: String) -> Self {
        ImplOut { ans, oracle: vec![], tags: vec![], nontrivial: true }
    }
    pub fn trivial(mut self) -> Self {
        self.nontrivial = false;
        self
    }
    pub fn tag(mut self, t: &str) -> Self {
        self.tags.push(t.to_string());
        self
    }
    pub fn fail(mut self, sig: &str, detail: &str) -> Self {
        self.oracle.push((sig.to_string(), detail.to_string()));
        self
    }
}

pub struct Suite {
    pub name: &'static str,
    pub rule: &'static str,
    /// has a model side (requests are sent to the driver); false = oracle-only suite
    pub modelled: bool,
    pub gen: fn(&Ctx, &mut dyn FnMut(String)),
    pub eval: fn(&str) -> ImplOut,
    /// true when `gen` enumerates a finite domain completely in this tier
    pub exhaustive: fn(Tier) -> bool,
}

struct Fail {
    sig: String,
    req: String,
    detail: String,
    idx: u64,
}

pub fn run_suite(ctx: &Ctx, s: &Suite) -> Value {
    std::fs::create_dir_all(&ctx.work).expect("work dir");
    let req_path = ctx.work.join(format!("{}.req", s.name));
    let impl_path = ctx.work.join(format!("{}.impl", s.name));
    let model_path = ctx.work.join(format!("{}.model", s.name));
    let mut n: u64 = 0;
    let mut nontrivial: HashSet<u64> = HashSet::new();
    let mut hist: BTreeMap<String, u64> = BTreeMap::new();
    let mut fails: Vec<Fail> = vec![];
    let mut fail_counts: BTreeMap<String, u64> = BTreeMap::new();
    let mut samples: Vec<Value> = vec![];
    {
        let mut req_w = BufWriter::new(File::create(&req_path).expect("req file"));
        let mut impl_w = BufWriter::new(File::create(&impl_path).expect("impl file"));
        let mut sink = |req: String| {
            let out = (s.eval)(&req);
            writeln!(req_w, "{}", req).unwrap();
            writeln!(impl_w, "{}", out.ans).unwrap();
            if out.nontrivial {
                let mut h = DefaultHasher::new();
                req.hash(&mut h);
                nontrivial.insert(h.finish());
            }
            for t in &out.tags {
                *hist.entry(t.clone()).or_insert(0) += 1;
            }
            for (sig, detail) in out.oracle {
                let c = fail_counts.entry(sig.clone()).or_insert(0);
                *c += 1;
                if *c <= 3 && fails.len() < 400 {
                    fails.push(Fail { sig, req: req.clone(), detail, idx: n });
                }
            }
            // a spread of samples: the first few and then exponentially spaced ones
            if n < 3 || (n.is_power_of_two() && samples.len() < 24) {
                samples.push(json!({"request": req, "impl": out.ans}));
            }
            n += 1;
        };
        (s.gen)(ctx, &mut sink);
        req_w.flush().unwrap();
        impl_w.flush().unwrap();
    }
    // model side
    let mut disagreements: Vec<Value> = vec![];
    let mut n_dis: u64 = 0;
    let mut dis_idx: HashSet<u64> = HashSet::new();
    let mut driver_error: Option<String> = None;
    if s.modelled {
        let status = Command::new(&ctx.driver)
            .stdin(Stdio::from(File::open(&req_path).unwrap()))
            .stdout(Stdio::from(File::create(&model_path).unwrap()))
            .status();
        match status {
            Ok(st) if st.success() => {}
            Ok(st) => driver_error = Some(format!("driver exited with {st}")),
            Err(e) => driver_error = Some(format!("driver could not be started: {e}")),
        }
        let rq = BufReader::new(File::open(&req_path).unwrap());
        let im = BufReader::new(File::open(&impl_path).unwrap());
        let mo = BufReader::new(File::open(&model_path).unwrap());
        let mut mo_lines = mo.lines();
        for (i, (r, a)) in rq.lines().zip(im.lines()).enumerate() {
            let r = r.unwrap();
            let a = a.unwrap();
            let m = match mo_lines.next() {
                Some(Ok(m)) => m,
                _ => "<no answer>".to_string(),
            };
            if a != m {
                n_dis += 1;
                dis_idx.insert(i as u64);
                if disagreements.len() < 50 {
                    disagreements.push(json!({"request": r, "impl": a, "model": m}));
                }
            }
        }
    }
    let fails_json: Vec<Value> = fails
        .iter()
        .map(|f| {
            json!({"sig": f.sig, "request": f.req, "detail": f.detail,
                   "model_agrees": if s.modelled { Value::Bool(!dis_idx.contains(&f.idx)) } else { Value::Null }})
        })
        .collect();
    json!({
        "suite": s.name,
        "rule": s.rule,
        "modelled": s.modelled,
        "evaluations": n,
        "distinct_nontrivial": nontrivial.len(),
        "exhaustive": (s.exhaustive)(ctx.tier),
        "histogram": hist,
        "samples": samples,
        "model_vs_impl_disagreements": n_dis,
        "disagreements": disagreements,
        "driver_error": driver_error,
        "impl_vs_spec_failures": fail_counts.values().sum::<u64>(),
        "oracle_fail_counts": fail_counts,
        "oracle_failures": fails_json,
    })
}

/// Replay one request on the implementation (and print what the oracle says).
pub fn replay_suite(s: &Suite, req: &str) -> Value {
    let out = (s.eval)(req);
    json!({"suite": s.name, "request": req, "impl": out.ans,
           "oracle_failures": out.oracle.iter().map(|(a,b)| json!({"sig":a,"detail":b})).collect::<Vec<_>>()})
}

pub fn never(_: Tier) -> bool {
    false
}
pub fn always(_: Tier) -> bool {
    true
}
