//! Bridge between the Lean M-Formula model (`IronCalc/Formula/Syntax.lean`) and the real
//! `ironcalc_base::expressions::parser::Node`: model trees with opaque payload indices, payload
//! tables, conversion in both directions, model-token rendering of real lexer output, and the
//! tree text of the line protocol (prefix notation, `;`-separated).
use crate::prng::Rng;
use ironcalc_base::expressions::lexer::{Lexer, LexerMode};
use ironcalc_base::expressions::parser::{ArrayNode, Node, Parser};
use ironcalc_base::expressions::token::{Error, OpCompare, OpProduct, OpSum, OpUnary, TokenType};
use ironcalc_base::expressions::types::CellReferenceRC;
use ironcalc_base::language::Language;
use ironcalc_base::locale::Locale;
use ironcalc_base::types::{Table, TableColumn, TableStyleInfo};
use ironcalc_base::verif::{named_variable, named_variable_parts, Function};
use std::collections::HashMap;

#[derive(Clone, Debug, PartialEq)]
pub enum MNode {
    Lit(u8, u32),               // class 0..7, payload
    Name(u32),                  // 4*k + class (0 var, 1 defined name, 2 table, 3 boolean)
    Bin(u8, u8, Box<MNode>, Box<MNode>), // op class 0..6 (cmp cat add sub mul div pow), cmp kind
    Neg(Box<MNode>),
    Pct(Box<MNode>),
    Rng(Box<MNode>, Box<MNode>),
    At(Box<MNode>),
    Spill(Box<MNode>),
    Call(u32, Vec<Option<MNode>>),
    Lam(Vec<(u32, bool)>, Box<MNode>),
    LamCall(Vec<(u32, bool)>, Box<MNode>, Vec<Option<MNode>>),
}

pub const LIT_CLASSES: [&str; 8] =
    ["number", "string", "error", "ref", "range", "wrongRef", "wrongRange", "array"];
pub const OP_CLASSES: [&str; 7] = ["cmp", "cat", "add", "sub", "mul", "div", "pow"];

pub const NUMS: [f64; 14] = [
    0.0, 1.0, 2.0, 3.0, 10.0, 0.5, 1.5, 100.0, 1e10, 0.001, 123456789.0, 2.5e-5, 1e21, 0.1,
];
pub const STRS: [&str; 8] = ["", "a", "hello world", "1", "TRUE", "A1", "x,y", "é;z"];
pub const ERRS: [Error; 12] = [
    Error::REF,
    Error::NAME,
    Error::VALUE,
    Error::DIV,
    Error::NA,
    Error::NUM,
    Error::ERROR,
    Error::NIMPL,
    Error::SPILL,
    Error::CALC,
    Error::CIRC,
    Error::NULL,
];
pub const SHEETS: [&str; 3] = ["Sheet1", "Sheet2", "My Sheet"];
pub const VARS: [&str; 4] = ["xvar", "yvar", "fooo", "bar_1"];
pub const DNAMES: [&str; 2] = ["rate", "Total_2"];
pub const TABLES: [&str; 1] = ["Table1"];
pub const NAMED_FNS: [&str; 2] = ["myfn", "f2"];

/// built-in functions used by the generator (index 1000 + i)
pub fn fn_table() -> Vec<Function> {
    vec![
        Function::Sum,
        Function::If,
        Function::Max,
        Function::Abs,
        Function::True,
        Function::False,
        Function::Pi,
        Function::And,
        Function::Concat,
        Function::Index,
        Function::Iferror,
        Function::Round,
    ]
}

/// (sheet_name index or none, abs_row, abs_col, row, col) in R1C1 terms (relative = offset)
pub const REFS: [(i8, bool, bool, i32, i32); 13] = [
    (-1, false, false, 0, 0),
    (-1, false, false, -3, 2),
    (-1, true, true, 1, 1),
    (-1, true, false, 5, -2),
    (-1, false, true, 4, 7),
    (1, false, false, 1, 1),
    (1, true, true, 3, 4),
    (2, false, false, -1, 0),
    (2, true, true, 1048576, 16384),
    (-1, true, true, 20, 30),
    (-1, false, false, 1, 2),  // L11 seen from J10
    (-1, true, true, 12, 12),  // $L$12
    (-1, true, false, 11, 1),  // K$11
];
/// ranges: (sheet, (abs_r1, abs_c1, r1, c1), (abs_r2, abs_c2, r2, c2))
pub const RANGES: [(i8, (bool, bool, i32, i32), (bool, bool, i32, i32)); 10] = [
    (-1, (false, false, 0, 0), (false, false, 2, 2)),
    (-1, (true, true, 1, 1), (true, true, 5, 3)),
    (1, (false, false, -2, -1), (false, false, 3, 4)),
    (2, (true, true, 2, 2), (true, true, 10, 2)),
    (-1, (true, true, 1, 3), (true, true, 1048576, 3)), // full column C:C
    (-1, (true, true, 4, 1), (true, true, 4, 16384)),   // full row 4:4
    (-1, (true, false, 2, -3), (false, true, 1, 16)),
    (-1, (true, false, 10, 0), (false, false, 2, 1)),  // J$10:K12 (corners differ in row-absoluteness)
    (-1, (false, true, 0, 10), (true, false, 12, 2)),  // $J10:L$12
    (-1, (false, false, 0, 0), (false, false, 5, 0)),  // J10:J15 (partly outside J10:L12)
];
pub const GHOST: &str = "Ghost";

pub fn arrays() -> Vec<Vec<Vec<ArrayNode>>> {
    vec![
        vec![vec![ArrayNode::Number(1.0)]],
        vec![vec![ArrayNode::Number(1.0), ArrayNode::Number(2.5)], vec![ArrayNode::String("a".into()), ArrayNode::Boolean(true)]],
        vec![vec![ArrayNode::Number(-3.0), ArrayNode::Error(Error::NA), ArrayNode::Boolean(false)]],
    ]
}

pub fn cmp_kind(k: u8) -> OpCompare {
    match k % 6 {
        0 => OpCompare::LessThan,
        1 => OpCompare::GreaterThan,
        2 => OpCompare::Equal,
        3 => OpCompare::LessOrEqualThan,
        4 => OpCompare::GreaterOrEqualThan,
        _ => OpCompare::NonEqual,
    }
}
fn cmp_index(k: &OpCompare) -> u8 {
    match k {
        OpCompare::LessThan => 0,
        OpCompare::GreaterThan => 1,
        OpCompare::Equal => 2,
        OpCompare::LessOrEqualThan => 3,
        OpCompare::GreaterOrEqualThan => 4,
        OpCompare::NonEqual => 5,
    }
}

fn sheet_name(i: i8) -> Option<String> {
    if i < 0 {
        None
    } else {
        Some(SHEETS[i as usize].to_string())
    }
}
fn sheet_index(i: i8) -> u32 {
    if i < 0 {
        0
    } else {
        i as u32
    }
}

/// the context cell used for A1 printing/parsing: relative offsets in REFS/RANGES stay in the grid
pub fn context() -> CellReferenceRC {
    CellReferenceRC { sheet: "Sheet1".to_string(), row: 10, column: 10 }
}

pub fn tables() -> HashMap<String, Table> {
    let mut m = HashMap::new();
    m.insert(
        "Table1".to_string(),
        Table {
            name: "Table1".into(),
            display_name: "Table1".into(),
            sheet_name: "Sheet1".into(),
            reference: "A1:B3".into(),
            totals_row_count: 0,
            header_row_count: 1,
            header_row_dxf_id: None,
            data_dxf_id: None,
            totals_row_dxf_id: None,
            columns: vec![
                TableColumn { id: 1, name: "c1".into(), totals_row_label: None, header_row_dxf_id: None, data_dxf_id: None, totals_row_dxf_id: None, totals_row_function: None },
                TableColumn { id: 2, name: "c2".into(), totals_row_label: None, header_row_dxf_id: None, data_dxf_id: None, totals_row_dxf_id: None, totals_row_function: None },
            ],
            style_info: TableStyleInfo::default(),
            has_filters: false,
        },
    );
    m
}

pub fn defined_names() -> Vec<(String, Option<u32>, String)> {
    vec![
        ("rate".to_string(), None, "Sheet1!$A$1".to_string()),
        ("Total_2".to_string(), None, "Sheet2!$B$2".to_string()),
    ]
}

pub fn new_parser<'a>(locale: &'a Locale, language: &'a Language) -> Parser<'a> {
    Parser::new(SHEETS.iter().map(|s| s.to_string()).collect(), defined_names(), tables(), locale, language)
}

fn args_to_real(args: &[Option<MNode>]) -> Vec<Node> {
    args.iter().map(|a| match a { None => Node::EmptyArgKind, Some(n) => to_real(n) }).collect()
}

/// model tree → real Node (internal/R1C1 representation: relative refs are offsets)
pub fn to_real(n: &MNode) -> Node {
    match n {
        MNode::Lit(c, a) => {
            let a = *a as usize;
            match c {
                0 => Node::NumberKind(NUMS[a % NUMS.len()]),
                1 => Node::StringKind(STRS[a % STRS.len()].to_string()),
                2 => Node::ErrorKind(ERRS[a % ERRS.len()].clone()),
                3 => {
                    let (s, ar, ac, r, c) = REFS[a % REFS.len()];
                    Node::ReferenceKind { sheet_name: sheet_name(s), sheet_index: sheet_index(s), absolute_row: ar, absolute_column: ac, row: r, column: c }
                }
                4 => {
                    let (s, (ar1, ac1, r1, c1), (ar2, ac2, r2, c2)) = RANGES[a % RANGES.len()];
                    Node::RangeKind { sheet_name: sheet_name(s), sheet_index: sheet_index(s), absolute_row1: ar1, absolute_column1: ac1, row1: r1, column1: c1, absolute_row2: ar2, absolute_column2: ac2, row2: r2, column2: c2 }
                }
                5 => {
                    let (_, ar, ac, r, c) = REFS[a % REFS.len()];
                    Node::WrongReferenceKind { sheet_name: Some(GHOST.to_string()), absolute_row: ar, absolute_column: ac, row: r, column: c }
                }
                6 => {
                    let (_, (ar1, ac1, r1, c1), (ar2, ac2, r2, c2)) = RANGES[a % RANGES.len()];
                    Node::WrongRangeKind { sheet_name: Some(GHOST.to_string()), absolute_row1: ar1, absolute_column1: ac1, row1: r1, column1: c1, absolute_row2: ar2, absolute_column2: ac2, row2: r2, column2: c2 }
                }
                _ => {
                    let arrs = arrays();
                    Node::ArrayKind(arrs[a % arrs.len()].clone())
                }
            }
        }
        MNode::Name(x) => {
            let k = (*x / 4) as usize;
            match x % 4 {
                0 => Node::NamedVariableKind { name: VARS[k % VARS.len()].to_string(), id: None },
                1 => {
                    let d = &defined_names()[k % DNAMES.len()];
                    Node::DefinedNameKind(d.clone())
                }
                2 => Node::TableNameKind(TABLES[k % TABLES.len()].to_string()),
                _ => Node::BooleanKind(k % 2 == 0),
            }
        }
        MNode::Bin(c, k, a, b) => {
            let left = Box::new(to_real(a));
            let right = Box::new(to_real(b));
            match c {
                0 => Node::CompareKind { kind: cmp_kind(*k), left, right },
                1 => Node::OpConcatenateKind { left, right },
                2 => Node::OpSumKind { kind: OpSum::Add, left, right },
                3 => Node::OpSumKind { kind: OpSum::Minus, left, right },
                4 => Node::OpProductKind { kind: OpProduct::Times, left, right },
                5 => Node::OpProductKind { kind: OpProduct::Divide, left, right },
                _ => Node::OpPowerKind { left, right },
            }
        }
        MNode::Neg(a) => Node::UnaryKind { kind: OpUnary::Minus, right: Box::new(to_real(a)) },
        MNode::Pct(a) => Node::UnaryKind { kind: OpUnary::Percentage, right: Box::new(to_real(a)) },
        MNode::Rng(a, b) => Node::OpRangeKind { left: Box::new(to_real(a)), right: Box::new(to_real(b)) },
        MNode::At(a) => Node::ImplicitIntersection { automatic: false, child: Box::new(to_real(a)) },
        MNode::Spill(a) => Node::SpillRangeOperator { child: Box::new(to_real(a)) },
        MNode::Call(x, args) => {
            if *x >= 2000 {
                Node::NamedFunctionKind { id: None, name: NAMED_FNS[(*x as usize - 2000) % NAMED_FNS.len()].to_string(), args: args_to_real(args) }
            } else {
                let t = fn_table();
                Node::FunctionKind { kind: t[(*x as usize - 1000) % t.len()].clone(), args: args_to_real(args) }
            }
        }
        MNode::Lam(ps, body) => Node::LambdaDefKind {
            parameters: ps.iter().map(|(x, o)| named_variable(VARS[(*x / 4) as usize % VARS.len()], *o)).collect(),
            body: Box::new(to_real(body)),
        },
        MNode::LamCall(ps, body, args) => Node::LambdaCallKind {
            lambda: Box::new(to_real(&MNode::Lam(ps.clone(), body.clone()))),
            args: args_to_real(args),
        },
    }
}

fn args_from_real(args: &[Node]) -> Option<Vec<Option<MNode>>> {
    let mut out = vec![];
    for a in args {
        match a {
            Node::EmptyArgKind => out.push(None),
            n => out.push(Some(from_real(n)?)),
        }
    }
    Some(out)
}

fn pos<T: PartialEq>(xs: &[T], x: &T) -> Option<u32> {
    xs.iter().position(|y| y == x).map(|i| i as u32)
}

fn sheet_idx_of(name: &Option<String>) -> Option<i8> {
    match name {
        None => Some(-1),
        Some(s) => SHEETS.iter().position(|x| x == s).map(|i| i as i8),
    }
}

/// real Node → model tree (None when the node is outside the payload tables)
pub fn from_real(n: &Node) -> Option<MNode> {
    Some(match n {
        Node::NumberKind(f) => MNode::Lit(0, NUMS.iter().position(|x| x.to_bits() == f.to_bits())? as u32),
        Node::StringKind(s) => MNode::Lit(1, STRS.iter().position(|x| x == s)? as u32),
        Node::ErrorKind(e) => MNode::Lit(2, pos(&ERRS, e)?),
        Node::ReferenceKind { sheet_name, sheet_index: si, absolute_row, absolute_column, row, column } => {
            let s = sheet_idx_of(sheet_name)?;
            if *si != sheet_index(s) {
                return None;
            }
            MNode::Lit(3, pos(&REFS, &(s, *absolute_row, *absolute_column, *row, *column))?)
        }
        Node::RangeKind { sheet_name, sheet_index: si, absolute_row1, absolute_column1, row1, column1, absolute_row2, absolute_column2, row2, column2 } => {
            let s = sheet_idx_of(sheet_name)?;
            if *si != sheet_index(s) {
                return None;
            }
            MNode::Lit(4, pos(&RANGES, &(s, (*absolute_row1, *absolute_column1, *row1, *column1), (*absolute_row2, *absolute_column2, *row2, *column2)))?)
        }
        Node::WrongReferenceKind { sheet_name, absolute_row, absolute_column, row, column } => {
            if sheet_name.as_deref() != Some(GHOST) {
                return None;
            }
            MNode::Lit(5, REFS.iter().position(|r| (r.1, r.2, r.3, r.4) == (*absolute_row, *absolute_column, *row, *column))? as u32)
        }
        Node::WrongRangeKind { sheet_name, absolute_row1, absolute_column1, row1, column1, absolute_row2, absolute_column2, row2, column2 } => {
            if sheet_name.as_deref() != Some(GHOST) {
                return None;
            }
            MNode::Lit(6, RANGES.iter().position(|r| r.1 == (*absolute_row1, *absolute_column1, *row1, *column1) && r.2 == (*absolute_row2, *absolute_column2, *row2, *column2))? as u32)
        }
        Node::ArrayKind(m) => MNode::Lit(7, pos(&arrays(), m)?),
        Node::NamedVariableKind { name, .. } => MNode::Name(4 * VARS.iter().position(|x| x == name)? as u32),
        Node::DefinedNameKind(d) => MNode::Name(4 * pos(&defined_names(), d)? + 1),
        Node::TableNameKind(t) => MNode::Name(4 * TABLES.iter().position(|x| x == t)? as u32 + 2),
        Node::BooleanKind(b) => MNode::Name(if *b { 3 } else { 7 }),
        Node::CompareKind { kind, left, right } => MNode::Bin(0, cmp_index(kind), Box::new(from_real(left)?), Box::new(from_real(right)?)),
        Node::OpConcatenateKind { left, right } => MNode::Bin(1, 0, Box::new(from_real(left)?), Box::new(from_real(right)?)),
        Node::OpSumKind { kind, left, right } => MNode::Bin(if *kind == OpSum::Add { 2 } else { 3 }, 0, Box::new(from_real(left)?), Box::new(from_real(right)?)),
        Node::OpProductKind { kind, left, right } => MNode::Bin(if *kind == OpProduct::Times { 4 } else { 5 }, 0, Box::new(from_real(left)?), Box::new(from_real(right)?)),
        Node::OpPowerKind { left, right } => MNode::Bin(6, 0, Box::new(from_real(left)?), Box::new(from_real(right)?)),
        Node::UnaryKind { kind: OpUnary::Minus, right } => MNode::Neg(Box::new(from_real(right)?)),
        Node::UnaryKind { kind: OpUnary::Percentage, right } => MNode::Pct(Box::new(from_real(right)?)),
        Node::OpRangeKind { left, right } => MNode::Rng(Box::new(from_real(left)?), Box::new(from_real(right)?)),
        Node::ImplicitIntersection { child, .. } => MNode::At(Box::new(from_real(child)?)),
        Node::SpillRangeOperator { child } => MNode::Spill(Box::new(from_real(child)?)),
        Node::FunctionKind { kind, args } => MNode::Call(1000 + pos(&fn_table(), kind)?, args_from_real(args)?),
        Node::NamedFunctionKind { name, args, .. } => MNode::Call(2000 + NAMED_FNS.iter().position(|x| x == name)? as u32, args_from_real(args)?),
        Node::LambdaDefKind { parameters, body } => {
            let mut ps = vec![];
            for p in parameters {
                let (name, opt) = named_variable_parts(p);
                ps.push((4 * VARS.iter().position(|x| *x == name)? as u32, opt));
            }
            MNode::Lam(ps, Box::new(from_real(body)?))
        }
        Node::LambdaCallKind { lambda, args } => match from_real(lambda)? {
            MNode::Lam(ps, body) => MNode::LamCall(ps, body, args_from_real(args)?),
            _ => return None,
        },
        Node::ParseErrorKind { .. } | Node::EmptyArgKind => return None,
    })
}

// ---------------------------------------------------------------- protocol text of a tree

fn enc_args(args: &[Option<MNode>], out: &mut Vec<String>) {
    out.push(format!("{}", args.len()));
    for a in args {
        match a {
            None => out.push("E".into()),
            Some(n) => enc(n, out),
        }
    }
}
fn enc_params(ps: &[(u32, bool)], out: &mut Vec<String>) {
    out.push(format!("{}", ps.len()));
    for (x, o) in ps {
        out.push(format!("{x}"));
        out.push(if *o { "1".into() } else { "0".into() });
    }
}
fn enc(n: &MNode, out: &mut Vec<String>) {
    match n {
        MNode::Lit(c, a) => {
            out.push("lit".into());
            out.push(format!("{c}"));
            out.push(format!("{a}"));
        }
        MNode::Name(x) => {
            out.push("name".into());
            out.push(format!("{x}"));
        }
        MNode::Bin(c, k, a, b) => {
            out.push("bin".into());
            out.push(format!("{c}"));
            out.push(format!("{k}"));
            enc(a, out);
            enc(b, out);
        }
        MNode::Neg(a) => {
            out.push("neg".into());
            enc(a, out)
        }
        MNode::Pct(a) => {
            out.push("pct".into());
            enc(a, out)
        }
        MNode::Rng(a, b) => {
            out.push("rng".into());
            enc(a, out);
            enc(b, out)
        }
        MNode::At(a) => {
            out.push("at".into());
            enc(a, out)
        }
        MNode::Spill(a) => {
            out.push("spill".into());
            enc(a, out)
        }
        MNode::Call(x, args) => {
            out.push("call".into());
            out.push(format!("{x}"));
            enc_args(args, out);
        }
        MNode::Lam(ps, body) => {
            out.push("lam".into());
            enc_params(ps, out);
            enc(body, out);
        }
        MNode::LamCall(ps, body, args) => {
            out.push("lamcall".into());
            enc_params(ps, out);
            enc(body, out);
            enc_args(args, out);
        }
    }
}
pub fn encode(n: &MNode) -> String {
    let mut out = vec![];
    enc(n, &mut out);
    out.join(";")
}

fn dec_args(it: &mut std::slice::Iter<&str>) -> Option<Vec<Option<MNode>>> {
    let n: usize = it.next()?.parse().ok()?;
    let mut v = vec![];
    for _ in 0..n {
        let mut peek = it.clone();
        if *peek.next()? == "E" {
            it.next();
            v.push(None);
        } else {
            v.push(Some(dec(it)?));
        }
    }
    Some(v)
}
fn dec_params(it: &mut std::slice::Iter<&str>) -> Option<Vec<(u32, bool)>> {
    let n: usize = it.next()?.parse().ok()?;
    let mut v = vec![];
    for _ in 0..n {
        let x: u32 = it.next()?.parse().ok()?;
        let o = *it.next()? == "1";
        v.push((x, o));
    }
    Some(v)
}
fn dec(it: &mut std::slice::Iter<&str>) -> Option<MNode> {
    Some(match *it.next()? {
        "lit" => MNode::Lit(it.next()?.parse().ok()?, it.next()?.parse().ok()?),
        "name" => MNode::Name(it.next()?.parse().ok()?),
        "bin" => {
            let c = it.next()?.parse().ok()?;
            let k = it.next()?.parse().ok()?;
            let a = dec(it)?;
            let b = dec(it)?;
            MNode::Bin(c, k, Box::new(a), Box::new(b))
        }
        "neg" => MNode::Neg(Box::new(dec(it)?)),
        "pct" => MNode::Pct(Box::new(dec(it)?)),
        "rng" => {
            let a = dec(it)?;
            let b = dec(it)?;
            MNode::Rng(Box::new(a), Box::new(b))
        }
        "at" => MNode::At(Box::new(dec(it)?)),
        "spill" => MNode::Spill(Box::new(dec(it)?)),
        "call" => {
            let x = it.next()?.parse().ok()?;
            MNode::Call(x, dec_args(it)?)
        }
        "lam" => {
            let ps = dec_params(it)?;
            MNode::Lam(ps, Box::new(dec(it)?))
        }
        "lamcall" => {
            let ps = dec_params(it)?;
            let body = dec(it)?;
            MNode::LamCall(ps, Box::new(body), dec_args(it)?)
        }
        _ => return None,
    })
}
pub fn decode(s: &str) -> Option<MNode> {
    let parts: Vec<&str> = s.split(';').collect();
    let mut it = parts.iter();
    let n = dec(&mut it)?;
    if it.next().is_some() {
        return None;
    }
    Some(n)
}

// ---------------------------------------------------------------- model tokens of real text

/// Lex `text` with the real lexer and render the tokens the way the Lean driver renders
/// `List Tok` (`,`-separated). Identifiers are mapped through the payload tables:
/// followed by `(` → function index, otherwise name index.  None = a token outside the tables.
pub fn model_tokens(text: &str, mode: LexerMode, locale: &Locale, language: &Language, arg_sep: &TokenType) -> Option<String> {
    let mut lx = Lexer::new(text, mode, locale, language);
    let mut toks = vec![];
    loop {
        let t = lx.next_token();
        if t == TokenType::EOF {
            break;
        }
        toks.push(t);
        if toks.len() > 10_000 {
            return None;
        }
    }
    // arrays are atoms in the model: fold `{ … }` into one literal token
    let mut out: Vec<String> = vec![];
    let mut i = 0;
    while i < toks.len() {
        let t = &toks[i];
        let next_is_lp = matches!(toks.get(i + 1), Some(TokenType::LeftParenthesis));
        let s = match t {
            TokenType::LeftBrace => {
                // find the matching brace and re-parse the literal text through the parser
                let mut j = i;
                while j < toks.len() && toks[j] != TokenType::RightBrace {
                    j += 1;
                }
                if j == toks.len() {
                    return None;
                }
                // identify which array of the table it is by its tokens
                let inner: Vec<&TokenType> = toks[i + 1..j].iter().collect();
                let idx = arrays().iter().position(|arr| array_tokens_match(arr, &inner, language))?;
                i = j;
                format!("lit:7:{idx}")
            }
            TokenType::Number(f) => format!("lit:0:{}", NUMS.iter().position(|x| x.to_bits() == f.to_bits())?),
            TokenType::String(s) => format!("lit:1:{}", STRS.iter().position(|x| x == s)?),
            TokenType::Error(e) => format!("lit:2:{}", pos(&ERRS, e)?),
            TokenType::Reference { .. } => "lit:ref".to_string(),
            TokenType::Range { .. } => "lit:range".to_string(),
            TokenType::Boolean(b) => format!("ident:{}", if next_is_lp { if *b { 1004 } else { 1005 } } else if *b { 3 } else { 7 }),
            TokenType::Ident(name) => {
                if next_is_lp {
                    if name.to_uppercase() == "LAMBDA" {
                        "ident:0".to_string()
                    } else if let Some(k) = NAMED_FNS.iter().position(|x| x == name) {
                        format!("ident:{}", 2000 + k)
                    } else {
                        let f = language.functions.lookup(name)?;
                        format!("ident:{}", 1000 + pos(&fn_table(), &f)?)
                    }
                } else if let Some(k) = VARS.iter().position(|x| x == name) {
                    format!("ident:{}", 4 * k)
                } else if let Some(k) = DNAMES.iter().position(|x| x == name) {
                    format!("ident:{}", 4 * k + 1)
                } else if let Some(k) = TABLES.iter().position(|x| x == name) {
                    format!("ident:{}", 4 * k + 2)
                } else {
                    return None;
                }
            }
            TokenType::Compare(k) => format!("op:cmp:{}", cmp_index(k)),
            TokenType::And => "op:cat".into(),
            TokenType::Addition(OpSum::Add) => "op:add".into(),
            TokenType::Addition(OpSum::Minus) => "op:sub".into(),
            TokenType::Product(OpProduct::Times) => "op:mul".into(),
            TokenType::Product(OpProduct::Divide) => "op:div".into(),
            TokenType::Power => "op:pow".into(),
            TokenType::Percent => "pct".into(),
            TokenType::Colon => "colon".into(),
            TokenType::At => "at".into(),
            TokenType::Spill => "hash".into(),
            TokenType::LeftParenthesis => "lp".into(),
            TokenType::RightParenthesis => "rp".into(),
            TokenType::LeftBracket => "lbk".into(),
            TokenType::RightBracket => "rbk".into(),
            t if t == arg_sep => "sep".into(),
            _ => return None,
        };
        out.push(s);
        i += 1;
    }
    Some(out.join(","))
}

fn array_tokens_match(arr: &[Vec<ArrayNode>], toks: &[&TokenType], _language: &Language) -> bool {
    // flatten the array's elements; separators are skipped; `-` + number folds into a negative
    let mut elems: Vec<ArrayNode> = vec![];
    let mut neg = false;
    for t in toks {
        match t {
            TokenType::Number(f) => {
                elems.push(ArrayNode::Number(if neg { -*f } else { *f }));
                neg = false;
            }
            TokenType::Addition(OpSum::Minus) => neg = true,
            TokenType::String(s) => elems.push(ArrayNode::String(s.clone())),
            TokenType::Boolean(b) => elems.push(ArrayNode::Boolean(*b)),
            TokenType::Error(e) => elems.push(ArrayNode::Error(e.clone())),
            _ => {}
        }
    }
    let flat: Vec<ArrayNode> = arr.iter().flatten().cloned().collect();
    flat == elems
}

// ---------------------------------------------------------------- generators

pub fn gen_lit(rng: &mut Rng, allow_all: bool) -> MNode {
    // weights: numbers and refs most common
    let c = if allow_all { *rng.pick(&[0u8, 0, 0, 1, 2, 3, 3, 3, 4, 4, 5, 6, 7]) } else { *rng.pick(&[0u8, 0, 1, 3]) };
    MNode::Lit(c, rng.below(26) as u32)
}

fn gen_args(rng: &mut Rng, depth: u32) -> Vec<Option<MNode>> {
    let n = rng.below(4) as usize;
    let mut v: Vec<Option<MNode>> = vec![];
    for _ in 0..n {
        if rng.chance(1, 6) {
            v.push(None);
        } else {
            v.push(Some(gen_tree(rng, depth.saturating_sub(1))));
        }
    }
    // `[EmptyArg]` alone is not in the parser's image (f() parses to no arguments)
    if v.len() == 1 && v[0].is_none() {
        v.push(None);
    }
    v
}

fn gen_params(rng: &mut Rng) -> Vec<(u32, bool)> {
    let n = rng.below(3) as usize;
    (0..n).map(|_| (4 * rng.below(4) as u32, rng.chance(1, 4))).collect()
}

/// a random well-formed tree (every operator nested under every other, parenthesised or not)
pub fn gen_tree(rng: &mut Rng, depth: u32) -> MNode {
    if depth == 0 || rng.chance(1, 8) {
        return if rng.chance(1, 4) { MNode::Name(*rng.pick(&[0u32, 1, 2, 3, 4, 5, 7, 8, 12])) } else { gen_lit(rng, true) };
    }
    let d = depth - 1;
    match rng.below(20) {
        0..=8 => {
            let c = rng.below(7) as u8;
            let k = if c == 0 { rng.below(6) as u8 } else { 0 };
            MNode::Bin(c, k, Box::new(gen_tree(rng, d)), Box::new(gen_tree(rng, d)))
        }
        9 | 10 => MNode::Neg(Box::new(gen_tree(rng, d))),
        11 | 12 => MNode::Pct(Box::new(gen_tree(rng, d))),
        13 => {
            // a reference directly followed by `:` is glued to what follows by the real lexer
            // (`(A1):B2` prints as `A1:B2`, one range token): those shapes are outside the
            // token-level model and are exercised separately by the `c09-glue` suite
            let mut left = gen_tree(rng, d);
            while ends_with_reference(&left) {
                left = gen_tree(rng, d);
            }
            MNode::Rng(Box::new(left), Box::new(gen_tree(rng, d)))
        }
        14 => MNode::At(Box::new(gen_tree(rng, d))),
        15 => MNode::Spill(Box::new(gen_tree(rng, d))),
        16 | 17 => {
            let x = if rng.chance(1, 5) { 2000 + rng.below(2) as u32 } else { 1000 + rng.below(12) as u32 };
            MNode::Call(x, gen_args(rng, depth))
        }
        18 => MNode::Lam(gen_params(rng), Box::new(gen_tree(rng, d))),
        _ => MNode::LamCall(gen_params(rng), Box::new(gen_tree(rng, d)), gen_args(rng, depth)),
    }
}

/// does the printed text of `n` end with a bare reference token (when `n` is printed unwrapped
/// as the left operand of `:`)?
pub fn ends_with_reference(n: &MNode) -> bool {
    match n {
        MNode::Lit(0, _) | MNode::Lit(3, _) | MNode::Lit(5, _) => true,
        MNode::At(a) => ends_with_reference(a),
        _ => false,
    }
}

pub fn kind_name(n: &MNode) -> String {
    match n {
        MNode::Lit(c, _) => format!("lit.{}", LIT_CLASSES[*c as usize]),
        MNode::Name(_) => "name".into(),
        MNode::Bin(c, _, _, _) => format!("bin.{}", OP_CLASSES[*c as usize]),
        MNode::Neg(_) => "neg".into(),
        MNode::Pct(_) => "pct".into(),
        MNode::Rng(_, _) => "rng".into(),
        MNode::At(_) => "at".into(),
        MNode::Spill(_) => "spill".into(),
        MNode::Call(_, _) => "call".into(),
        MNode::Lam(_, _) => "lam".into(),
        MNode::LamCall(_, _, _) => "lamcall".into(),
    }
}
