//! C10 — display language and locale never change what formulas compute.
//! Oracle suite on a real `UserModel`: editing histories with language / locale switches at
//! arbitrary points. At every switch: stored formula texts and stored defined-name formulas are
//! byte-identical before and after; every cell's stored value is unchanged (no formula of the
//! generator's pool is locale dependent); and for every formula cell, the text displayed in the
//! NEW language/locale, typed back into the same cell, leaves the stored formula unchanged.
use crate::run::{never, Ctx, ImplOut, Suite, Tier};
use crate::wbgen::*;
use ironcalc_base::Model;

fn gen(ctx: &Ctx, sink: &mut dyn FnMut(String)) {
    let n = if ctx.tier == Tier::Quick { 200 } else { 10_000 };
    for i in 0..n {
        let seed = ctx.seed.wrapping_mul(9_000_011).wrapping_add(i);
        sink(format!("c10 hist {seed} {}", 5 + i % 30));
    }
    // every language-dependent literal kind in every syntactic context, in every configuration
    for (a, _) in LANGUAGES.iter().enumerate() {
        for (b, _) in LOCALES.iter().enumerate() {
            for k in 0..literal_formulas().len() {
                sink(format!("c10 lit {a} {b} {k}"));
            }
        }
    }
    // every ordered pair of configurations on a fixed workbook
    for (a, _) in LANGUAGES.iter().enumerate() {
        for (b, _) in LOCALES.iter().enumerate() {
            sink(format!("c10 pair {} {a} {b}", ctx.seed));
        }
    }
}

/// the 12 error literals as typed in English
const ERRORS_EN: [&str; 12] = ["#REF!", "#NAME?", "#VALUE!", "#DIV/0!", "#N/A", "#NUM!", "#ERROR!", "#N/IMPL!", "#SPILL!", "#CALC!", "#CIRC!", "#NULL!"];

/// English formulas that contain every literal kind whose spelling depends on the language or the
/// locale (error literals, booleans, decimal numbers, argument and array separators, function names),
/// each directly followed by every kind of token (`,` `)` operator, comparison, `&`, array separators,
/// end of text)
fn literal_formulas() -> Vec<String> {
    let mut v = vec![];
    for e in ERRORS_EN {
        v.push(format!("=IF(B1=1,{e},B1+2)"));
        v.push(format!("={e}+1"));
        v.push(format!("=1+{e}"));
        v.push(format!("=IFERROR({e},1.5)&\"x\""));
        v.push(format!("=SUM(2.5,{e})"));
        v.push(format!("=ISERROR({e})"));
        v.push(format!("={e}=1"));
        v.push(format!("=IF({e}<>{e},TRUE,FALSE)"));
        v.push(format!("=SUM({{1.5,{e};{e},3}})"));
        v.push(format!("=-{e}%"));
        v.push(format!("={e}"));
    }
    for t in [
        "=IF(TRUE,1.5,FALSE)", "=AND(TRUE,FALSE)", "=SUM({TRUE,FALSE;1.5,2.25})", "=TRUE+1", "=FALSE&\"x\"", "=TRUE=FALSE",
        "=1.5+2.25", "=SUM(1.5,2.5,3)", "=SUM({1.5,2.5;3.5,4.5})", "=ROUND(2.567,1)", "=1.5E+3*2", "=1,5", "=MAX(1.5;2)",
        "=IF(A1>1.5,\"a,b\",\"c;d\")", "=SUM(A1:B2,C3)", "=SUM((A1:B2,C3:D4))",
    ] {
        v.push(t.to_string());
    }
    v
}

/// stored (internal) texts: per sheet the formula table, and the defined-name formulas
fn stored(model: &Model) -> Vec<String> {
    let mut v = vec![];
    for (i, ws) in model.workbook.worksheets.iter().enumerate() {
        for (k, f) in ws.shared_formulas.iter().enumerate() {
            v.push(format!("sheet{i}/f{k}={f}"));
        }
    }
    for d in &model.workbook.defined_names {
        v.push(format!("name {}@{:?}={}", d.name, d.sheet_id, d.formula));
    }
    v
}

/// every cell as stored (values included), language independent
fn cells(model: &Model) -> Vec<String> {
    let mut v = vec![];
    for (i, ws) in model.workbook.worksheets.iter().enumerate() {
        for (r, cols) in ws.sheet_data.iter() {
            for (c, cell) in cols.iter() {
                // the cached error MESSAGE (`m: "#N/A"`) is display text in the active language,
                // not part of the value: dropped before comparing
                let mut t = format!("{cell:?}");
                while let Some(p) = t.find(", m: \"") {
                    let rest = &t[p + 6..];
                    let end = rest.find('"').map(|e| p + 6 + e + 1).unwrap_or(t.len());
                    t.replace_range(p..end, "");
                }
                v.push(format!("{i}:{r}:{c}:{t}"));
            }
        }
    }
    v.sort();
    v
}

fn first_diff_vec(a: &[String], b: &[String]) -> String {
    for (x, y) in a.iter().zip(b.iter()) {
        if x != y {
            return format!("`{x}` vs `{y}`");
        }
    }
    format!("lengths {} vs {}", a.len(), b.len())
}

/// the re-entry oracle: display every formula cell in the active configuration, type it back
fn retype_all(m: &mut ironcalc_base::UserModel, out: &mut ImplOut, conf: &str) {
    let coords: Vec<(u32, i32, i32)> = {
        let model = m.get_model();
        let mut v = vec![];
        for (i, ws) in model.workbook.worksheets.iter().enumerate() {
            for (r, cols) in ws.sheet_data.iter() {
                for c in cols.keys() {
                    if matches!(model.get_cell_formula(i as u32, *r, *c), Ok(Some(_))) {
                        v.push((i as u32, *r, *c));
                    }
                }
            }
        }
        v.sort();
        v
    };
    for (s, r, c) in coords {
        // array formulas and spills are entered through another API: not judged here
        let single = m.get_cell_array_structure(s, r, c).ok().and_then(|x| serde_json::to_string(&x).ok()).map(|t| t.contains("SingleCell")).unwrap_or(false);
        if !single {
            continue;
        }
        // a text that did not parse in the configuration it was typed in is kept verbatim as a
        // parse-error formula (#ERROR!): it is not "a formula typed in one language" — not judged
        let is_parse_error = m
            .get_model()
            .workbook
            .worksheets
            .get(s as usize)
            .and_then(|ws| ws.sheet_data.get(&r))
            .and_then(|row| row.get(&c))
            .map(|cell| format!("{cell:?}").contains("ei: ERROR"))
            .unwrap_or(true);
        if is_parse_error {
            continue;
        }
        let before = stored_of_cell(m.get_model(), s, r, c);
        let shown = match m.get_model().get_localized_cell_content(s, r, c) {
            Ok(t) => t,
            Err(_) => continue,
        };
        if std::env::var("VERIF_DEBUG").is_ok() {
            eprintln!("retype {conf} {s}!{r},{c}: shown `{shown}` stored {before:?} formula {:?}", m.get_model().get_cell_formula(s, r, c));
        }
        if m.set_user_input(s, r, c, &shown).is_err() {
            *out = std::mem::replace(out, ImplOut::new(String::new())).fail("c10:retype:rejected", &format!("{conf}: `{shown}` shown in {s}!{r},{c} is rejected when typed back"));
            return;
        }
        let after = stored_of_cell(m.get_model(), s, r, c);
        if before != after {
            *out = std::mem::replace(out, ImplOut::new(String::new())).fail("c10:retype:stored-formula-changed", &format!("{conf}: `{shown}` typed back into {s}!{r},{c}: stored `{before:?}` became `{after:?}`"));
            return;
        }
    }
}

fn stored_of_cell(model: &Model, s: u32, r: i32, c: i32) -> Option<String> {
    let ws = model.workbook.worksheets.get(s as usize)?;
    let cell = ws.sheet_data.get(&r)?.get(&c)?;
    cell.get_formula().and_then(|f| ws.shared_formulas.get(f as usize).cloned())
}

fn eval(req: &str) -> ImplOut {
    let f: Vec<&str> = req.split(' ').collect();
    let mut out = ImplOut::new(String::new());
    let mut m = new_user_model();
    let mut switches = 0;
    if f[1] == "hist" {
        let seed: u64 = f[2].parse().unwrap();
        let nops: usize = f[3].parse().unwrap();
        for op in gen_history_lang(seed, nops) {
            // structural edits rewrite stored formulas (and may damage them: that is C12–C15's
            // business); C10 judges histories of inputs, names, styles, sheets, undo/redo
            if matches!(op, Op::InsertRows { .. } | Op::DeleteRows { .. } | Op::InsertCols { .. } | Op::DeleteCols { .. }) {
                continue;
            }
            // number-like text is classified by the locale active when it is typed, and a text
            // that looks like a number is coerced with the locale active at evaluation time: such
            // inputs make values legitimately locale dependent (implicit VALUE) — not generated here
            if let Op::Input { text, .. } = &op {
                if !text.starts_with('=') && text.chars().any(|c| c.is_ascii_digit()) && text.chars().any(|c| ".,/$%-eE€ ".contains(c)) {
                    continue;
                }
            }
            let is_switch = matches!(op, Op::Language(_) | Op::Locale(_));
            if std::env::var("VERIF_DEBUG").is_ok() {
                eprintln!("op {op:?}  [lang={} locale={}]", m.get_language(), m.get_locale());
            }
            if is_switch {
                m.evaluate();
                let s0 = stored(m.get_model());
                let c0 = cells(m.get_model());
                // control experiment: a plain re-evaluation, without any switch.  When that alone changes
                // values (overlapping arrays: evaluation is not idempotent — findings F07b/F07c/F31a,
                // judged by C07/C31), a difference after the switch cannot be attributed to the switch.
                m.evaluate();
                let stable = c0 == cells(m.get_model());
                m.evaluate();
                let stable = stable && c0 == cells(m.get_model());
                if !stable {
                    let _ = apply(&mut m, &op);
                    out = out.tag("switch:skipped-evaluation-not-idempotent");
                    continue;
                }
                if apply(&mut m, &op).is_err() {
                    out = out.fail("c10:switch:rejected", &format!("{op:?}"));
                    break;
                }
                m.evaluate();
                switches += 1;
                let s1 = stored(m.get_model());
                let c1 = cells(m.get_model());
                if s0 != s1 {
                    out = out.fail("c10:switch:stored-text-changed", &format!("{op:?}: {}", first_diff_vec(&s0, &s1)));
                    break;
                }
                if c0 != c1 {
                    out = out.fail("c10:switch:value-changed", &format!("{op:?}: {}", first_diff_vec(&c0, &c1)));
                    break;
                }
                out = out.tag(&format!("switch:{}", if matches!(op, Op::Language(_)) { "language" } else { "locale" }));
            } else {
                let _ = apply(&mut m, &op);
            }
        }
        if out.oracle.is_empty() {
            let conf = format!("({},{})", m.get_language(), m.get_locale());
            retype_all(&mut m, &mut out, &conf);
        }
    } else if f[1] == "lit" {
        // one English formula with language/locale-dependent literals: typed in en/en, shown in
        // (language a, locale b), typed back there
        let (a, b, k): (usize, usize, usize) = (f[2].parse().unwrap(), f[3].parse().unwrap(), f[4].parse().unwrap());
        let text = literal_formulas()[k].clone();
        let _ = m.set_user_input(0, 1, 1, "2");
        let _ = m.set_user_input(0, 1, 2, "1");
        if m.set_user_input(0, 3, 3, &text).is_err() {
            out.ans = "rejected-in-en".into();
            return out.trivial();
        }
        m.evaluate();
        let s0 = stored(m.get_model());
        let c0 = cells(m.get_model());
        let parsed_in_en = !c0.iter().any(|c| c.contains("ei: ERROR"));
        let ok = m.set_language(LANGUAGES[a]).is_ok() && m.set_locale(LOCALES[b]).is_ok();
        m.evaluate();
        switches = 2;
        out = out.tag(if parsed_in_en { "lit:parsed" } else { "lit:not-a-formula-in-en" });
        if !ok {
            out = out.fail("c10:switch:rejected", &format!("{} {}", LANGUAGES[a], LOCALES[b]));
        } else if s0 != stored(m.get_model()) {
            out = out.fail("c10:switch:stored-text-changed", &first_diff_vec(&s0, &stored(m.get_model())));
        } else if c0 != cells(m.get_model()) {
            out = out.fail("c10:switch:value-changed", &format!("`{text}`: {}", first_diff_vec(&c0, &cells(m.get_model()))));
        } else if parsed_in_en {
            let conf = format!("({},{})", LANGUAGES[a], LOCALES[b]);
            retype_all(&mut m, &mut out, &conf);
            m.evaluate();
            if out.oracle.is_empty() && c0 != cells(m.get_model()) {
                out = out.fail("c10:retype:value-changed", &format!("{conf} `{text}`: {}", first_diff_vec(&c0, &cells(m.get_model()))));
            }
        }
    } else {
        // pair: a fixed workbook, shown and re-entered under (language a, locale b)
        let seed: u64 = f[2].parse().unwrap();
        let (a, b): (usize, usize) = (f[3].parse().unwrap(), f[4].parse().unwrap());
        for op in gen_history(seed, 30) {
            if !matches!(op, Op::Undo | Op::Redo | Op::InsertRows { .. } | Op::DeleteRows { .. } | Op::InsertCols { .. } | Op::DeleteCols { .. }) {
                let _ = apply(&mut m, &op);
            }
        }
        m.evaluate();
        let s0 = stored(m.get_model());
        let c0 = cells(m.get_model());
        m.evaluate();
        let stable = c0 == cells(m.get_model());
        m.evaluate();
        let stable = stable && c0 == cells(m.get_model());
        let ok = m.set_language(LANGUAGES[a]).is_ok() && m.set_locale(LOCALES[b]).is_ok();
        m.evaluate();
        switches = 2;
        if !ok {
            out = out.fail("c10:switch:rejected", &format!("{} {}", LANGUAGES[a], LOCALES[b]));
        } else if s0 != stored(m.get_model()) {
            out = out.fail("c10:switch:stored-text-changed", &first_diff_vec(&s0, &stored(m.get_model())));
        } else if !stable {
            out = out.tag("switch:skipped-evaluation-not-idempotent");
        } else if c0 != cells(m.get_model()) {
            out = out.fail("c10:switch:value-changed", &first_diff_vec(&c0, &cells(m.get_model())));
        } else {
            let conf = format!("({},{})", LANGUAGES[a], LOCALES[b]);
            retype_all(&mut m, &mut out, &conf);
        }
    }
    out.ans = format!("switches={switches}");
    out.nontrivial = switches > 0;
    out
}

pub fn suites() -> Vec<Suite> {
    vec![Suite {
        name: "c10-switch",
        rule: "random user-model histories with set_language / set_locale interleaved (5 languages × 6 locales), plus every (language, locale) pair on a fixed workbook, plus, in every pair, ~150 English formulas placing each language- or locale-dependent literal (12 error literals, booleans, decimal numbers, argument/array separators, function names) before every kind of following token: stored formula texts and defined-name formulas byte-identical across each switch, every stored cell value unchanged, and every displayed formula typed back in the active configuration leaves its stored form unchanged; non-trivial = at least one switch happened",
        modelled: false,
        gen,
        eval,
        exhaustive: never,
    }]
}
