//! C26 — saving to and loading from the internal binary format is lossless.
//! Oracle suite: random user-model histories (incl. undo/redo, structural edits, styles, names),
//! `to_bytes` → `from_bytes` → evaluate → the canonical snapshot and the Workbook structure must be identical.
use crate::run::{never, Ctx, ImplOut, Suite, Tier};
use crate::wbgen::*;
use ironcalc_base::UserModel;

fn gen(ctx: &Ctx, sink: &mut dyn FnMut(String)) {
    let n = if ctx.tier == Tier::Quick { 300 } else { 20_000 };
    for i in 0..n {
        let seed = ctx.seed.wrapping_mul(1_000_003).wrapping_add(i);
        let nops = 3 + (i % 38);
        sink(format!("c26 hist {seed} {nops}"));
    }
}

fn category(diff: &str) -> &'static str {
    if diff.contains("  cell ") {
        // find which field differs
        let parts: Vec<&str> = diff.split("` vs `").collect();
        if parts.len() == 2 {
            let field = |s: &str, k: &str| -> String {
                s.split(k).nth(1).map(|x| x.split(' ').next().unwrap_or("").to_string()).unwrap_or_default()
            };
            for (k, name) in [("formula=", "c26:cell:formula"), ("content=", "c26:cell:content"), ("value=", "c26:cell:value"), ("shown=", "c26:cell:shown"), ("type=", "c26:cell:type")] {
                if field(parts[0], k) != field(parts[1], k) {
                    return name;
                }
            }
            return "c26:cell:style";
        }
        "c26:cell"
    } else if diff.contains("defined-name") {
        "c26:defined-name"
    } else if diff.contains("  col ") || diff.contains("  row ") {
        "c26:row-col"
    } else if diff.contains("sheet ") {
        "c26:sheet"
    } else {
        "c26:other"
    }
}

fn eval(req: &str) -> ImplOut {
    let f: Vec<&str> = req.split(' ').collect();
    let seed: u64 = f[2].parse().unwrap();
    let nops: usize = f[3].parse().unwrap();
    let ops = gen_history(seed, nops);
    let mut m = new_user_model();
    let mut applied = 0;
    let mut out = ImplOut::new(String::new());
    for op in &ops {
        if apply(&mut m, op).is_ok() {
            applied += 1;
        }
        let tag = format!("{op:?}");
        out = out.tag(&format!("op:{}", tag.split([' ', '{']).next().unwrap_or("")));
    }
    m.evaluate();
    let before = snapshot(m.get_model());
    let bytes = m.to_bytes();
    match UserModel::from_bytes(&bytes, "en") {
        Ok(mut m2) => {
            m2.evaluate();
            let after = snapshot(m2.get_model());
            if before != after {
                let d = first_diff(&before, &after);
                out = out.fail(category(&d), &format!("after reload: {d}"));
            }
            // the decoded structure is the encoded one (HashMap iteration order makes the BYTES
            // unstable, which is not observable; the structures are compared instead)
            if m2.get_model().workbook != m.get_model().workbook {
                out = out.fail("c26:workbook-struct", "the loaded and evaluated Workbook structure differs from the original");
            }
        }
        Err(e) => out = out.fail("c26:load-error", &e),
    }
    out.ans = format!("applied={applied}");
    out.nontrivial = applied >= 2;
    out
}

pub fn suites() -> Vec<Suite> {
    vec![Suite {
        name: "c26-reload",
        rule: "random user-model histories (3..40 ops: inputs from a pool of 44 formulas incl. every parenthesisation shape and 22 value shapes, array formulas, row/column insert/delete, sheets, renames, widths/heights, styles, defined names, frozen panes, clears, undo/redo) → to_bytes → from_bytes → evaluate → snapshot equality and structural equality of the Workbook; non-trivial = at least two ops applied; distinct by (seed, length)",
        modelled: false,
        gen,
        eval,
        exhaustive: never,
    }]
}
