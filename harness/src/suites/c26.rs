//! C26 — saving to and loading from the internal binary format is lossless.
//! Oracle suite: random user-model histories (incl. undo/redo, structural edits, styles, names),
//! `to_bytes` → `from_bytes` → evaluate → the canonical snapshot and the Workbook structure must be identical.
use crate::run::{never, Ctx, ImplOut, Suite, Tier};
use crate::wbgen::*;
use ironcalc_base::UserModel;

fn gen(ctx: &Ctx, sink: &mut dyn FnMut(String)) {
    let n = if ctx.tier == Tier::Quick { 300 } else { 20_000 };
    for i in 0..n {
        let seed = ctx.seed.wrapping_mul(1_000_003).wrapping_add(i);
        let nops = 3 + (i % 38);
        sink(format!("c26 hist {seed} {nops}"));
    }
}

fn category(diff: &str) -> &'static str {
    if diff.contains("  cell ") {
        // find which field differs
        let parts: Vec<&str> = diff.split("` vs `").collect();
        if parts.len() == 2 {
            let field = |s: &str, k: &str| -> String {
                s.split(k).nth(1).map(|x| x.split(' ').next().unwrap_or("").to_string()).unwrap_or_default()
            };
            for (k, name) in [("formula=", "c26:cell:formula"), ("content=", "c26:cell:content"), ("value=", "c26:cell:value"), ("shown=", "c26:cell:shown"), ("type=", "c26:cell:type")] {
                if field(parts[0], k) != field(parts[1], k) {
                    return name;
                }
            }
            return "c26:cell:style";
        }
        "c26:cell"
    } else if diff.contains("defined-name") {
        "c26:defined-name"
    } else if diff.contains("  col ") || diff.contains("  row ") {
        "c26:row-col"
    } else if diff.contains("sheet ") {
        "c26:sheet"
    } else {
        "c26:other"
    }
}

fn eval(req: &str) -> ImplOut {
    let f: Vec<&str> = req.split(' ').collect();
    let seed: u64 = f[2].parse().unwrap();
    let nops: usize = f[3].parse().unwrap();
    let ops = gen_history(seed, nops);
    let mut m = new_user_model();
    let mut applied = 0;
    let mut out = ImplOut::new(String::new());
    for op in &ops {
        if std::env::var("VERIF_DEBUG").is_ok() {
            eprintln!("op {op:?}");
        }
        if apply(&mut m, op).is_ok() {
            applied += 1;
        }
        let tag = format!("{op:?}");
        out = out.tag(&format!("op:{}", tag.split([' ', '{']).next().unwrap_or("")));
    }
    m.evaluate();
    let saved = snapshot(m.get_model());
    let bytes = m.to_bytes();
    match UserModel::from_bytes(&bytes, "en") {
        Ok(mut m2) => {
            // "an identical workbook": what was decoded is what was encoded, before anything is re-evaluated
            if m2.get_model().workbook != m.get_model().workbook {
                out = out.fail("c26:decoded-struct", "the decoded Workbook structure differs from the encoded one (before evaluation)");
            }
            // "whose evaluation yields the same values": the loaded workbook is evaluated once, so the
            // original is evaluated once more too.  On almost every workbook that changes nothing; where
            // evaluation is not idempotent (a CSE array formula that reads its own range grows on every
            // pass — an evaluation defect, C05/C07's business) both sides must still move in step.
            m.evaluate();
            let before = snapshot(m.get_model());
            if before != saved {
                out = out.tag("reload:evaluation-not-idempotent");
            }
            m2.evaluate();
            let after = snapshot(m2.get_model());
            if before != after {
                let d = first_diff(&before, &after);
                out = out.fail(category(&d), &format!("after reload: {d}"));
            }
            // the decoded structure is the encoded one (HashMap iteration order makes the BYTES
            // unstable, which is not observable; the structures are compared instead)
            // after evaluation: values, contents and formula texts (the property's list).  The diagnostic
            // message cached in an error value (`m:`) is none of these: a parse-error formula is kept
            // verbatim in A1 form and re-read by the R1C1 parser at load, which words its complaint differently.
            if m2.get_model().workbook != m.get_model().workbook {
                // name the first difference of the two structures (sorted Debug lines: HashMap order is not stable)
                let lines = |w: &ironcalc_base::types::Workbook| -> Vec<String> {
                    let mut v: Vec<String> = vec![];
                    for (i, ws) in w.worksheets.iter().enumerate() {
                        for (r, row) in &ws.sheet_data {
                            for (c, cell) in row {
                                let mut t = format!("{cell:?}");
                                while let Some(p) = t.find(", m: \"") {
                                    let rest = &t[p + 6..];
                                    let end = rest.find("\" }").map(|e| p + 6 + e + 1).unwrap_or(t.len());
                                    t.replace_range(p..end, "");
                                }
                                v.push(format!("sheet{i} cell {r},{c}: {t}"));
                            }
                        }
                        for (k, f) in ws.shared_formulas.iter().enumerate() {
                            v.push(format!("sheet{i} formula {k}: {f}"));
                        }
                        v.push(format!("sheet{i} rows {:?} cols {:?} dims {:?}", ws.rows, ws.cols, ws.dimension));
                    }
                    v.push(format!("names {:?}", w.defined_names));
                    v.sort();
                    v
                };
                let (a, b) = (lines(&m.get_model().workbook), lines(&m2.get_model().workbook));
                let d = a.iter().zip(b.iter()).find(|(x, y)| x != y).map(|(x, y)| format!("`{x}` vs `{y}`"));
                let only_messages = d.is_none() && a.len() == b.len() && {
                    // everything outside the cells' cached messages must still be equal
                    let strip = |w: &ironcalc_base::types::Workbook| {
                        let mut w = w.clone();
                        for ws in w.worksheets.iter_mut() {
                            ws.sheet_data.clear();
                        }
                        w
                    };
                    strip(&m.get_model().workbook) == strip(&m2.get_model().workbook)
                };
                let d = d.unwrap_or_else(|| format!("{} vs {} entries (or a field outside cells/formulas/rows/cols/names)", a.len(), b.len()));
                if only_messages {
                    out = out.tag("reload:error-message-reworded");
                } else {
                out = out.fail("c26:workbook-struct", &format!("the loaded and evaluated Workbook structure differs from the original: {d}"));
                }
            }
        }
        Err(e) => out = out.fail("c26:load-error", &e),
    }
    out.ans = format!("applied={applied}");
    out.nontrivial = applied >= 2;
    out
}

pub fn suites() -> Vec<Suite> {
    vec![Suite {
        name: "c26-reload",
        rule: "random user-model histories (3..40 ops: inputs from a pool of 44 formulas incl. every parenthesisation shape and 22 value shapes, array formulas, row/column insert/delete, sheets, renames, widths/heights, styles, defined names, frozen panes, clears, undo/redo) → to_bytes → from_bytes → evaluate → snapshot equality and structural equality of the Workbook; non-trivial = at least two ops applied; distinct by (seed, length)",
        modelled: false,
        gen,
        eval,
        exhaustive: never,
    }]
}
