//! C25 — xlsx import never crashes.
//!  * `c25-tree` : element/attribute/part-level mutants of packages written by the REAL exporter, as abstract
//!                 XML trees. The request line carries the whole mutated package; `eval` writes it back as
//!                 XML + zip and runs the real `load_from_xlsx_bytes` + `Model::from_workbook` on a worker
//!                 thread under `catch_unwind` and a wall-clock cap. The Lean skeleton (`Io/XlsxSkeleton.lean`)
//!                 predicts `ok` / `err` / `panic <file>:<line>` from the same trees (correspondence).
//!  * `c25-raw`  : zip-level and byte-level mutants (missing/duplicated/renamed parts, truncation, bit flips,
//!                 garbage inside a part's XML) — crash oracle only.
//! Oracle: a panic or a timeout is a failure, signature `c25:panic:<file>:<line>` / `c25:timeout`.
use super::bookgen::gen_model;
use super::xmltree::*;
use crate::prng::Rng;
use crate::run::{never, Ctx, ImplOut, Suite, Tier};
use ironcalc::export::save_xlsx_to_writer;
use ironcalc::import::load_from_xlsx_bytes;
use ironcalc_base::Model;
use std::cell::RefCell;
use std::io::Cursor;
use std::panic::{catch_unwind, AssertUnwindSafe};
use std::sync::atomic::{AtomicBool, Ordering};
use std::sync::mpsc;
use std::sync::Once;
use std::time::Duration;

thread_local! {
    static LAST_PANIC: RefCell<Option<String>> = const { RefCell::new(None) };
}
static HOOK: Once = Once::new();
static TIMED_OUT: AtomicBool = AtomicBool::new(false);
const CAP: Duration = Duration::from_secs(20);

fn install_hook() {
    HOOK.call_once(|| {
        std::panic::set_hook(Box::new(|info| {
            let loc = match info.location() {
                Some(l) => {
                    // keep the path from the crate directory on: xlsx/src/import/worksheets.rs:876
                    let f = l.file();
                    let f = match f.find("xlsx/src/").or_else(|| f.find("base/src/")).or_else(|| f.find("library/")) {
                        Some(p) => &f[p..],
                        None => f,
                    };
                    format!("{f}:{}", l.line())
                }
                None => "unknown".to_string(),
            };
            LAST_PANIC.with(|p| *p.borrow_mut() = Some(loc));
        }));
    });
}

#[derive(Debug, Clone, PartialEq)]
pub enum Class {
    Ok,
    Err(String),
    Panic(String),
    Timeout,
}

/// the real importer on a worker thread, with a wall-clock cap
pub fn import_class(bytes: Vec<u8>) -> Class {
    install_hook();
    if TIMED_OUT.load(Ordering::SeqCst) {
        // a previous import is still running away on its thread: do not pile more work on the process
        return Class::Err("skipped-after-timeout".into());
    }
    let (tx, rx) = mpsc::channel();
    let builder = std::thread::Builder::new().stack_size(64 << 20);
    let spawned = builder.spawn(move || {
        LAST_PANIC.with(|p| *p.borrow_mut() = None);
        let res = catch_unwind(AssertUnwindSafe(|| match load_from_xlsx_bytes(&bytes, "book", "en", "UTC") {
            Ok(wb) => match Model::from_workbook(wb, "en") {
                Ok(_m) => Class::Ok,
                Err(e) => Class::Err(format!("from_workbook:{e}")),
            },
            Err(e) => Class::Err(format!("{e:?}").split(['(', ' ']).next().unwrap_or("").to_string()),
        }));
        let out = match res {
            Ok(c) => c,
            Err(_) => Class::Panic(LAST_PANIC.with(|p| p.borrow().clone()).unwrap_or_else(|| "unknown".into())),
        };
        let _ = tx.send(out);
    });
    if spawned.is_err() {
        return Class::Err("spawn".into());
    }
    match rx.recv_timeout(CAP) {
        Ok(c) => c,
        Err(_) => {
            TIMED_OUT.store(true, Ordering::SeqCst);
            Class::Timeout
        }
    }
}

fn class_out(c: Class, detail: &str) -> ImplOut {
    match c {
        Class::Ok => ImplOut::new("ok".into()).tag("ok"),
        Class::Err(e) => ImplOut::new("err".into()).tag(&format!("err:{e}")),
        Class::Panic(site) => ImplOut::new(format!("panic {site}"))
            .tag("panic")
            .fail(&format!("c25:panic:{site}"), &format!("import panicked at {site}; {detail}")),
        Class::Timeout => ImplOut::new("timeout".into())
            .tag("timeout")
            .fail("c25:timeout", &format!("import did not finish within {CAP:?}; {detail}")),
    }
}

// ---------------------------------------------------------------------------------------------
// packages from the real exporter
// ---------------------------------------------------------------------------------------------

pub fn export_bytes(seed: u64, size: u32) -> Vec<u8> {
    let m = gen_model(seed, size);
    save_xlsx_to_writer(&m, Cursor::new(Vec::new())).map(|c| c.into_inner()).unwrap_or_default()
}

/// parts the importer reads, as trees (the theme part is left out: it is large, and a missing theme part
/// is a supported case — the importer falls back to the default theme)
fn export_package(seed: u64, size: u32) -> Package {
    package_of(&export_bytes(seed, size))
}

fn package_of(bytes: &[u8]) -> Package {
    let mut p = vec![];
    for (name, b) in unzip(bytes).unwrap_or_default() {
        let wanted = name.starts_with("xl/") && !name.starts_with("xl/theme/") && name != "xl/metadata.xml";
        if !wanted {
            continue;
        }
        if let Some(x) = std::str::from_utf8(&b).ok().and_then(parse_part) {
            p.push((name, x));
        }
    }
    p
}

fn package_zip(p: &Package) -> Vec<u8> {
    let parts: Vec<(String, Vec<u8>)> = p.iter().map(|(n, x)| (n.clone(), part_xml(x).into_bytes())).collect();
    zip_up(&parts)
}

const GARBAGE: &[&str] = &[
    "", "x", "-1", "0", "1", "7", "99999999999999999999", "4294967295", "2147483648", "1e999", "nan", "é", "aé45678",
    "日本", "A1", "ZZZZ1", "A0", "A1:B", "$A$1", "Sheet1!A1", "true", "rId99", "shared", "array", "dataTable", "hidden", "/x", "a",
];

fn e(name: &str, attrs: &[(&str, &str)], kids: Vec<X>) -> X {
    X::E { name: name.into(), attrs: attrs.iter().map(|(k, v)| (k.to_string(), v.to_string())).collect(), kids }
}

/// every element of the package as (part index, path)
fn all_elements(p: &Package) -> Vec<(usize, Vec<usize>)> {
    let mut out = vec![];
    for (i, (_, x)) in p.iter().enumerate() {
        let mut paths = vec![];
        element_paths(x, &mut vec![], &mut paths);
        for q in paths {
            out.push((i, q));
        }
    }
    out
}

fn remove_at(p: &mut Package, part: usize, path: &[usize]) -> Option<X> {
    let (last, parent) = path.split_last()?;
    match get_mut(&mut p[part].1, parent)? {
        X::E { kids, .. } if *last < kids.len() => Some(kids.remove(*last)),
        _ => None,
    }
}

/// one mutation; returns a short description (None = not applicable)
fn mutate(p: &mut Package, r: &mut Rng, kind: u64, target: Option<(usize, Vec<usize>)>) -> Option<String> {
    let els = all_elements(p);
    if els.is_empty() {
        return None;
    }
    let (part, path) = target.unwrap_or_else(|| r.pick(&els).clone());
    let pname = p[part].0.clone();
    let tag = match get(&p[part].1, &path)? {
        X::E { name, .. } => name.clone(),
        _ => return None,
    };
    match kind {
        0 => {
            remove_at(p, part, &path)?;
            Some(format!("delete <{tag}> in {pname}"))
        }
        1 => {
            let (last, parent) = path.split_last()?;
            if let X::E { kids, .. } = get_mut(&mut p[part].1, parent)? {
                let c = kids[*last].clone();
                kids.insert(*last, c);
            }
            Some(format!("duplicate <{tag}> in {pname}"))
        }
        2 => {
            if let X::E { kids, .. } = get_mut(&mut p[part].1, &path)? {
                if kids.len() < 2 {
                    return None;
                }
                let i = r.below(kids.len() as u64) as usize;
                let j = r.below(kids.len() as u64) as usize;
                kids.swap(i, j);
            }
            Some(format!("reorder children of <{tag}> in {pname}"))
        }
        3 => {
            if let X::E { kids, .. } = get_mut(&mut p[part].1, &path)? {
                if kids.is_empty() {
                    return None;
                }
                kids.clear();
            }
            Some(format!("empty <{tag}> in {pname}"))
        }
        4 | 5 | 6 => {
            if let X::E { attrs, .. } = get_mut(&mut p[part].1, &path)? {
                let cands: Vec<usize> = (0..attrs.len()).filter(|i| !attrs[*i].0.starts_with("xmlns")).collect();
                if cands.is_empty() {
                    return None;
                }
                let i = *r.pick(&cands);
                let an = attrs[i].0.clone();
                if kind == 4 {
                    attrs.remove(i);
                    Some(format!("delete @{an} of <{tag}> in {pname}"))
                } else {
                    let g = r.pick(GARBAGE).to_string();
                    attrs[i].1 = g.clone();
                    Some(format!("set @{an}={g:?} of <{tag}> in {pname}"))
                }
            } else {
                None
            }
        }
        7 => {
            if path.is_empty() {
                return None;
            }
            if let X::E { name, .. } = get_mut(&mut p[part].1, &path)? {
                *name = "zzz".into();
            }
            Some(format!("rename <{tag}> in {pname}"))
        }
        8 => {
            if let X::E { kids, .. } = get_mut(&mut p[part].1, &path)? {
                let i = r.below(kids.len() as u64 + 1) as usize;
                kids.insert(i, X::T(r.pick(&[" ", "\n  ", "junk", "1"]).to_string()));
            }
            Some(format!("insert text into <{tag}> in {pname}"))
        }
        9 => {
            let i = r.below(p.len() as u64) as usize;
            let n = p.remove(i).0;
            Some(format!("drop part {n}"))
        }
        10 => {
            if let X::E { kids, .. } = get_mut(&mut p[part].1, &path)? {
                if kids.is_empty() {
                    return None;
                }
                let i = r.below(kids.len() as u64) as usize;
                kids[i] = X::T("x".into());
            }
            Some(format!("replace a child of <{tag}> by text in {pname}"))
        }
        _ => None,
    }
}

/// hand-written witnesses: one per structural site of the importer (DESIGN.md section 8, F25*)
fn witnesses(base: &Package) -> Vec<(String, Package)> {
    let mut out: Vec<(String, Package)> = vec![];
    let find = |p: &Package, part: &str, tag: &str| -> Option<(usize, Vec<usize>)> {
        let i = p.iter().position(|(n, _)| n == part)?;
        let mut paths = vec![];
        element_paths(&p[i].1, &mut vec![], &mut paths);
        paths.into_iter().find(|q| matches!(get(&p[i].1, q), Some(X::E { name, .. }) if name == tag)).map(|q| (i, q))
    };
    // delete a required container
    for (part, tag) in [
        ("xl/worksheets/sheet1.xml", "sheetData"),
        ("xl/styles.xml", "fonts"),
        ("xl/styles.xml", "fills"),
        ("xl/styles.xml", "borders"),
        ("xl/styles.xml", "cellStyleXfs"),
        ("xl/styles.xml", "cellStyles"),
        ("xl/styles.xml", "cellXfs"),
        ("xl/styles.xml", "dxfs"),
        ("xl/workbook.xml", "sheets"),
        ("xl/workbook.xml", "definedNames"),
    ] {
        let mut p = base.clone();
        if let Some((i, q)) = find(&p, part, tag) {
            remove_at(&mut p, i, &q);
            out.push((format!("no <{tag}> in {part}"), p));
        }
    }
    // set an attribute somewhere
    let set = |p: &mut Package, part: &str, tag: &str, attr: &str, val: &str| -> bool {
        if let Some((i, q)) = find(p, part, tag) {
            if let Some(X::E { attrs, .. }) = get_mut(&mut p[i].1, &q) {
                match attrs.iter_mut().find(|(k, _)| k == attr) {
                    Some(a) => a.1 = val.into(),
                    None => attrs.push((attr.into(), val.into())),
                }
                return true;
            }
        }
        false
    };
    for (what, part, tag, attr, val) in [
        ("localSheetId out of range", "xl/workbook.xml", "definedName", "localSheetId", "7"),
        ("sheet r:id without relationship", "xl/workbook.xml", "sheet", "r:id", "rId99"),
        ("worksheet target outside /worksheets/", "xl/_rels/workbook.xml.rels", "Relationship", "Target", "sheet1.xml"),
        ("worksheet relationship of another type", "xl/_rels/workbook.xml.rels", "Relationship", "Type", "x/chartsheet"),
        ("rgb with a multi-byte character at byte 2", "xl/styles.xml", "color", "rgb", "aé45678"),
        ("tabColor rgb multi-byte", "xl/worksheets/sheet1.xml", "tabColor", "rgb", "aé45678"),
        ("cf priority u32::MAX", "xl/worksheets/sheet1.xml", "cfRule", "priority", "4294967295"),
        ("unknown sheet state", "xl/workbook.xml", "sheet", "state", "secret"),
        ("sheet name with !", "xl/workbook.xml", "sheet", "name", "a!b"),
    ] {
        let mut p = base.clone();
        if set(&mut p, part, tag, attr, val) {
            out.push((what.to_string(), p));
        }
    }
    // no sheets but a defined name
    {
        let mut p = base.clone();
        if let Some((i, q)) = find(&p, "xl/workbook.xml", "sheets") {
            if let Some(X::E { kids, .. }) = get_mut(&mut p[i].1, &q) {
                kids.clear();
            }
            if let Some((i2, q2)) = find(&p, "xl/workbook.xml", "definedNames") {
                if let Some(X::E { kids, .. }) = get_mut(&mut p[i2].1, &q2) {
                    kids.clear();
                    kids.push(e("definedName", &[("name", "n")], vec![X::T("1".into())]));
                }
            }
            out.push(("defined name but no sheets".into(), p));
        }
    }
    // sheet rels with comments / table relationships
    for (what, ty, target, extra) in [
        ("comments relationship with a one-byte target", "x/comments", "c", None),
        ("comments relationship with a multi-byte target", "x/comments", "éa.xml", None),
        ("table relationship with a one-byte target", "x/table", "t", None),
        ("comments part with an empty <t/>", "x/comments", "../comments1.xml", Some("xl/comments1.xml")),
        ("comments part missing", "x/comments", "../comments1.xml", None),
        ("table part missing", "x/table", "../tables/table1.xml", None),
        ("hyperlink relationship", "x/hyperlink", "https://e.x/", None),
    ] {
        let mut p = base.clone();
        p.retain(|(n, _)| n != "xl/worksheets/_rels/sheet1.xml.rels");
        p.push((
            "xl/worksheets/_rels/sheet1.xml.rels".into(),
            e(
                "Relationships",
                &[("xmlns", "http://schemas.openxmlformats.org/package/2006/relationships")],
                vec![e("Relationship", &[("Id", "rId1"), ("Type", ty), ("Target", target)], vec![])],
            ),
        ));
        if let Some(path) = extra {
            p.push((
                path.into(),
                e(
                    "comments",
                    &[],
                    vec![e("commentList", &[], vec![e("comment", &[("ref", "A1")], vec![e("text", &[], vec![e("t", &[], vec![])])])])],
                ),
            ));
        }
        out.push((what.to_string(), p));
    }
    // a minimal theme part whose colour cannot be sliced at byte 2
    {
        let mut p = base.clone();
        p.push((
            "xl/theme/theme1.xml".into(),
            e(
                "a:theme",
                &[("xmlns:a", "http://schemas.openxmlformats.org/drawingml/2006/main"), ("name", "T")],
                vec![e("a:themeElements", &[], vec![e("a:clrScheme", &[("name", "T")], vec![e("a:dk1", &[], vec![e("a:srgbClr", &[("val", "aé45678")], vec![])])])])],
            ),
        ));
        out.push(("theme colour with a multi-byte character at byte 2".into(), p));
    }
    // an array formula spanning the whole sheet on a cell that is its anchor
    {
        let mut p = base.clone();
        if let Some((i, q)) = find(&p, "xl/worksheets/sheet1.xml", "sheetData") {
            if let Some(X::E { kids, .. }) = get_mut(&mut p[i].1, &q) {
                kids.insert(
                    0,
                    e("row", &[("r", "1")], vec![e(
                        "c",
                        &[("r", "A1")],
                        vec![e("f", &[("t", "array"), ("ref", "A1:XFD1048576")], vec![X::T("1".into())]), e("v", &[], vec![X::T("1".into())])],
                    )]),
                );
            }
            out.push(("array formula ref A1:XFD1048576".into(), p));
        }
    }
    out
}

fn gen_tree(ctx: &Ctx, sink: &mut dyn FnMut(String)) {
    let mut r = Rng::new(ctx.seed ^ 0xC25);
    // a base package that has a defined name with a scope, a tab colour, a conditional format and an array formula
    let rich = package_of(&{
        let m = super::bookgen::gen_rich_model();
        save_xlsx_to_writer(&m, Cursor::new(Vec::new())).map(|c| c.into_inner()).unwrap_or_default()
    });
    sink(format!("c25 tree {}", package_tokens(&rich)));
    for (_what, p) in witnesses(&rich) {
        sink(format!("c25 tree {}", package_tokens(&p)));
    }
    // systematic: every distinct (part, tag) × element mutation kinds, every distinct (part, tag, attr) × attribute kinds
    let mut seen_tag = std::collections::BTreeSet::new();
    let mut seen_attr = std::collections::BTreeSet::new();
    for (part, path) in all_elements(&rich) {
        if let Some(X::E { name, attrs, .. }) = get(&rich[part].1, &path) {
            if seen_tag.insert((part, name.clone())) {
                for kind in [0u64, 1, 2, 3, 7, 8, 10] {
                    let mut p = rich.clone();
                    if mutate(&mut p, &mut r, kind, Some((part, path.clone()))).is_some() {
                        sink(format!("c25 tree {}", package_tokens(&p)));
                    }
                }
            }
            for (ai, (an, _)) in attrs.iter().enumerate() {
                if an.starts_with("xmlns") || !seen_attr.insert((part, name.clone(), an.clone())) {
                    continue;
                }
                let mut p = rich.clone();
                if let Some(X::E { attrs, .. }) = get_mut(&mut p[part].1, &path) {
                    attrs.remove(ai);
                }
                sink(format!("c25 tree {}", package_tokens(&p)));
                for g in GARBAGE {
                    if ctx.tier == Tier::Quick && r.chance(2, 3) {
                        continue;
                    }
                    let mut p = rich.clone();
                    if let Some(X::E { attrs, .. }) = get_mut(&mut p[part].1, &path) {
                        attrs[ai].1 = g.to_string();
                    }
                    sink(format!("c25 tree {}", package_tokens(&p)));
                }
            }
        }
    }
    // random: 1–3 mutations of packages from other seeds
    let n = if ctx.tier == Tier::Thorough { 15_000 } else { 1_500 };
    let n_bases = if ctx.tier == Tier::Thorough { 150 } else { 25 };
    let bases: Vec<Package> = (0..n_bases).map(|i| export_package(ctx.seed.wrapping_mul(1000) + i, 0)).collect();
    for _ in 0..n {
        let mut p = r.pick(&bases).clone();
        let k = 1 + r.below(3);
        let mut any = false;
        for _ in 0..k {
            let kind = r.below(11);
            any |= mutate(&mut p, &mut r, kind, None).is_some();
        }
        if any {
            sink(format!("c25 tree {}", package_tokens(&p)));
        }
    }
}

fn eval_tree(req: &str) -> ImplOut {
    let f: Vec<&str> = req.split(' ').collect();
    let p = match parse_package(&f[2..]) {
        Some(p) => p,
        None => return ImplOut::new("bad-request".into()),
    };
    let mut out = class_out(import_class(package_zip(&p)), "package in the request line");
    // what was touched, for the histogram
    for (n, _) in &p {
        if n.ends_with(".rels") && n.contains("worksheets") {
            out = out.tag("has-sheet-rels");
        }
    }
    out
}

// ---------------------------------------------------------------------------------------------
// zip / byte level (oracle only)
// ---------------------------------------------------------------------------------------------

fn gen_raw(ctx: &Ctx, sink: &mut dyn FnMut(String)) {
    let mut r = Rng::new(ctx.seed ^ 0x25AA);
    let n = if ctx.tier == Tier::Thorough { 20_000 } else { 1_200 };
    for kind in ["empty", "notzip", "intact"] {
        sink(format!("c25 raw 1 {kind} 0 0"));
    }
    for i in 0..n {
        let seed = 1 + r.below(if ctx.tier == Tier::Thorough { 500 } else { 30 });
        let kind = *r.pick(&["truncate", "flip", "flip", "droppart", "duppart", "renamepart", "xmljunk", "xmljunk", "xmlcut", "emptypart", "swapparts"]);
        sink(format!("c25 raw {seed} {kind} {} {}", r.next() % 1_000_003, i));
    }
}

fn eval_raw(req: &str) -> ImplOut {
    let f: Vec<&str> = req.split(' ').collect();
    if f.len() < 6 {
        return ImplOut::new("bad-request".into());
    }
    let seed: u64 = f[2].parse().unwrap_or(1);
    let kind = f[3];
    let a: u64 = f[4].parse().unwrap_or(0);
    let mut r = Rng::new(a ^ f[5].parse::<u64>().unwrap_or(0).wrapping_mul(0x9E37));
    let mut bytes = export_bytes(seed, 1);
    match kind {
        "empty" => bytes.clear(),
        "notzip" => bytes = b"PK\x03\x04 this is not a zip archive".to_vec(),
        "intact" => {}
        "truncate" => {
            let n = (a as usize) % (bytes.len() + 1);
            bytes.truncate(n);
        }
        "flip" => {
            for _ in 0..1 + r.below(4) {
                let i = r.below(bytes.len() as u64) as usize;
                bytes[i] ^= 1 << r.below(8);
            }
        }
        _ => {
            let mut parts = unzip(&bytes).unwrap_or_default();
            if parts.is_empty() {
                return ImplOut::new("bad-request".into());
            }
            // prefer the parts the importer reads
            let idx: Vec<usize> = (0..parts.len()).filter(|i| parts[*i].0.starts_with("xl/") || r.chance(1, 4)).collect();
            let i = *r.pick(&idx);
            match kind {
                "droppart" => {
                    parts.remove(i);
                }
                "duppart" => {
                    let c = parts[i].clone();
                    parts.push(c);
                }
                "renamepart" => parts[i].0 = format!("{}x", parts[i].0),
                "emptypart" => parts[i].1.clear(),
                "swapparts" => {
                    let j = *r.pick(&idx);
                    let t = parts[i].1.clone();
                    parts[i].1 = parts[j].1.clone();
                    parts[j].1 = t;
                }
                "xmlcut" => {
                    let n = r.below(parts[i].1.len() as u64 + 1) as usize;
                    parts[i].1.truncate(n);
                }
                _ => {
                    // junk inside the XML text: delete / insert / overwrite a few bytes
                    for _ in 0..1 + r.below(3) {
                        let b = &mut parts[i].1;
                        if b.is_empty() {
                            break;
                        }
                        let pos = r.below(b.len() as u64) as usize;
                        match r.below(3) {
                            0 => {
                                b.remove(pos);
                            }
                            1 => b.insert(pos, *r.pick(b"<>\"'&/= 09azAZ\x00\xff")),
                            _ => b[pos] = *r.pick(b"<>\"'&/= 09azAZ\x00\xff"),
                        }
                    }
                }
            }
            bytes = zip_up(&parts);
        }
    }
    class_out(import_class(bytes), req).tag(kind)
}

pub fn suites() -> Vec<Suite> {
    vec![
        Suite {
            name: "c25-tree",
            rule: "distinct mutated packages (request lines) imported by the real load_from_xlsx_bytes + Model::from_workbook",
            modelled: true,
            gen: gen_tree,
            eval: eval_tree,
            exhaustive: never,
        },
        Suite {
            name: "c25-raw",
            rule: "distinct zip-level / byte-level mutants imported by the real load_from_xlsx_bytes + Model::from_workbook",
            modelled: false,
            gen: gen_raw,
            eval: eval_raw,
            exhaustive: never,
        },
    ]
}
