//! C23 — function and error names round-trip in every language.
//!
//! Table extraction (`extract`): `Generated/Names.lean` is regenerated from the running code on every
//! check — per language the localized name of every `Function::into_iter()` entry, Rust's
//! `to_uppercase` of it and what the real `Functions::lookup` returns for it; the xlsx names and what
//! the real `Parser` (English, the import path) resolves `NAME(` to; the error spellings per language,
//! `Display for Error`, and the real readers on them (`get_error_by_name`, `get_error_by_english_name`,
//! the lexer's `consume_error`).  `Props/C23.lean` re-checks its obligations on that table.
//!
//! Suites (all answers are compared with the Lean model evaluated on the same generated table):
//!  * `c23-fn`    exhaustive: every (language, function): name, `lookup`, `NAME()`/`NAME(1)` through the
//!                real `Parser` and back through `to_localized_string`; every function: xlsx name, real
//!                import resolution, `to_excel_string`.
//!  * `c23-keys`  `lookup` / import resolution on other keys (case variants, truncations, extensions,
//!                `_xlfn.` / `_xlws.` / `_xlpm.` prefix soup, names of other languages, random identifiers).
//!  * `c23-err`   exhaustive: every (language, error): spelling, `get_error_by_name`, lexer, parser +
//!                printer, a real `Model` cell; `Display` + `get_error_by_english_name`; plus
//!                mutated spellings through the readers and the lexer with arbitrary continuations.
use crate::prng::Rng;
use crate::proto::{hex, unhex};
use crate::run::{always, never, Ctx, ImplOut, Suite, Tier};
use crate::suites::write_if_changed;
use ironcalc_base::expressions::lexer::{Lexer, LexerMode};
use ironcalc_base::expressions::parser::stringify::{to_excel_string, to_localized_string};
use ironcalc_base::expressions::parser::{Node, Parser};
use ironcalc_base::expressions::token::{get_error_by_english_name, get_error_by_name, Error, TokenType};
use ironcalc_base::expressions::types::CellReferenceRC;
use ironcalc_base::language::{get_language, Language};
use ironcalc_base::locale::{get_locale, Locale};
use ironcalc_base::verif::{supported_languages, Function};
use ironcalc_base::Model;
use std::collections::HashMap;
use std::path::Path;

// ───────────────────────────── enumeration of the finite domains ─────────────────────────────

pub const ALL_ERRORS: [Error; 12] = [
    Error::REF,
    Error::NAME,
    Error::VALUE,
    Error::DIV,
    Error::NA,
    Error::NUM,
    Error::ERROR,
    Error::NIMPL,
    Error::SPILL,
    Error::CALC,
    Error::CIRC,
    Error::NULL,
];

/// index of an error kind in `ALL_ERRORS` (= declaration order of `enum Error`). No wildcard arm: a new
/// variant breaks the harness build instead of silently escaping the enumeration.
pub fn err_index(e: &Error) -> usize {
    match e {
        Error::REF => 0,
        Error::NAME => 1,
        Error::VALUE => 2,
        Error::DIV => 3,
        Error::NA => 4,
        Error::NUM => 5,
        Error::ERROR => 6,
        Error::NIMPL => 7,
        Error::SPILL => 8,
        Error::CALC => 9,
        Error::CIRC => 10,
        Error::NULL => 11,
    }
}

struct World {
    langs: Vec<String>,
    functions: Vec<Function>,
    fn_index: HashMap<String, usize>,
}

impl World {
    fn new() -> World {
        let functions: Vec<Function> = Function::into_iter().collect();
        let mut fn_index = HashMap::new();
        for (i, f) in functions.iter().enumerate() {
            fn_index.insert(format!("{f:?}"), i);
        }
        World { langs: supported_languages(), functions, fn_index }
    }
    fn idx(&self, f: &Function) -> usize {
        self.fn_index[&format!("{f:?}")]
    }
    fn lang(&self, l: usize) -> &'static Language {
        get_language(&self.langs[l]).expect("language")
    }
    fn en(&self) -> usize {
        self.langs.iter().position(|x| x == "en").expect("en")
    }
}

thread_local! {
    static WORLD: World = World::new();
}

fn en_locale() -> &'static Locale {
    get_locale("en").expect("locale en")
}

fn ctx_cell() -> CellReferenceRC {
    CellReferenceRC { sheet: "Sheet1".to_string(), row: 1, column: 1 }
}

fn parser_for(language: &'static Language) -> Parser<'static> {
    Parser::new(vec!["Sheet1".to_string()], vec![], HashMap::new(), en_locale(), language)
}

/// What `NAME(` resolves to in the real parser (the import path when the language is English).
/// `f<i>` FunctionKind i | `named` NamedFunctionKind | `lambda` LambdaDefKind | `single` | `anchor` |
/// `perr` parse error | `other:<kind>`
fn resolve_call(language: &'static Language, name: &str, args: &str) -> String {
    WORLD.with(|w| {
        let mut p = parser_for(language);
        let node = p.parse(&format!("{name}({args})"), &ctx_cell());
        match node {
            Node::FunctionKind { kind, .. } => format!("f{}", w.idx(&kind)),
            Node::NamedFunctionKind { .. } => "named".to_string(),
            Node::LambdaDefKind { .. } => "lambda".to_string(),
            Node::ImplicitIntersection { .. } => "single".to_string(),
            Node::SpillRangeOperator { .. } => "anchor".to_string(),
            Node::ParseErrorKind { .. } => "perr".to_string(),
            _ => "other".to_string(),
        }
    })
}

fn opt_idx(x: Option<usize>) -> String {
    match x {
        Some(i) => format!("{i}"),
        None => "none".to_string(),
    }
}

/// the lexer's first token on `text` (which starts with `#`): error index + chars consumed
fn lex_error(language: &'static Language, text: &str) -> (Option<usize>, usize) {
    let mut lx = Lexer::new(text, LexerMode::A1, en_locale(), language);
    match lx.next_token() {
        TokenType::Error(e) => (Some(err_index(&e)), lx.get_position() as usize),
        _ => (None, lx.get_position() as usize),
    }
}

// ───────────────────────────── table extraction ─────────────────────────────

/// UTF-8 bytes, big-endian base 256 below a leading 1 (injective on byte strings)
fn code(s: &str) -> String {
    let mut out = String::from("0x01");
    for b in s.as_bytes() {
        out.push_str(&format!("{b:02x}"));
    }
    out
}

fn cps(s: &str) -> String {
    let v: Vec<String> = s.chars().map(|c| format!("{}", c as u32)).collect();
    format!("[{}]", v.join(","))
}

fn nat_list(v: &[String]) -> String {
    // long lists are broken into lines of 8 entries to keep the file diff-able
    let mut out = String::from("[");
    for (i, x) in v.iter().enumerate() {
        if i > 0 {
            out.push(',');
        }
        if i % 8 == 0 {
            out.push_str("\n  ");
        }
        out.push_str(x);
    }
    out.push_str("]");
    out
}

fn opt_code(x: Option<usize>) -> String {
    match x {
        Some(i) => format!("{}", i + 1),
        None => "0".to_string(),
    }
}

fn resolve_code(r: &str) -> String {
    // 0 perr/other, 1 named, 2 lambda, 3 single, 4 anchor, 10+i function i
    match r {
        "named" => "1".into(),
        "lambda" => "2".into(),
        "single" => "3".into(),
        "anchor" => "4".into(),
        _ if r.starts_with('f') => format!("{}", 10 + r[1..].parse::<usize>().unwrap()),
        _ => "0".into(),
    }
}

fn comment_safe(s: &str) -> String {
    s.chars().map(|c| if c == '-' || c == '/' || c.is_control() { '?' } else { c }).collect()
}

/// a balanced search tree over the names of one language, keyed by the numeric value of the code:
/// `.node pivot l r` sends keys `< pivot` left; a leaf holds a function index. It is the certificate
/// (a left inverse of `index ↦ name`) from which `Props/C23.lean` derives that the names are distinct.
fn tree(sorted: &[(Vec<u8>, usize)]) -> String {
    if sorted.len() == 1 {
        return format!(".leaf {}", sorted[0].1);
    }
    let mid = sorted.len() / 2;
    format!(
        ".node (nat_lit {}) ({}) ({})",
        code_bytes(&sorted[mid].0),
        tree(&sorted[..mid]),
        tree(&sorted[mid..])
    )
}

fn code_bytes(b: &[u8]) -> String {
    let mut out = String::from("0x01");
    for x in b {
        out.push_str(&format!("{x:02x}"));
    }
    out
}

pub fn extract(dir: &Path) {
    WORLD.with(|w| {
        let mut o = String::new();
        o.push_str("import IronCalc.Basic.NameTree\n/-\n  GENERATED on every check by `verif_harness extract` from the running IronCalc code.\n  Do not edit. See harness/src/suites/c23.rs::extract and IronCalc/Text/Names.lean.\n-/\n");
        o.push_str("namespace IronCalc.Generated.Names\nopen IronCalc\n\n");
        o.push_str(&format!("def nFunctions : Nat := {}\n", w.functions.len()));
        o.push_str(&format!("def nLanguages : Nat := {}\n", w.langs.len()));
        o.push_str(&format!("def enIdx : Nat := {}\n", w.en()));
        o.push_str(&format!(
            "def langIds : List String := [{}]\n\n",
            w.langs.iter().map(|l| format!("\"{}\"", l.replace(['"', '\\'], "?"))).collect::<Vec<_>>().join(", ")
        ));
        o.push_str(&format!(
            "/-- positions of `Function::True`, `Function::False`, `Function::Lambda` in `Function::into_iter()` -/\ndef trueIdx : Nat := {}\ndef falseIdx : Nat := {}\ndef lambdaIdx : Nat := {}\n\n",
            w.idx(&Function::True), w.idx(&Function::False), w.idx(&Function::Lambda)
        ));
        // function names
        let mut names_l = vec![];
        let mut trees_l = vec![];
        for l in 0..w.langs.len() {
            let lang = w.lang(l);
            let mut names = vec![];
            let mut sorted: Vec<(Vec<u8>, usize)> = vec![];
            for (i, f) in w.functions.iter().enumerate() {
                let n = f.to_localized_name(lang);
                names.push(format!("nat_lit {}", code(&n)));
                sorted.push((n.as_bytes().to_vec(), i));
            }
            // numeric order of the codes = (length, bytes) lexicographic
            sorted.sort_by(|a, b| (a.0.len(), &a.0, a.1).cmp(&(b.0.len(), &b.0, b.1)));
            o.push_str(&format!("/-- `to_localized_name` in `{}` (UTF-8 code, `Function::into_iter()` order) -/\n", comment_safe(&w.langs[l])));
            o.push_str(&format!("def fnCodes{l} : List Nat := {}\n", nat_list(&names)));
            o.push_str(&format!("def fnTree{l} : NameTree := {}\n\n", tree(&sorted)));
            names_l.push(format!("fnCodes{l}"));
            trees_l.push(format!("fnTree{l}"));
        }
        o.push_str(&format!("def fnCodes : List (List Nat) := [{}]\n", names_l.join(", ")));
        o.push_str(&format!("/-- search-tree certificates (name ↦ index) -/\ndef fnTrees : List NameTree := [{}]\n\n", trees_l.join(", ")));
        // xlsx names
        let xl: Vec<String> = w.functions.iter().map(|f| format!("nat_lit {}", code(&f.to_xlsx_string()))).collect();
        o.push_str(&format!("/-- `to_xlsx_string` (UTF-8 code) -/\ndef xlsxNames : List Nat := {}\n\n", nat_list(&xl)));
        // booleans (the lexer turns `TRUE(`/`FALSE(` into boolean tokens before any lookup)
        let mut bt = vec![];
        let mut bf = vec![];
        for l in 0..w.langs.len() {
            bt.push(code(&w.lang(l).booleans.r#true));
            bf.push(code(&w.lang(l).booleans.r#false));
        }
        o.push_str(&format!("def boolTrue : List Nat := [{}]\ndef boolFalse : List Nat := [{}]\n\n", bt.join(", "), bf.join(", ")));
        // errors
        let mut en_l = vec![];
        let mut by_name_l = vec![];
        let mut lex_l = vec![];
        for l in 0..w.langs.len() {
            let lang = w.lang(l);
            let mut sp = vec![];
            let mut by = vec![];
            let mut lx = vec![];
            for e in ALL_ERRORS.iter() {
                let s = e.to_localized_error_string(lang);
                sp.push(cps(&s));
                by.push(opt_code(get_error_by_name(&s, lang).map(|x| err_index(&x))));
                lx.push(opt_code(lex_error(lang, &s).0));
            }
            en_l.push(format!("[{}]", sp.join(", ")));
            by_name_l.push(format!("[{}]", by.join(",")));
            lex_l.push(format!("[{}]", lx.join(",")));
        }
        o.push_str(&format!("/-- `to_localized_error_string` per language, `enum Error` order (code points) -/\ndef errNames : List (List (List Nat)) := [\n  {}]\n", en_l.join(",\n  ")));
        o.push_str(&format!("/-- real `get_error_by_name` on each spelling (0 = None, i+1 = error i) -/\ndef errByName : List (List Nat) := [{}]\n", by_name_l.join(", ")));
        o.push_str(&format!("/-- real lexer (`consume_error`) on each spelling -/\ndef errLex : List (List Nat) := [{}]\n", lex_l.join(", ")));
        let disp: Vec<String> = ALL_ERRORS.iter().map(|e| cps(&format!("{e}"))).collect();
        let by_en: Vec<String> = ALL_ERRORS
            .iter()
            .map(|e| opt_code(get_error_by_english_name(&format!("{e}")).map(|x| err_index(&x))))
            .collect();
        o.push_str(&format!("/-- `Display for Error` (the form written to xlsx files and stored internally) -/\ndef errDisplay : List (List Nat) := [{}]\n", disp.join(", ")));
        o.push_str(&format!("/-- real `get_error_by_english_name` on each `Display` form -/\ndef errByEnglish : List Nat := [{}]\n\n", by_en.join(",")));
        o.push_str("end IronCalc.Generated.Names\n");
        write_if_changed(&dir.join("Names.lean"), &o);
    });
}

// ───────────────────────────── helpers shared by the suites ─────────────────────────────

fn ascii_upper(s: &str) -> String {
    s.chars().map(|c| c.to_ascii_uppercase()).collect()
}

/// Rust's Unicode upper-casing coincides with folding the ASCII letters only
fn ascii_cased(s: &str) -> bool {
    s.to_uppercase() == ascii_upper(s)
}

/// an identifier as `Lexer::consume_identifier` reads it, restricted to what the model covers
fn is_ident(s: &str) -> bool {
    let mut it = s.chars();
    match it.next() {
        Some(c) if c.is_alphabetic() || c == '_' => {}
        _ => return false,
    }
    s.chars().all(|c| c.is_alphanumeric() || c == '_' || c == '.')
}

fn args_text(nargs: usize) -> &'static str {
    match nargs {
        0 => "",
        1 => "1",
        _ => "1,2",
    }
}

fn res(language: &'static Language, name: &str, nargs: usize) -> String {
    resolve_code(&resolve_call(language, name, args_text(nargs)))
}

fn expected_res(w: &World, i: usize, nargs: usize) -> String {
    if i == w.idx(&Function::Lambda) {
        if nargs == 1 { "2".into() } else { "0".into() }
    } else {
        format!("{}", 10 + i)
    }
}

// ───────────────────────────── suite c23-fn (exhaustive) ─────────────────────────────

fn gen_fn(_ctx: &Ctx, sink: &mut dyn FnMut(String)) {
    WORLD.with(|w| {
        for l in 0..w.langs.len() {
            for i in 0..w.functions.len() {
                sink(format!("c23 fn {l} {i}"));
            }
        }
        for i in 0..w.functions.len() {
            sink(format!("c23 xlsx {i}"));
        }
        // out-of-range indices: the model answers `none`
        sink(format!("c23 fn {} 0", w.langs.len()));
        sink(format!("c23 fn 0 {}", w.functions.len()));
        sink(format!("c23 xlsx {}", w.functions.len()));
    })
}

fn eval_fn(req: &str) -> ImplOut {
    let f: Vec<&str> = req.split(' ').collect();
    WORLD.with(|w| match f[1] {
        "fn" => {
            let l: usize = f[2].parse().unwrap();
            let i: usize = f[3].parse().unwrap();
            if l >= w.langs.len() || i >= w.functions.len() {
                return ImplOut::new("none".into()).trivial();
            }
            let lang = w.lang(l);
            let func = &w.functions[i];
            let name = func.to_localized_name(lang);
            let lk = lang.functions.lookup(&name).map(|g| w.idx(&g));
            let r0 = res(lang, &name, 0);
            let r1 = res(lang, &name, 1);
            let mut out = ImplOut::new(format!("{} {} {} {} {}", hex(&name), hex(&name.to_uppercase()), opt_idx(lk), r0, r1))
                .tag(&format!("fn:lang:{}", w.langs[l]));
            // ---- the property on the implementation
            if lk != Some(i) {
                out = out.fail("c23:fn:lookup", &format!("[{}] lookup({name:?}) = {lk:?}, want function #{i} {func:?}", w.langs[l]));
            }
            for (j, g) in w.functions.iter().enumerate() {
                if j != i && g.to_localized_name(lang).to_uppercase() == name.to_uppercase() {
                    out = out.fail("c23:fn:duplicate-name", &format!("[{}] {func:?} and {g:?} are both called {name:?}", w.langs[l]));
                    break;
                }
            }
            for nargs in [0usize, 1] {
                let got = if nargs == 0 { &r0 } else { &r1 };
                if *got != expected_res(w, i, nargs) {
                    out = out.fail("c23:fn:parse", &format!("[{}] {name}({}) parses to kind {got}, want {} ({func:?})", w.langs[l], args_text(nargs), expected_res(w, i, nargs)));
                }
            }
            // print back in the same language, and translate into every other language and back
            let text = format!("{name}(1)");
            let node = parser_for(lang).parse(&text, &ctx_cell());
            let back = to_localized_string(&node, &ctx_cell(), en_locale(), lang);
            if back != text {
                out = out.fail("c23:fn:print", &format!("[{}] {text} prints back as {back}", w.langs[l]));
            }
            for l2 in 0..w.langs.len() {
                let lang2 = w.lang(l2);
                let t2 = to_localized_string(&node, &ctx_cell(), en_locale(), lang2);
                let node2 = parser_for(lang2).parse(&t2, &ctx_cell());
                if node2 != node {
                    out = out.fail("c23:fn:translate", &format!("{text} [{}] -> {t2} [{}] parses to a different node", w.langs[l], w.langs[l2]));
                }
            }
            out
        }
        "xlsx" => {
            let i: usize = f[2].parse().unwrap();
            if i >= w.functions.len() {
                return ImplOut::new("none".into()).trivial();
            }
            let en = w.lang(w.en());
            let func = &w.functions[i];
            let x = func.to_xlsx_string();
            let r0 = res(en, &x, 0);
            let r1 = res(en, &x, 1);
            let mut out = ImplOut::new(format!("{} {} {}", hex(&x), r0, r1))
                .tag(if x.starts_with("_xlfn._xlws.") { "xlsx:_xlfn._xlws." } else if x.starts_with("_xlfn.") { "xlsx:_xlfn." } else { "xlsx:plain" });
            for nargs in [0usize, 1] {
                let got = if nargs == 0 { &r0 } else { &r1 };
                if *got != expected_res(w, i, nargs) {
                    out = out.fail("c23:xlsx:parse", &format!("{x}({}) imports as kind {got}, want {} ({func:?})", args_text(nargs), expected_res(w, i, nargs)));
                }
            }
            // export form of the formula typed in English, then import of that text
            let typed = format!("{}(1)", func.to_localized_name(en));
            let node = parser_for(en).parse(&typed, &ctx_cell());
            let exported = to_excel_string(&node, &ctx_cell());
            if exported != format!("{x}(1)") {
                out = out.fail("c23:xlsx:print", &format!("{typed} is exported as {exported}, want {x}(1)"));
            }
            let node2 = parser_for(en).parse(&exported, &ctx_cell());
            if node2 != node {
                out = out.fail("c23:xlsx:reimport", &format!("{typed} exported as {exported} imports as a different node"));
            }
            out
        }
        _ => ImplOut::new("bad-request".into()),
    })
}

// ───────────────────────────── suite c23-keys ─────────────────────────────

fn mutate_case(rng: &mut Rng, s: &str) -> String {
    s.chars()
        .map(|c| if c.is_ascii() && rng.chance(1, 2) { c.to_ascii_lowercase() } else { c })
        .collect()
}

fn random_ident(rng: &mut Rng) -> String {
    const FIRST: &[u8] = b"ABCDEFGHIJKLMNOPQRSTUVWXYZabcdefghijklmnopqrstuvwxyz_";
    const REST: &[u8] = b"ABCDEFGHIJKLMNOPQRSTUVWXYZabcdefghijklmnopqrstuvwxyz_.0123456789";
    let n = 1 + rng.below(8) as usize;
    let mut s = String::new();
    s.push(*rng.pick(FIRST) as char);
    for _ in 1..n {
        s.push(*rng.pick(REST) as char);
    }
    s
}

fn gen_keys(ctx: &Ctx, sink: &mut dyn FnMut(String)) {
    WORLD.with(|w| {
        let mut rng = Rng::new(ctx.seed ^ 0xC23);
        let nl = w.langs.len();
        let prefixes = [
            "_xlfn.", "_xlfn._xlws.", "_xlpm.", "_xlws.", "_xlfn._xlfn.", "_xlfn._xlws._xlfn._xlws.", "_XLFN.",
            "_xlfn._xlpm.", "_xlpm._xlfn.", "_xlfn._xlws._xlfn.", "_xlfn", "_xlfn._xlws", "x_xlfn.",
        ];
        let mut emit_key = |sink: &mut dyn FnMut(String), l: usize, key: &str| {
            if key.is_empty() {
                return;
            }
            if ascii_cased(key) {
                sink(format!("c23 key {l} {}", hex(key)));
            }
            sink(format!("c23 keyu {l} {} {}", hex(key), hex(&key.to_uppercase())));
        };
        let emit_call = |sink: &mut dyn FnMut(String), l: usize, nargs: usize, key: &str| {
            if is_ident(key) && ascii_cased(key) {
                sink(format!("c23 call {l} {nargs} {}", hex(key)));
            }
        };
        // fixed specials, in every language
        let specials = [
            "LAMBDA", "lambda", "_xlfn.LAMBDA", "_xlfn.lambda", "_xlfn._xlws.LAMBDA", "_xlfn.SINGLE", "SINGLE",
            "_xlfn.single", "_xlfn.ANCHORARRAY", "ANCHORARRAY", "_xlfn._xlfn.SINGLE", "TRUE", "FALSE", "true",
            "_xlfn.TRUE", "_xlfn.FALSE", "_xlfn.", "_xlfn._xlws.", "_", "_xlfn.SUM", "_xlfn._xlws.SUM",
            "_xlfn._xlws.FILTER", "_xlws.FILTER", "_xlfn.FILTER", "_xlpm.SUM", "_xlfn._xlpm.SUM", "LOG10", "A1", "R1C1",
        ];
        for l in 0..nl {
            for s in specials {
                emit_key(sink, l, s);
                for nargs in 0..3 {
                    emit_call(sink, l, nargs, s);
                }
            }
            for l2 in 0..nl {
                for b in [&w.lang(l2).booleans.r#true, &w.lang(l2).booleans.r#false] {
                    emit_key(sink, l, b);
                    for nargs in 0..2 {
                        emit_call(sink, l, nargs, b);
                        emit_call(sink, l, nargs, &b.to_ascii_lowercase());
                        emit_call(sink, l, nargs, &format!("_xlfn.{b}"));
                    }
                }
            }
        }
        let per_fn = if ctx.tier == Tier::Thorough { 40 } else { 6 };
        for l in 0..nl {
            let lang = w.lang(l);
            for func in &w.functions {
                let name = func.to_localized_name(lang);
                for _ in 0..per_fn {
                    let l_use = if rng.chance(3, 4) { l } else { rng.below(nl as u64) as usize };
                    let base = if rng.chance(1, 5) { func.to_xlsx_string() } else { name.clone() };
                    let mut key = match rng.below(9) {
                        0 => base.to_ascii_lowercase(),
                        1 => mutate_case(&mut rng, &base),
                        2 => {
                            // drop one char
                            let cs: Vec<char> = base.chars().collect();
                            let k = rng.below(cs.len() as u64) as usize;
                            cs.iter().enumerate().filter(|(j, _)| *j != k).map(|(_, c)| *c).collect()
                        }
                        3 => format!("{base}{}", rng.pick(&['S', '.', '_', '1', 'A', 'x'])),
                        4 => base.to_lowercase(),
                        5 => {
                            // characters whose Unicode upper case is an ASCII letter or a longer string
                            base.chars()
                                .map(|c| match c {
                                    'I' if rng.chance(1, 2) => 'ı',
                                    'S' if rng.chance(1, 2) => 'ſ',
                                    'K' if rng.chance(1, 3) => 'K', // Kelvin sign: lower-cases, does not upper-case, to k/K
                                    _ => c,
                                })
                                .collect()
                        }
                        6 => base.replace("SS", "ß"),
                        _ => base.clone(),
                    };
                    if rng.chance(2, 5) {
                        key = format!("{}{key}", rng.pick(&prefixes));
                    }
                    emit_key(sink, l_use, &key);
                    emit_call(sink, l_use, rng.below(3) as usize, &key);
                }
            }
        }
        let n_random = if ctx.tier == Tier::Thorough { 200_000 } else { 5_000 };
        for _ in 0..n_random {
            let l = rng.below(nl as u64) as usize;
            let mut key = random_ident(&mut rng);
            if rng.chance(1, 4) {
                key = format!("{}{key}", rng.pick(&prefixes));
            }
            emit_key(sink, l, &key);
            emit_call(sink, l, rng.below(3) as usize, &key);
        }
    })
}

fn eval_keys(req: &str) -> ImplOut {
    let f: Vec<&str> = req.split(' ').collect();
    WORLD.with(|w| {
        let l: usize = f[2].parse().unwrap();
        let lang = w.lang(l);
        match f[1] {
            "key" | "keyu" => {
                let key = unhex(f[3]).unwrap();
                let r = lang.functions.lookup(&key).map(|g| w.idx(&g));
                let mut out = ImplOut::new(opt_idx(r)).tag(if r.is_some() { "lookup:hit" } else { "lookup:miss" });
                if r.is_none() {
                    out = out.trivial();
                }
                // property: a hit is the function that carries this name (up to case) in this language
                if let Some(i) = r {
                    if w.functions[i].to_localized_name(lang).to_uppercase() != key.to_uppercase() {
                        out = out.fail("c23:key:wrong-function", &format!("[{}] lookup({key:?}) = #{i} {:?} whose name is {:?}", w.langs[l], w.functions[i], w.functions[i].to_localized_name(lang)));
                    }
                }
                out
            }
            "call" => {
                let nargs: usize = f[3].parse().unwrap();
                let key = unhex(f[4]).unwrap();
                let r = res(lang, &key, nargs);
                let tag = match r.as_str() {
                    "0" => "call:parse-error",
                    "1" => "call:named",
                    "2" => "call:lambda",
                    "3" => "call:single",
                    "4" => "call:anchor",
                    _ => "call:function",
                };
                let mut out = ImplOut::new(r.clone()).tag(tag);
                if r == "1" {
                    out = out.trivial();
                }
                out
            }
            _ => ImplOut::new("bad-request".into()),
        }
    })
}

// ───────────────────────────── suite c23-err ─────────────────────────────

fn gen_err(ctx: &Ctx, sink: &mut dyn FnMut(String)) {
    WORLD.with(|w| {
        let mut rng = Rng::new(ctx.seed ^ 0xE23);
        let nl = w.langs.len();
        for l in 0..nl {
            for e in 0..ALL_ERRORS.len() {
                sink(format!("c23 err {l} {e}"));
            }
        }
        for e in 0..ALL_ERRORS.len() {
            sink(format!("c23 disp {e}"));
        }
        sink(format!("c23 err {nl} 0"));
        sink("c23 err 0 12".to_string());
        sink("c23 disp 12".to_string());
        // every spelling of every language (and Display) through every reader of every language
        let mut spellings: Vec<String> = vec![];
        for l in 0..nl {
            for e in ALL_ERRORS.iter() {
                spellings.push(e.to_localized_error_string(w.lang(l)));
            }
        }
        for e in ALL_ERRORS.iter() {
            spellings.push(format!("{e}"));
        }
        spellings.push("#N/IMPL".into());
        spellings.push("#".into());
        spellings.push("#N/".into());
        spellings.sort();
        spellings.dedup();
        let conts = ["", "+1", ")", ",1", "!", "?", "A", " ", "#", "!!", "0!", "/A", "/0!", "IMPL!", "L!"];
        for l in 0..nl {
            for s in &spellings {
                sink(format!("c23 byname {l} {}", hex(s)));
                for c in conts {
                    sink(format!("c23 lex {l} {}", hex(&format!("{s}{c}"))));
                }
                // truncations
                let cs: Vec<char> = s.chars().collect();
                for k in 1..cs.len() {
                    let t: String = cs[..k].iter().collect();
                    sink(format!("c23 lex {l} {}", hex(&t)));
                    sink(format!("c23 byname {l} {}", hex(&t)));
                }
                // one spelling glued to another
                let other = rng.pick(&spellings).clone();
                sink(format!("c23 lex {l} {}", hex(&format!("{s}{other}"))));
                sink(format!("c23 byname {l} {}", hex(&s.to_lowercase())));
            }
        }
        for s in &spellings {
            sink(format!("c23 english {}", hex(s)));
            sink(format!("c23 english {}", hex(&s.to_lowercase())));
            let cs: Vec<char> = s.chars().collect();
            if cs.len() > 1 {
                let t: String = cs[..cs.len() - 1].iter().collect();
                sink(format!("c23 english {}", hex(&t)));
            }
            sink(format!("c23 english {}", hex(&format!("{s}!"))));
        }
        let n_random = if ctx.tier == Tier::Thorough { 100_000 } else { 3_000 };
        const AL: &[char] = &['#', 'N', '/', 'A', 'I', 'M', 'P', 'L', '!', '?', 'R', 'E', 'F', 'D', 'V', '0', 'U', 'O', '¡', '¿', 'Ü', 'B', 'T', 'S', 'C', 'K'];
        for _ in 0..n_random {
            let l = rng.below(nl as u64) as usize;
            let n = rng.below(9) as usize;
            let mut t = String::from("#");
            for _ in 0..n {
                t.push(*rng.pick(AL));
            }
            sink(format!("c23 lex {l} {}", hex(&t)));
            sink(format!("c23 byname {l} {}", hex(&t)));
            sink(format!("c23 english {}", hex(&t)));
        }
    })
}

fn error_in_cell(m: &Model, row: i32, col: i32) -> Option<usize> {
    use ironcalc_base::types::{Cell, FormulaValue, SpillValue};
    match m.workbook.worksheets[0].cell(row, col) {
        Some(Cell::ErrorCell { ei, .. }) => Some(err_index(ei)),
        Some(Cell::CellFormula { v: FormulaValue::Error { ei, .. }, .. }) => Some(err_index(ei)),
        Some(Cell::ArrayFormula { v: FormulaValue::Error { ei, .. }, .. }) => Some(err_index(ei)),
        Some(Cell::SpillCell { v: SpillValue::Error(ei), .. }) => Some(err_index(ei)),
        _ => None,
    }
}

fn eval_err(req: &str) -> ImplOut {
    let f: Vec<&str> = req.split(' ').collect();
    WORLD.with(|w| match f[1] {
        "err" => {
            let l: usize = f[2].parse().unwrap();
            let e: usize = f[3].parse().unwrap();
            if l >= w.langs.len() || e >= ALL_ERRORS.len() {
                return ImplOut::new("none".into()).trivial();
            }
            let lang = w.lang(l);
            let lid = w.langs[l].clone();
            let err = &ALL_ERRORS[e];
            let s = err.to_localized_error_string(lang);
            let by = get_error_by_name(&s, lang).map(|x| err_index(&x));
            let (lx, pos) = lex_error(lang, &s);
            let mut out = ImplOut::new(format!("{} {} {}:{}", hex(&s), opt_idx(by), opt_idx(lx), pos)).tag(&format!("err:lang:{lid}"));
            if by != Some(e) {
                out = out.fail("c23:err:by-name", &format!("[{lid}] get_error_by_name({s:?}) = {by:?}, want #{e} {err:?}"));
            }
            let nchars = s.chars().count();
            if lx != Some(e) || pos != nchars {
                out = out.fail("c23:err:lexer", &format!("[{lid}] the lexer reads {s:?} as {lx:?} consuming {pos} chars, want #{e} {err:?} / {nchars}"));
            }
            // lexer with a continuation: the error literal inside a formula
            for (text, want) in [(format!("{s}+1"), nchars), (format!("{s})"), nchars)] {
                let (lx2, pos2) = lex_error(lang, &text);
                if lx2 != Some(e) || pos2 != want {
                    out = out.fail("c23:err:lexer", &format!("[{lid}] the lexer reads {text:?} as {lx2:?} consuming {pos2} chars, want #{e}"));
                }
            }
            // parser + printers
            let nname = Function::N.to_localized_name(lang);
            let node = parser_for(lang).parse(&format!("{nname}({s})"), &ctx_cell());
            let ok_node = matches!(&node, Node::FunctionKind { args, .. } if args.len() == 1 && args[0] == Node::ErrorKind(err.clone()));
            if !ok_node {
                out = out.fail("c23:err:parse", &format!("[{lid}] {nname}({s}) does not parse to N(<{err:?}>): {node:?}"));
            } else {
                let back = to_localized_string(&node, &ctx_cell(), en_locale(), lang);
                if back != format!("{nname}({s})") {
                    out = out.fail("c23:err:print", &format!("[{lid}] {nname}({s}) prints back as {back}"));
                }
                let exported = to_excel_string(&node, &ctx_cell());
                let en = w.lang(w.en());
                let node2 = parser_for(en).parse(&exported, &ctx_cell());
                if node2 != node {
                    out = out.fail("c23:err:xlsx-formula", &format!("[{lid}] N({s}) is exported as {exported}, which imports as {node2:?}"));
                }
            }
            // a real Model in this language: typed error value and error literal in a formula
            match Model::new_empty("c23", "en", "UTC", &lid) {
                Ok(mut m) => {
                    let _ = m.set_user_input(0, 1, 1, s.clone());
                    let _ = m.set_user_input(0, 2, 1, format!("={s}"));
                    let _ = m.set_user_input(0, 3, 1, s.to_lowercase());
                    m.evaluate();
                    let typed = error_in_cell(&m, 1, 1);
                    if typed != Some(e) {
                        out = out.fail("c23:err:typed-cell", &format!("[{lid}] typing {s:?} stores {typed:?}, want error #{e}"));
                    }
                    let lit = error_in_cell(&m, 2, 1);
                    if lit != Some(e) {
                        out = out.fail("c23:err:formula-literal", &format!("[{lid}] ={s} evaluates to {lit:?}, want error #{e}"));
                    }
                    for r in [1, 2] {
                        let shown = m.get_formatted_cell_value(0, r, 1).unwrap_or_default();
                        if shown != s {
                            out = out.fail("c23:err:shown", &format!("[{lid}] cell A{r} holding {err:?} is shown as {shown:?}, want {s:?}"));
                        }
                    }
                    let content = m.get_localized_cell_content(0, 2, 1).unwrap_or_default();
                    if content != format!("={s}") {
                        out = out.fail("c23:err:content", &format!("[{lid}] formula ={s} is shown as {content:?}"));
                    }
                    // internal reload: to_bytes / from_bytes re-parses the stored (English) formula text
                    let bytes = m.to_bytes();
                    match Model::from_bytes(&bytes, &lid) {
                        Ok(mut m2) => {
                            m2.evaluate();
                            for r in [1, 2] {
                                let got = error_in_cell(&m2, r, 1);
                                if got != Some(e) {
                                    out = out.fail("c23:err:reload", &format!("[{lid}] after to_bytes/from_bytes A{r} holds {got:?}, want error #{e}"));
                                }
                            }
                            let content2 = m2.get_localized_cell_content(0, 2, 1).unwrap_or_default();
                            if content2 != format!("={s}") {
                                out = out.fail("c23:err:reload", &format!("[{lid}] after to_bytes/from_bytes ={s} is shown as {content2:?}"));
                            }
                        }
                        Err(x) => out = out.fail("c23:err:reload", &format!("from_bytes failed: {x}")),
                    }
                    // xlsx export → import
                    match ironcalc::export::save_xlsx_to_writer(&m, std::io::Cursor::new(Vec::new())) {
                        Ok(cur) => {
                            let data = cur.into_inner();
                            match ironcalc::import::load_from_xlsx_bytes(&data, "c23", "en", "UTC")
                                .map_err(|x| format!("{x}"))
                                .and_then(|wb| Model::from_workbook(wb, &lid))
                            {
                                Ok(mut m3) => {
                                    for r in [1, 2] {
                                        let got = error_in_cell(&m3, r, 1);
                                        if got != Some(e) {
                                            out = out.fail("c23:err:xlsx-cell", &format!("[{lid}] after xlsx export/import A{r} holds {got:?}, want error #{e} {err:?} (before evaluation)"));
                                        }
                                    }
                                    m3.evaluate();
                                    let got = error_in_cell(&m3, 2, 1);
                                    if got != Some(e) {
                                        out = out.fail("c23:err:xlsx-formula", &format!("[{lid}] after xlsx export/import ={s} evaluates to {got:?}, want error #{e} {err:?}"));
                                    }
                                }
                                Err(x) => out = out.fail("c23:err:xlsx-cell", &format!("xlsx import failed: {x}")),
                            }
                        }
                        Err(x) => out = out.fail("c23:err:xlsx-cell", &format!("xlsx export failed: {x}")),
                    }
                }
                Err(x) => out = out.fail("c23:err:typed-cell", &format!("Model::new_empty failed: {x}")),
            }
            out
        }
        "disp" => {
            let e: usize = f[2].parse().unwrap();
            if e >= ALL_ERRORS.len() {
                return ImplOut::new("none".into()).trivial();
            }
            let err = &ALL_ERRORS[e];
            let d = format!("{err}");
            let by = get_error_by_english_name(&d).map(|x| err_index(&x));
            let mut out = ImplOut::new(format!("{} {}", hex(&d), opt_idx(by))).tag("err:display");
            if by != Some(e) {
                out = out.fail("c23:err:english", &format!("Display prints {err:?} as {d:?}; get_error_by_english_name gives {by:?}"));
            }
            let en = w.lang(w.en());
            if d != err.to_localized_error_string(en) {
                out = out.fail("c23:err:display-vs-english", &format!("Display prints {err:?} as {d:?}, the English language file spells it {:?}", err.to_localized_error_string(en)));
            }
            out
        }
        "byname" => {
            let l: usize = f[2].parse().unwrap();
            let s = unhex(f[3]).unwrap();
            let r = get_error_by_name(&s, w.lang(l)).map(|x| err_index(&x));
            let out = ImplOut::new(opt_idx(r)).tag(if r.is_some() { "byname:hit" } else { "byname:miss" });
            if r.is_none() { out.trivial() } else { out }
        }
        "english" => {
            let s = unhex(f[2]).unwrap();
            let r = get_error_by_english_name(&s).map(|x| err_index(&x));
            let out = ImplOut::new(opt_idx(r)).tag(if r.is_some() { "english:hit" } else { "english:miss" });
            if r.is_none() { out.trivial() } else { out }
        }
        "lex" => {
            let l: usize = f[2].parse().unwrap();
            let s = unhex(f[3]).unwrap();
            let (r, pos) = lex_error(w.lang(l), &s);
            match r {
                Some(e) => ImplOut::new(format!("{e}:{pos}")).tag("lex:error"),
                None => ImplOut::new("none".into()).tag("lex:spill-operator").trivial(),
            }
        }
        _ => ImplOut::new("bad-request".into()),
    })
}

pub fn suites() -> Vec<Suite> {
    vec![
        Suite {
            name: "c23-fn",
            rule: "EXHAUSTIVE: every (language, function) of supported_languages() x Function::into_iter(): to_localized_name, the real Functions::lookup on it, NAME() and NAME(1) through the real Parser of that language, printed back with to_localized_string, translated into every other language and re-parsed; every function: to_xlsx_string, the real English parser on it (import path), to_excel_string of the typed formula and its re-import; non-trivial = every in-range case",
            modelled: true,
            gen: gen_fn,
            eval: eval_fn,
            exhaustive: always,
        },
        Suite {
            name: "c23-keys",
            rule: "Functions::lookup and the parser's call resolution on keys that are not table names: case variants, one char dropped/added, Unicode lower case, dotless i / long s / sharp s, _xlfn./_xlws./_xlpm. prefix combinations, names and booleans of other languages, random identifiers, 0..2 arguments; non-trivial = lookup hit or a resolution other than NamedFunctionKind (distinct requests)",
            modelled: true,
            gen: gen_keys,
            eval: eval_keys,
            exhaustive: never,
        },
        Suite {
            name: "c23-err",
            rule: "EXHAUSTIVE over (language, error kind) and Display: spelling, get_error_by_name, lexer consume_error (alone and with continuations), N(<error>) through Parser/to_localized_string/to_excel_string/English re-parse, a real Model in that language (typed value, formula literal, formatted value, to_bytes/from_bytes, xlsx export->import); plus every spelling of every language, truncations, concatenations and random #-strings through get_error_by_name / get_error_by_english_name / the lexer of every language; non-trivial = a reader returned an error kind",
            modelled: true,
            gen: gen_err,
            eval: eval_err,
            exhaustive: never,
        },
    ]
}
