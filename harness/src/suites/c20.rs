//! C20 — number formats display correctly rounded values.
//!  * `c20-fmt`  : `format_number(x, code, locale)` for doubles × format codes of the family × locales;
//!                 the Lean driver computes the full text bit-exactly (non-scientific codes); the oracle
//!                 compares the engine's text with the *specification*: round to 15 significant digits,
//!                 then half away from zero to the format's decimals, on exact decimal arithmetic, laid
//!                 out by an independent implementation of the placeholder rules;
//!  * `c20-parse`: the format parser's token list (the input of Stage B) against the model's;
//!  * `c20-sci`  : scientific codes, oracle only (mantissa, exponent sign and digits).
use crate::prng::Rng;
use crate::proto::{hex, unhex};
use crate::run::{never, Ctx, ImplOut, Suite, Tier};
use ironcalc_base::formatter::format::format_number;
use ironcalc_base::formatter::parser::{ParsePart, Parser, TextToken};
use ironcalc_base::locale::{get_locale, get_supported_locales};

pub fn locales() -> Vec<String> {
    let mut l = get_supported_locales();
    l.sort();
    l
}

// ---------------------------------------------------------------------------------------------
// generators

pub fn gen_double(r: &mut Rng) -> f64 {
    let pick = r.below(16);
    let x: f64 = match pick {
        0 => loop {
            let v = f64::from_bits(r.next());
            if v.is_finite() {
                break v;
            }
        },
        1 => {
            // integers near 2^53 (and other powers of two)
            let p = *r.pick(&[52u32, 53, 53, 54, 60, 63, 64]);
            let base = 2f64.powi(p as i32);
            base + (r.range(-6, 6) as f64) * if p >= 54 { 2f64.powi(p as i32 - 52) } else { 1.0 }
        }
        2 => {
            // k / 2^j
            let j = r.below(12) as i32;
            (r.range(-50_000, 50_000) as f64) / 2f64.powi(j)
        }
        3 | 4 => {
            // decimal halves (n + 0.5) * 10^-d, parsed from the decimal text (nearest double)
            let d = r.below(7) as usize;
            let n = match r.below(3) {
                0 => r.below(100),
                1 => r.below(100_000),
                _ => r.below(1_000_000_000),
            };
            let digits = format!("{n}5");
            let s = if d + 1 >= digits.len() {
                format!("0.{}{}", "0".repeat(d + 1 - digits.len()), digits)
            } else {
                format!("{}.{}", &digits[..digits.len() - d - 1], &digits[digits.len() - d - 1..])
            };
            s.parse::<f64>().unwrap()
        }
        5 => {
            // 15–17 significant digit decimals
            let nd = 15 + r.below(3) as usize;
            let mut s = String::new();
            s.push((b'1' + r.below(9) as u8) as char);
            for _ in 1..nd {
                s.push((b'0' + r.below(10) as u8) as char);
            }
            let e = r.range(-20, 20);
            format!("{s}e{e}").parse::<f64>().unwrap()
        }
        6 => {
            // tiny / huge
            let e = *r.pick(&[-320i64, -310, -300, -100, -30, -16, -9, 16, 20, 22, 23, 30, 100, 300, 305, 308]);
            format!("{}.{}e{}", 1 + r.below(9), r.below(1000), e).parse::<f64>().unwrap()
        }
        7 => {
            // just below a carry: 0.99…, 9.99…, 0.0996
            let nines = 1 + r.below(16) as usize;
            let lead = *r.pick(&["0.", "9.", "99.", "0.0", "0.00", "1234."]);
            format!("{lead}{}{}", "9".repeat(nines), r.below(10)).parse::<f64>().unwrap()
        }
        8 => r.range(-1000, 1000) as f64,
        9 => (r.range(-100_000_000, 100_000_000) as f64) / 100.0,
        10 => (r.range(-1_000_000, 1_000_000) as f64) / 1000.0,
        11 => *r.pick(&[0.0, -0.0, 0.5, 1.5, 2.5, 0.05, 0.25, 1.005, 2.675, 0.285, 1234.5, 0.96, 0.996, 1e15, 1e21, 1e22, 999999999999999.9, 0.1 + 0.2]),
        12 => {
            // small magnitudes around the rounding threshold of common formats
            let e = r.range(-8, 0);
            (r.range(1, 9999) as f64) * 10f64.powi(e as i32 - 3)
        }
        13 => {
            // integers with 1..22 digits
            let nd = 1 + r.below(22) as usize;
            let mut s = String::new();
            s.push((b'1' + r.below(9) as u8) as char);
            for _ in 1..nd {
                s.push((b'0' + r.below(10) as u8) as char);
            }
            s.parse::<f64>().unwrap()
        }
        _ => {
            // a decimal with few digits, as a user would type it
            let a = r.below(100_000);
            let d = r.below(6) as u32;
            format!("{}e-{}", a, d).parse::<f64>().unwrap()
        }
    };
    if pick >= 3 && r.chance(1, 4) {
        -x
    } else {
        x
    }
}

const INT_BLOCKS: &[&str] = &[
    "0", "0", "#", "00", "000", "#0", "##0", "###0", "#,##0", "#,##0", "#,###", "#,###,##0", "0,000", "0,0", "#,#", "#,##0,",
    "#,##0,,", "0,", "?0", "??0", "0000000",
];
const FRAC_BLOCKS: &[&str] = &[
    "", "", ".0", ".00", ".00", ".000", ".0000", ".#", ".##", ".0#", ".00#", ".0?", ".00??", ".000000", ".0000000000", ".###############",
    ".00000000000000000000",
];
const PREFIXES: &[&str] = &["", "", "", "$", "\"x\" ", "-", "(", "_(", "*-", "\\k", "\"a\"\"b\"", "€ ", "+"];
const SUFFIXES: &[&str] = &["", "", "", "%", "%", " \"kg\"", ")", "_)", " %", "\\%", "\"%\"", "%%", " -"];

fn gen_section(r: &mut Rng) -> String {
    format!("{}{}{}{}", r.pick(PREFIXES), r.pick(INT_BLOCKS), r.pick(FRAC_BLOCKS), r.pick(SUFFIXES))
}

/// ≈ 240 format codes of the family, fixed (derived from a constant seed so that every run uses the
/// same list), plus the built-in number formats of the family.
pub fn format_codes() -> Vec<String> {
    let mut v: Vec<String> = [
        "0", "0.00", "#,##0", "#,##0.00", "0%", "0.00%", "#,##0_);(#,##0)", "#,##0.00_);(#,##0.00)", "$#,##0_);($#,##0)",
        "$#,##0.00_);($#,##0.00)", "0.0", "#", "#.#", "0.###", "#,##0.###", "0;-0", "0.00;(0.00);\"zero\"", "0.0;-0.0;0.0;@",
    ]
    .iter()
    .map(|s| s.to_string())
    .collect();
    let mut r = Rng::new(0xC20);
    while v.len() < 240 {
        let mut f = gen_section(&mut r);
        match r.below(8) {
            0 => f = format!("{f};{}", gen_section(&mut r)),
            1 => f = format!("{f};{};{}", gen_section(&mut r), gen_section(&mut r)),
            2 => f = format!("{f};-{f}"),
            _ => {}
        }
        if !v.contains(&f) {
            v.push(f);
        }
    }
    v
}

fn req_fmt(x: f64, fmt: &str, loc: &str) -> String {
    let l = get_locale(loc).unwrap();
    format!(
        "c20 fmt {} {} {} {} {} {}",
        x.to_bits(),
        hex(fmt),
        hex(&l.numbers.symbols.decimal),
        hex(&l.numbers.symbols.group),
        hex(&l.numbers.decimal_formats.standard),
        loc
    )
}

const WITNESSES: &[(f64, &str)] = &[
    (2.5, "0"),
    (0.5, "0"),
    (1234.5, "#,##0"),
    (2.675, "0.00"),
    (1.005, "0.00"),
    (0.285, "0.00"),
    (0.96, "0.0"),
    (-0.96, "0.0"),
    (0.996, "0.00"),
    (-1.0, "0"),
    (-1.4, "0"),
    (-0.1, "0.0"),
    (-0.004, "0.00"),
    (-0.005, "0.00"),
    (-1.0, "#,##0"),
    (1234.0, "#,###,##0"),
    (123456.0, "#,###,##0"),
    (12.0, "0,000"),
    (1234.0, "0,000,000"),
    (123456.7, "0.00000000000000000000"),
    (0.7, "0.00000000000000000000"),
    (123456789012345.6, "0.00"),
    (1e20, "#,##0.00"),
    (1.2345678901234568e17, "0.0"),
    (1.7e308, "0"),
    (1.7e308, "0%"),
    (5e-324, "0.00"),
    (1234567.0, "0.0,,"),
    (-1234.5678, "#,##0.00;(#,##0.00)"),
];

fn gen_fmt(ctx: &Ctx, sink: &mut dyn FnMut(String)) {
    let locs = locales();
    let codes = format_codes();
    for (x, f) in WITNESSES {
        for l in &locs {
            sink(req_fmt(*x, f, l));
        }
    }
    let n = if ctx.tier == Tier::Quick { 100_000 } else { 3_000_000 };
    let mut r = Rng::new(ctx.seed ^ 0x20_20);
    for _ in 0..n {
        let x = gen_double(&mut r);
        let f = if r.chance(1, 10) { gen_section(&mut r) } else { r.pick(&codes).clone() };
        let l = r.pick(&locs);
        sink(req_fmt(x, &f, l));
    }
}

// ---------------------------------------------------------------------------------------------
// which requests the model answers (the family): mirrors `nextToken`'s `unsupported` outcome

#[derive(PartialEq)]
enum Scan {
    Family,
    Unsupported,
}

fn scan_family(fmt: &str) -> Scan {
    let c: Vec<char> = fmt.chars().collect();
    let mut i = 0;
    while i < c.len() {
        let x = c[i];
        match x {
            '$' | '€' | '(' | ')' | '/' | ':' | '+' | '-' | '^' | '\'' | '{' | '}' | '<' | '=' | '!' | '~' | '>' | ' ' | '?' | ';' | '#' | ',' | '.' | '0' | '%' => i += 1,
            '_' | '*' | '\\' => {
                if i + 1 >= c.len() {
                    return Scan::Family; // ILLEGAL: lexing stops
                }
                i += 2
            }
            '"' => {
                i += 1;
                loop {
                    if i >= c.len() {
                        return Scan::Family; // unterminated: ILLEGAL
                    }
                    if c[i] == '"' {
                        if i + 1 < c.len() && c[i + 1] == '"' {
                            i += 2;
                            continue;
                        }
                        i += 1;
                        break;
                    }
                    i += 1;
                }
            }
            'E' => {
                if i + 1 < c.len() && (c[i + 1] == '+' || c[i + 1] == '-') {
                    i += 2
                } else {
                    return Scan::Family; // ILLEGAL
                }
            }
            '[' | '@' | 'd' | 'm' | 'y' | 'h' | 'H' | 's' | 'A' | 'a' | 'g' | 'G' => return Scan::Unsupported,
            _ => return Scan::Family, // ILLEGAL character: the parser returns an error part
        }
    }
    Scan::Family
}

// ---------------------------------------------------------------------------------------------
// the specification: round15, then half away from zero at d decimals, exact decimal arithmetic

pub struct SpecDigits {
    pub int_digits: String, // no leading zeros, "" for zero
    pub frac: String,       // exactly d digits
    pub tie: bool,          // round15(v)·10^d had fractional part exactly 1/2
    pub zero: bool,
}

/// `v ≥ 0` finite. The 15 significant digits come from Rust's exact `{:.14e}` formatting.
pub fn spec_digits(v: f64, d: usize) -> SpecDigits {
    let s = format!("{:.14e}", v);
    let (mant, exp) = s.split_once('e').unwrap();
    let e: i64 = exp.parse().unwrap();
    let n: String = mant.chars().filter(|c| c.is_ascii_digit()).collect(); // 15 digits
    // value = n × 10^(e-14); in units of 10^-d: n × 10^(e - 14 + d)
    let shift = e - 14 + d as i64;
    let mut tie = false;
    let k: String = if v == 0.0 {
        "0".to_string()
    } else if shift >= 0 {
        format!("{n}{}", "0".repeat(shift as usize))
    } else {
        let cut = (-shift) as usize;
        if cut > n.len() {
            "0".to_string()
        } else {
            let (head, tail) = n.split_at(n.len() - cut);
            let first = tail.as_bytes()[0];
            let rest_zero = tail.bytes().skip(1).all(|b| b == b'0');
            tie = first == b'5' && rest_zero;
            let up = first >= b'5';
            let mut digits: Vec<u8> = if head.is_empty() { vec![b'0'] } else { head.bytes().collect() };
            if up {
                let mut i = digits.len();
                loop {
                    if i == 0 {
                        digits.insert(0, b'1');
                        break;
                    }
                    i -= 1;
                    if digits[i] == b'9' {
                        digits[i] = b'0';
                    } else {
                        digits[i] += 1;
                        break;
                    }
                }
            }
            String::from_utf8(digits).unwrap()
        }
    };
    let k = if k.len() < d + 1 { format!("{}{}", "0".repeat(d + 1 - k.len()), k) } else { k };
    let (ip, fp) = k.split_at(k.len() - d);
    let ip = ip.trim_start_matches('0').to_string();
    let zero = ip.is_empty() && fp.bytes().all(|b| b == b'0');
    SpecDigits { int_digits: ip, frac: fp.to_string(), tie, zero }
}

/// a section of canonical shape: literals, an integer block, an optional fraction block, trailing
/// commas, literals
struct SpecSection {
    prefix: String,
    int_kinds: Vec<char>,
    thousands: bool,
    frac_kinds: Vec<char>,
    has_point: bool,
    scale_commas: i32,
    percent: i32,
    suffix: String,
}

fn spec_literal(c: &[char], i: &mut usize, out: &mut String, percent: &mut i32) -> bool {
    let x = c[*i];
    match x {
        '$' | '€' | '(' | ')' | '/' | ':' | '+' | '-' | '^' | '\'' | '{' | '}' | '<' | '=' | '!' | '~' | '>' | ' ' => {
            out.push(x);
            *i += 1;
            true
        }
        '%' => {
            out.push('%');
            *percent += 1;
            *i += 1;
            true
        }
        '\\' if *i + 1 < c.len() => {
            out.push(c[*i + 1]);
            *i += 2;
            true
        }
        '_' | '*' if *i + 1 < c.len() => {
            out.push(' ');
            *i += 2;
            true
        }
        '"' => {
            let mut j = *i + 1;
            let mut t = String::new();
            loop {
                if j >= c.len() {
                    return false;
                }
                if c[j] == '"' {
                    if j + 1 < c.len() && c[j + 1] == '"' {
                        t.push('"');
                        j += 2;
                        continue;
                    }
                    j += 1;
                    break;
                }
                t.push(c[j]);
                j += 1;
            }
            out.push_str(&t);
            *i = j;
            true
        }
        _ => false,
    }
}

fn spec_section(s: &str) -> Option<SpecSection> {
    let c: Vec<char> = s.chars().collect();
    let mut i = 0;
    let mut sec = SpecSection {
        prefix: String::new(),
        int_kinds: vec![],
        thousands: false,
        frac_kinds: vec![],
        has_point: false,
        scale_commas: 0,
        percent: 0,
        suffix: String::new(),
    };
    while i < c.len() && !matches!(c[i], '0' | '#' | '?' | ',' | '.') {
        if !spec_literal(&c, &mut i, &mut sec.prefix, &mut sec.percent) {
            return None;
        }
    }
    // integer block: placeholders with commas strictly between them
    while i < c.len() && matches!(c[i], '0' | '#' | '?' | ',') {
        if c[i] == ',' {
            let between = !sec.int_kinds.is_empty() && i + 1 < c.len() && matches!(c[i + 1], '0' | '#' | '?');
            if between {
                sec.thousands = true;
            } else {
                break;
            }
        } else {
            sec.int_kinds.push(c[i]);
        }
        i += 1;
    }
    if sec.int_kinds.is_empty() {
        return None;
    }
    if i < c.len() && c[i] == '.' {
        sec.has_point = true;
        i += 1;
        while i < c.len() && matches!(c[i], '0' | '#' | '?') {
            sec.frac_kinds.push(c[i]);
            i += 1;
        }
        // a point without a printing first placeholder is outside the checked family
        if sec.frac_kinds.is_empty() || sec.frac_kinds[0] == '?' {
            return None;
        }
    }
    while i < c.len() && c[i] == ',' {
        sec.scale_commas += 1;
        i += 1;
    }
    while i < c.len() {
        if !spec_literal(&c, &mut i, &mut sec.suffix, &mut sec.percent) {
            return None;
        }
    }
    if sec.thousands && sec.int_kinds.contains(&'?') {
        return None;
    }
    Some(sec)
}

fn split_sections(fmt: &str) -> Option<Vec<String>> {
    // `;` outside quotes / escapes
    let c: Vec<char> = fmt.chars().collect();
    let mut out = vec![String::new()];
    let mut i = 0;
    while i < c.len() {
        match c[i] {
            '"' => {
                let start = i;
                i += 1;
                loop {
                    if i >= c.len() {
                        return None;
                    }
                    if c[i] == '"' {
                        if i + 1 < c.len() && c[i + 1] == '"' {
                            i += 2;
                            continue;
                        }
                        i += 1;
                        break;
                    }
                    i += 1;
                }
                out.last_mut().unwrap().extend(&c[start..i]);
            }
            '\\' | '_' | '*' => {
                if i + 1 >= c.len() {
                    return None;
                }
                out.last_mut().unwrap().extend(&c[i..i + 2]);
                i += 2;
            }
            ';' => {
                out.push(String::new());
                i += 1;
            }
            x => {
                out.last_mut().unwrap().push(x);
                i += 1;
            }
        }
    }
    // a trailing `;` does not open a section
    if out.len() > 1 && out.last().unwrap().is_empty() {
        out.pop();
    }
    Some(out)
}

pub struct Expected {
    pub text: String,
    pub tie: bool,
    pub beyond15: bool,
}

/// The text the property asks for, or `None` when the code is outside the checked shape.
pub fn spec_text(x: f64, fmt: &str, decimal: &str, group: &str, standard: &str) -> Option<Expected> {
    if standard != "#,##0.###" {
        return None;
    }
    let secs = split_sections(fmt)?;
    let (sec_txt, mut neg, zero_section) = match secs.len() {
        1 => (&secs[0], x < 0.0, false),
        2 => {
            if x >= 0.0 {
                (&secs[0], false, false)
            } else {
                (&secs[1], false, false)
            }
        }
        3 | 4 => {
            if x > 0.0 {
                (&secs[0], false, false)
            } else if x < 0.0 {
                (&secs[1], false, false)
            } else {
                (&secs[2], false, true)
            }
        }
        _ => return None,
    };
    let sec = spec_section(sec_txt)?;
    if sec.percent > 2 || sec.scale_commas > 3 {
        return None;
    }
    let v = if zero_section { 0.0 } else { x.abs() * 100f64.powi(sec.percent) / 1000f64.powi(sec.scale_commas) };
    if !v.is_finite() {
        return None;
    }
    let d = sec.frac_kinds.len();
    let sd = spec_digits(v, d);
    if sd.zero {
        neg = false;
    }
    let n = sec.int_kinds.len();
    let ln = sd.int_digits.len();
    // integer display: (char, position from the right)
    let mut shown: Vec<(char, usize)> = vec![];
    let total = ln.max(n);
    let digits: Vec<char> = sd.int_digits.chars().collect();
    for pos in (1..=total).rev() {
        // pos = position from the right, 1-based
        if pos <= ln {
            shown.push((digits[ln - pos], pos));
        } else {
            match sec.int_kinds[n - pos] {
                '0' => shown.push(('0', pos)),
                '?' => shown.push((' ', pos)),
                _ => {}
            }
        }
    }
    let mut t = String::new();
    if neg {
        t.push('-');
    }
    t.push_str(&sec.prefix);
    for (ch, pos) in shown {
        t.push(ch);
        if sec.thousands && pos > 1 && (pos - 1) % 3 == 0 {
            t.push_str(group);
        }
    }
    if sec.has_point {
        let fd = sd.frac.trim_end_matches('0');
        let fdc: Vec<char> = fd.chars().collect();
        t.push_str(decimal);
        for (i, k) in sec.frac_kinds.iter().enumerate() {
            if i < fdc.len() {
                t.push(fdc[i]);
            } else if *k == '0' {
                t.push('0');
            } else if *k == '?' {
                t.push(' ');
            }
        }
    }
    t.push_str(&sec.suffix);
    Some(Expected { text: t, tie: sd.tie, beyond15: ln + d > 15 })
}

fn classify(engine: &str, want: &Expected, group: &str) -> String {
    if want.beyond15 {
        return "c20:digits:beyond-15-significant".to_string();
    }
    if want.tie {
        return "c20:round:decimal-tie".to_string();
    }
    let strip = |s: &str| s.replace('-', "");
    if engine != want.text && strip(engine) == strip(&want.text) {
        return "c20:text:sign".to_string();
    }
    if !group.is_empty() && engine.replace(group, "") == want.text.replace(group, "") {
        return "c20:text:grouping".to_string();
    }
    if engine.chars().filter(|c| c.is_ascii_digit()).collect::<String>()
        == want.text.chars().filter(|c| c.is_ascii_digit()).collect::<String>()
    {
        return "c20:text:layout".to_string();
    }
    "c20:round:digits".to_string()
}

enum SciClass {
    Modelled,
    Nonfinite,
    Log10Zone,
}

/// Which scientific inputs the Lean model answers (mirrors `sciStage` / `log10Floor`): `v` is the scaled value.
/// * the value after the first `to_precision`, the mantissa after the division and its 15-digit reduction must
///   be finite (otherwise the engine prints `inf` / `NaN` fragments: "nonfinite" on both sides);
/// * libm's `log10` is not correctly rounded: within a few ulps of a power of ten `floor(log10(v))` can go
///   either way. The model answers for the doubles nearest to a power of ten and everywhere outside the zone
///   where the first 12 significant digits (truncated) are 999999999999 or 100000000000.
fn sci_model_class(v: f64, precision: usize) -> SciClass {
    let l = format!("{}", v.abs().floor()).len();
    let v1 = ironcalc_base::number_format::to_precision(v, precision + l).abs();
    if !v1.is_finite() {
        return SciClass::Nonfinite;
    }
    if v1 == 0.0 {
        return SciClass::Modelled;
    }
    let text = format!("{:.40e}", v1);
    let (mant, exp) = text.split_once('e').unwrap();
    let k: i32 = exp.parse().unwrap();
    let digits: String = mant.chars().filter(|c| c.is_ascii_digit()).take(12).collect();
    let is_rn_pow = |j: i32| format!("1e{j}").parse::<f64>().map(|p| p == v1).unwrap_or(false);
    let exact_power = is_rn_pow(k) || is_rn_pow(k + 1);
    if !exact_power && (digits == "999999999999" || digits == "100000000000") {
        return SciClass::Log10Zone;
    }
    let e = v1.log10().floor();
    let m = ironcalc_base::number_format::to_precision(v1 / 10f64.powf(e), 15);
    if !m.is_finite() {
        return SciClass::Nonfinite;
    }
    SciClass::Modelled
}

/// regenerates `Generated/Pow10.lean`: the bit patterns of `10.0_f64.powf(e)` the scientific branch divides by
pub fn extract(dir: &std::path::Path) {
    let mut out = String::from(
        "/-\n  GENERATED by `verif_harness extract` from the running code: the bit patterns of\n  `10.0_f64.powf(e as f64)` for e = -330 ..= 310 (index e + 330), i.e. what the scientific branch\n  of `format_number` divides by.  libm's `pow` is NOT correctly rounded (10^23, 10^210, …), which\n  is why this is a table and not a formula.  Do not edit.\n-/\nnamespace IronCalc.Generated.Pow10\n\ndef lo : Int := -330\n\ndef bits : Array Nat := #[\n",
    );
    let rows: Vec<u64> = (-330..=310).map(|e| 10.0_f64.powf(e as f64).to_bits()).collect();
    let lines: Vec<String> = rows.chunks(4).map(|c| format!("  {}", c.iter().map(|b| b.to_string()).collect::<Vec<_>>().join(", "))).collect();
    out.push_str(&lines.join(",\n"));
    out.push_str("\n]\n\nend IronCalc.Generated.Pow10\n");
    crate::suites::write_if_changed(&dir.join("Pow10.lean"), &out);
}

fn eval_fmt(req: &str) -> ImplOut {
    let f: Vec<&str> = req.split(' ').collect();
    if f.len() != 8 {
        return ImplOut::new("bad-request".into());
    }
    let bits: u64 = f[2].parse().unwrap();
    let x = f64::from_bits(bits);
    let fmt = unhex(f[3]).unwrap();
    let loc = match get_locale(f[7]) {
        Ok(l) => l,
        Err(_) => return ImplOut::new("bad-locale".into()),
    };
    let dec = unhex(f[4]).unwrap();
    let grp = unhex(f[5]).unwrap();
    let std_fmt = unhex(f[6]).unwrap();
    if dec != loc.numbers.symbols.decimal || grp != loc.numbers.symbols.group || std_fmt != loc.numbers.decimal_formats.standard {
        return ImplOut::new("bad-locale-fields".into());
    }
    let r = std::panic::catch_unwind(|| format_number(x, &fmt, loc));
    let r = match r {
        Ok(r) => r,
        Err(_) => return ImplOut::new("panic".into()).fail("c20:panic", &format!("format_number({x:?}, {fmt:?}) panicked")),
    };
    // what the model answers
    let mut out;
    if !x.is_finite() {
        out = ImplOut::new("nonfinite".into()).trivial();
        return out;
    }
    if scan_family(&fmt) == Scan::Unsupported {
        return ImplOut::new("unsupported".into()).trivial().tag("unsupported:char");
    }
    // the part the engine chose (same rule as format_number)
    let mut parser = Parser::new(&fmt);
    parser.parse();
    let parts = &parser.parts;
    let idx = match parts.len() {
        1 => Some(0),
        2 => Some(if x >= 0.0 { 0 } else { 1 }),
        3 | 4 => Some(if x > 0.0 {
            0
        } else if x < 0.0 {
            1
        } else {
            2
        }),
        _ => None,
    };
    let mut model_out_of_family = false;
    let mut nonfinite = false;
    let mut log10_zone = false;
    if let Some(i) = idx {
        if let ParsePart::Number(p) = &parts[i] {
            if p.precision > 22 || p.percent > 11 || p.comma > 7 || p.color.is_some() || p.currency.is_some() {
                model_out_of_family = true;
            } else {
                let xv = if parts.len() >= 3 && x == 0.0 { 0.0 } else { x };
                let v = xv * 100f64.powi(p.percent) / 1000f64.powi(p.comma);
                nonfinite = !v.is_finite();
                if p.is_scientific && !nonfinite {
                    match sci_model_class(v, p.precision as usize) {
                        SciClass::Modelled => {}
                        SciClass::Nonfinite => nonfinite = true,
                        SciClass::Log10Zone => log10_zone = true,
                    }
                }
            }
        }
    }
    if model_out_of_family {
        return ImplOut::new("unsupported".into()).trivial().tag("unsupported:part");
    }
    if nonfinite {
        return ImplOut::new("nonfinite".into()).trivial().tag("nonfinite-after-scaling");
    }
    if log10_zone {
        return ImplOut::new("unsupported".into()).trivial().tag("unsupported:log10-zone");
    }
    if r.error.is_some() {
        out = ImplOut::new("VALUE".into()).tag("value-error");
        out.nontrivial = false;
        return out;
    }
    out = ImplOut::new(format!("T{}", hex(&r.text)));
    // oracle
    match spec_text(x, &fmt, &dec, &grp, &std_fmt) {
        None => out = out.tag("oracle:shape-not-checked"),
        Some(want) => {
            out = out.tag(if want.tie { "oracle:tie" } else { "oracle:checked" });
            if want.beyond15 {
                out = out.tag("oracle:beyond15");
            }
            if r.text != want.text {
                let sig = classify(&r.text, &want, &grp);
                out = out.fail(&sig, &format!("x={x:?} format={fmt:?} locale={} engine={:?} spec={:?}", f[7], r.text, want.text));
            }
        }
    }
    out
}

// ---------------------------------------------------------------------------------------------
// c20-parse

fn gen_parse(ctx: &Ctx, sink: &mut dyn FnMut(String)) {
    for c in format_codes() {
        sink(format!("c20 parse {}", hex(&c)));
    }
    // malformed / mutated codes of the family alphabet
    let alphabet: Vec<char> = "0#?.,%;E+-$() \"\\_*x/:".chars().collect();
    let n = if ctx.tier == Tier::Quick { 20_000 } else { 400_000 };
    let mut r = Rng::new(ctx.seed ^ 0x9a45e);
    let codes = format_codes();
    for _ in 0..n {
        let s: String = if r.chance(1, 2) {
            let len = r.below(10) as usize;
            (0..len).map(|_| *r.pick(&alphabet)).collect()
        } else {
            let mut c: Vec<char> = r.pick(&codes).chars().collect();
            for _ in 0..1 + r.below(3) {
                let pos = r.below(c.len() as u64 + 1) as usize;
                match r.below(3) {
                    0 => c.insert(pos, *r.pick(&alphabet)),
                    1 if pos < c.len() => {
                        c.remove(pos);
                    }
                    _ if pos < c.len() => c[pos] = *r.pick(&alphabet),
                    _ => {}
                }
            }
            c.into_iter().collect()
        };
        sink(format!("c20 parse {}", hex(&s)));
    }
}

fn dump_part(p: &ParsePart) -> String {
    match p {
        ParsePart::Error(_) => "error".to_string(),
        ParsePart::Date(_) | ParsePart::General(_) => "unsupported".to_string(),
        ParsePart::Number(p) => {
            let b = |x: bool| if x { "1" } else { "0" };
            let toks: Vec<String> = p
                .tokens
                .iter()
                .map(|t| match t {
                    TextToken::Literal(c) => format!("L{}", *c as u32),
                    TextToken::Text(s) => format!("T{}", hex(s)),
                    TextToken::Ghost(_) => "G".to_string(),
                    TextToken::Spacer(_) => "S".to_string(),
                    TextToken::Period => "P".to_string(),
                    TextToken::Digit(d) => format!(
                        "D{}:{}:{}",
                        d.kind as u32,
                        d.index,
                        if d.number.is_integer() {
                            "i"
                        } else if d.number.is_decimal() {
                            "d"
                        } else {
                            "e"
                        }
                    ),
                    _ => "X".to_string(),
                })
                .collect();
            format!(
                "num:{}:{}:{}:{}:{}:{}:{}:{}:{}",
                b(p.use_thousands),
                p.percent,
                p.comma,
                p.digit_count,
                p.precision,
                b(p.is_scientific),
                b(p.scientific_minus),
                p.exponent_digit_count,
                toks.join(",")
            )
        }
    }
}

fn eval_parse(req: &str) -> ImplOut {
    let f: Vec<&str> = req.split(' ').collect();
    let fmt = unhex(f[2]).unwrap();
    if scan_family(&fmt) == Scan::Unsupported {
        return ImplOut::new("unsupported".into()).trivial();
    }
    let r = std::panic::catch_unwind(|| {
        let mut parser = Parser::new(&fmt);
        parser.parse();
        parser.parts.iter().map(dump_part).collect::<Vec<_>>().join("|")
    });
    match r {
        Ok(s) => {
            let tag = if s.contains("error") { "parse:error" } else { "parse:number" };
            let mut o = ImplOut::new(s).tag(tag);
            o.nontrivial = tag == "parse:number";
            o
        }
        Err(_) => ImplOut::new("panic".into()).fail("c20:panic:parse", &format!("Parser::parse({fmt:?}) panicked")),
    }
}

// ---------------------------------------------------------------------------------------------
// c20-sci: scientific codes `0.00E+00` (one integer placeholder), oracle only

pub const SCI_CODES: &[&str] = &[
    "0E+0", "0.0E+0", "0.00E+00", "0.000E+00", "0.00E-00", "0.0E-0", "0.00000E+000", "#.##E+0", "##0.0E+0", "0E+00", "0.00E+0", "0.0##E+0",
    "00.0E+00", "0.00E+?0", "0.00E+#0", "$0.00E+00", "0.00E+00 \"u\"", "0.00E+00;(0.00E-00)", "0.0E+0%", "#,##0.0E+0", "0.0000000000000E+00",
];

fn gen_sci(ctx: &Ctx, sink: &mut dyn FnMut(String)) {
    let locs = locales();
    let mut r = Rng::new(ctx.seed ^ 0x5c1);
    for (x, c) in [
        (1.0, "0.00E+00"), (5.0, "0.00E+00"), (99.96, "0.00E+00"), (9.995, "0.00E+00"), (9.9951, "0.00E+00"), (0.09996, "0.00E+00"), (950.0, "0E+0"),
        (12345.0, "0.00E+00"), (12345.0, "##0.0E+0"), (0.00012345, "0.00E+00"), (0.0, "0.00E+00"), (-0.0, "0.0E-0"), (-10.0, "0.0E+00"),
        (8.85635650623454e172, "0.000E+00"), (1e308, "0.00E+00"), (1.7976931348623157e308, "0.00E+00"), (5e-324, "0.00E+00"), (1e-310, "0.0E-0"),
        (2.2250738585072014e-308, "0.00000E+000"), (999.9999999999999, "0.00E+00"), (1e23, "0.00E+00"), (1e22, "0E+00"),
    ] {
        for l in &locs {
            sink(req_fmt(x, c, l));
        }
    }
    // every double nearest to a power of ten, and its neighbours
    for e in -323i32..=308 {
        let p: f64 = format!("1e{e}").parse().unwrap();
        let code = SCI_CODES[((e + 323) as usize) % SCI_CODES.len()];
        sink(req_fmt(p, "0.00E+00", "en"));
        sink(req_fmt(-p, code, &locs[((e + 323) as usize) % locs.len()]));
        for d in [-2i64, -1, 1, 2] {
            let q = f64::from_bits((p.to_bits() as i64 + d) as u64);
            if q.is_finite() && q > 0.0 {
                sink(req_fmt(q, "0.0000E+00", "en"));
            }
        }
    }
    let n = if ctx.tier == Tier::Quick { 30_000 } else { 800_000 };
    for _ in 0..n {
        let x = match r.below(10) {
            0 => {
                // 9.99…5 carry cases at every magnitude
                let nines = r.below(15) as usize;
                let e = r.range(-320, 306);
                format!("9.{}{}e{}", "9".repeat(nines), r.pick(&["5", "4", "6", "49", "51", "95"]), e).parse::<f64>().unwrap()
            }
            1 => {
                // subnormals
                let sh = 1 + r.below(52);
                f64::from_bits(1 + r.below(1u64 << sh))
            }
            2 => {
                // few-digit mantissas at every magnitude
                let e = r.range(-323, 308);
                format!("{}.{}e{}", 1 + r.below(9), r.below(10000), e).parse::<f64>().unwrap()
            }
            _ => gen_double(&mut r),
        };
        let x = if x.is_finite() { x } else { 1.0 };
        let x = if r.chance(1, 5) { -x } else { x };
        let code: &str = *r.pick(SCI_CODES);
        let l: &String = r.pick(&locs);
        sink(req_fmt(x, code, l));
    }
}

/// expected text for `0.dddE±ee`-shaped codes: mantissa from round15 then half away to d decimals
fn sci_expected(x: f64, code: &str) -> Option<(String, bool)> {
    let (mant_code, exp_code) = code.split_once('E')?;
    let minus_only = exp_code.starts_with('-');
    let exp_digits = exp_code.len() - 1;
    let d = mant_code.split_once('.').map(|(_, f)| f.len()).unwrap_or(0);
    let hash = mant_code.contains('#');
    if hash {
        return None;
    }
    if x == 0.0 {
        let mut t = format!("0{}{}", if d > 0 { "." } else { "" }, "0".repeat(d));
        t.push_str(if minus_only { "E" } else { "E+" });
        t.push_str(&"0".repeat(exp_digits));
        return Some((t, false));
    }
    // 15 significant digits, exactly
    let s = format!("{:.14e}", x.abs());
    let (m, e) = s.split_once('e')?;
    let mut e: i64 = e.parse().ok()?;
    let digits: Vec<u8> = m.bytes().filter(|b| b.is_ascii_digit()).collect();
    // round half away to d+1 significant digits
    let keep = d + 1;
    let mut head: Vec<u8> = digits[..keep.min(15)].to_vec();
    let mut tie = false;
    if keep < 15 {
        let first = digits[keep];
        tie = first == b'5' && digits[keep + 1..].iter().all(|b| *b == b'0');
        if first >= b'5' {
            let mut i = head.len();
            loop {
                if i == 0 {
                    head.insert(0, b'1');
                    head.pop();
                    e += 1;
                    break;
                }
                i -= 1;
                if head[i] == b'9' {
                    head[i] = b'0';
                } else {
                    head[i] += 1;
                    break;
                }
            }
        }
    } else {
        while head.len() < keep {
            head.push(b'0');
        }
    }
    let hs = String::from_utf8(head).ok()?;
    let mut t = String::new();
    if x < 0.0 {
        t.push('-');
    }
    t.push_str(&hs[..1]);
    if d > 0 {
        t.push('.');
        t.push_str(&hs[1..]);
    }
    t.push_str(if e < 0 {
        "E-"
    } else if minus_only {
        "E"
    } else {
        "E+"
    });
    let es = format!("{}", e.abs());
    if es.len() < exp_digits {
        t.push_str(&"0".repeat(exp_digits - es.len()));
    }
    t.push_str(&es);
    Some((t, tie))
}

fn eval_sci(req: &str) -> ImplOut {
    // the answer compared with the model is the one of the `fmt` op; the oracle below is specific to `E` codes
    let mut out = eval_fmt(req);
    let f: Vec<&str> = req.split(' ').collect();
    if f.len() != 8 || !out.ans.starts_with('T') {
        return out;
    }
    let x = f64::from_bits(f[2].parse().unwrap());
    let code = unhex(f[3]).unwrap();
    let dec = unhex(f[4]).unwrap();
    let engine = unhex(&out.ans[1..]).unwrap_or_default();
    out.nontrivial = true;
    // the oracle covers the plain shape 0E+0 / 0.0…E±0… only
    let plain = {
        let b = code.as_bytes();
        let mut i = 0;
        let mut ok = !b.is_empty() && b[0] == b'0';
        i += 1;
        if ok && i < b.len() && b[i] == b'.' {
            i += 1;
            let st = i;
            while i < b.len() && b[i] == b'0' {
                i += 1;
            }
            ok = i > st;
        }
        ok = ok && i + 1 < b.len() && b[i] == b'E' && (b[i + 1] == b'+' || b[i + 1] == b'-');
        i += 2;
        ok && i < b.len() && b[i..].iter().all(|c| *c == b'0')
    };
    match if plain { sci_expected(x, &code) } else { None } {
        None => out = out.tag("sci:shape-not-checked"),
        Some((want, tie)) => {
            let want = want.replace('.', &dec);
            out = out.tag(if tie { "sci:tie" } else { "sci:checked" });
            if engine != want {
                let (wm, we) = want.split_once('E').unwrap();
                let sig = match engine.split_once('E') {
                    Some((m, e)) if m == wm && e != we => {
                        if e.trim_start_matches(['+', '-']) == we.trim_start_matches(['+', '-']) {
                            "c20:sci:exponent-sign"
                        } else {
                            "c20:sci:exponent"
                        }
                    }
                    Some(_) if tie => "c20:sci:decimal-tie",
                    Some(_) => "c20:sci:mantissa",
                    None => "c20:sci:shape",
                };
                out = out.fail(sig, &format!("x={x:?} format={code:?} engine={engine:?} spec={want:?}"));
            }
        }
    }
    out
}

pub fn suites() -> Vec<Suite> {
    vec![
        Suite {
            name: "c20-fmt",
            rule: "format_number(x, code, locale): x from 16 classes (random bits, integers near 2^53, k/2^j, decimal halves (n+0.5)·10^-d, 15-17 digit decimals, tiny/huge, just-below-carry, typed decimals, witnesses) × 240 fixed codes of the family (+10% freshly composed) × every locale; model answers the full text bit-exactly; oracle = round15 then half away at the format's decimals in exact decimal arithmetic with an independent layout; non-trivial = a text was produced (distinct requests)",
            modelled: true,
            gen: gen_fmt,
            eval: eval_fmt,
            exhaustive: never,
        },
        Suite {
            name: "c20-parse",
            rule: "format parser: the 240 codes, random strings over the family alphabet and 1-3 character mutations of the codes; parts (use_thousands, percent, comma, digit_count, precision, scientific flags, token list) compared with the model; non-trivial = no error part",
            modelled: true,
            gen: gen_parse,
            eval: eval_parse,
            exhaustive: never,
        },
        Suite {
            name: "c20-sci",
            rule: "scientific codes (21 codes: 0.00E+00, ##0.0E+0, 0E+00, E- variants, #/? exponent placeholders, literals, two sections, percent) x every locale x doubles incl. all 632 doubles nearest to a power of ten and their +-1,2 ulp neighbours, 9.99..5 carry patterns at every magnitude, subnormals, 1e308, f64::MAX; the model computes the full text bit-exactly (pow table regenerated from the running code; the libm log10 zone within 1e-11 of a power of ten answers 'unsupported' on both sides); oracle = round15 then half away to d+1 significant digits, exponent sign and padding (codes of the shape 0.0..E+-0..)",
            modelled: true,
            gen: gen_sci,
            eval: eval_sci,
            exhaustive: never,
        },
    ]
}
