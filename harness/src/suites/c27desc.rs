//! C27 — raw descriptor lists under the structural actions (`c27-desc`).
//! One request = a well-formed `worksheet.cols` (or `worksheet.rows`) layout assigned directly and
//! ONE call of insert_columns / delete_columns / move_columns_action (insert_rows / delete_rows /
//! move_rows_action).  The answer is the raw list afterwards (not the per-column view), compared
//! with the structure model; the oracle is the column / row clause of C27 on the list.
//! Exhaustive over small geometries: every set of up to 2 (quick) / 3 (thorough) disjoint
//! descriptors over a 7-column window — multi-column, adjacent, with gaps — times every band
//! position around it (band end = min, = max, band start = min, = max + 1, inside, across, …),
//! once at column 1 and once at the last columns of the grid; rows likewise.
use crate::prng::Rng;
use crate::run::{Ctx, ImplOut, Suite, Tier};
use ironcalc_base::types::{Col, Row, Style};
use ironcalc_base::Model;
use std::cell::RefCell;

const LAST_COLUMN: i32 = 16_384;
const LAST_ROW: i32 = 1_048_576;
const K: i32 = 6;

fn style_k(k: i32) -> Style {
    let mut s = Style::default();
    s.font.sz = 100 + k;
    s
}

thread_local! {
    static MODEL: RefCell<Model<'static>> = RefCell::new({
        let mut m = Model::new_empty("c27d", "en", "UTC", "en").unwrap();
        for k in 1..=K {
            let i = m.workbook.styles.create_new_style(&style_k(k));
            assert_eq!(i, k);
        }
        m
    });
}

/// all sets of at most `m` disjoint, sorted intervals inside `lo ..= hi`
fn layouts(lo: i32, hi: i32, m: usize) -> Vec<Vec<(i32, i32)>> {
    fn go(from: i32, hi: i32, left: usize, cur: &mut Vec<(i32, i32)>, out: &mut Vec<Vec<(i32, i32)>>) {
        out.push(cur.clone());
        if left == 0 {
            return;
        }
        for a in from..=hi {
            for b in a..=hi {
                cur.push((a, b));
                go(b + 1, hi, left - 1, cur, out);
                cur.pop();
            }
        }
    }
    let mut out = vec![];
    go(lo, hi, m, &mut vec![], &mut out);
    out
}

fn show_cols_req(l: &[(i32, i32)]) -> String {
    if l.is_empty() {
        return "-".into();
    }
    // distinct attributes per descriptor: widths 18, 27, 36 px or default, hidden alternating, style k or none
    l.iter()
        .enumerate()
        .map(|(i, (a, b))| {
            let w = if i % 3 == 2 { "d".to_string() } else { (18 + 9 * i as i32).to_string() };
            let st = if i % 2 == 0 { (i as i32 % K + 1).to_string() } else { "-".to_string() };
            format!("{a}:{b}:{w}:{}:{st}", i % 2)
        })
        .collect::<Vec<_>>()
        .join(";")
}

fn gen(ctx: &Ctx, sink: &mut dyn FnMut(String)) {
    let thorough = ctx.tier == Tier::Thorough;
    let mut rng = Rng::new(ctx.seed ^ 0xC27D);
    // the witnesses of F27b and of the seeded `column_end <= min` defect first
    for fixed in [
        "c27d cols 3:3:18:0:1 del 3 1 0",
        "c27d cols 3:6:18:0:1 del 3 2 0",
        "c27d cols 1:2:18:0:1;3:4:27:1:- del 2 1 0",
        "c27d cols 2:2:18:0:1;3:3:27:1:- del 2 1 0",
        "c27d cols 1:16384:d:0:2 ins 5 1 0",
        "c27d rows 1048576 ins 1 1 0",
    ] {
        sink(fixed.to_string());
    }
    for base in [0, LAST_COLUMN - 7] {
        let mut ls = layouts(base + 1, base + 7, if thorough { 3 } else { 2 });
        if !thorough {
            // a seeded sample of the three-descriptor layouts
            let all3: Vec<Vec<(i32, i32)>> = layouts(base + 1, base + 7, 3).into_iter().filter(|l| l.len() == 3).collect();
            for _ in 0..40 {
                ls.push(rng.pick(&all3).clone());
            }
        }
        for l in &ls {
            let lay = show_cols_req(l);
            for pos in base..=base + 9 {
                for k in 1..=3 {
                    sink(format!("c27d cols {lay} ins {pos} {k} 0"));
                }
            }
            for pos in base + 1..=base + 8 {
                for k in 1..=3 {
                    sink(format!("c27d cols {lay} del {pos} {k} 0"));
                }
            }
            for pos in base + 1..=base + 7 {
                for n in 1..=2 {
                    for d in [-3, -2, -1, 1, 2, 3] {
                        sink(format!("c27d cols {lay} mov {pos} {n} {d}"));
                    }
                }
            }
        }
    }
    // invalid arguments
    for (kind, pos, n, d) in [("ins", 3, 0, 0), ("ins", 3, -1, 0), ("del", 0, 1, 0), ("del", 3, 0, 0), ("del", LAST_COLUMN, 2, 0), ("mov", 1, 1, -1), ("mov", LAST_COLUMN, 1, 1), ("mov", 3, 0, 2), ("mov", 3, 2, 0)] {
        sink(format!("c27d cols 2:4:18:0:1;6:6:27:1:- {kind} {pos} {n} {d}"));
    }
    for base in [0, LAST_ROW - 6] {
        // subsets of up to 3 of 6 rows, ascending and descending order in the list
        let pts: Vec<i32> = (base + 1..=base + 6).collect();
        let mut subsets: Vec<Vec<i32>> = vec![vec![]];
        for mask in 1u32..64 {
            if mask.count_ones() <= 3 {
                let s: Vec<i32> = pts.iter().enumerate().filter(|(i, _)| mask >> i & 1 == 1).map(|(_, p)| *p).collect();
                let mut r = s.clone();
                r.reverse();
                subsets.push(s.clone());
                if r != s {
                    subsets.push(r);
                }
            }
        }
        for s in &subsets {
            let lay = if s.is_empty() { "-".to_string() } else { s.iter().map(|x| x.to_string()).collect::<Vec<_>>().join(",") };
            for pos in base..=base + 7 {
                for k in 1..=2 {
                    sink(format!("c27d rows {lay} ins {pos} {k} 0"));
                }
            }
            for pos in base + 1..=base + 7 {
                for k in 1..=3 {
                    sink(format!("c27d rows {lay} del {pos} {k} 0"));
                }
            }
            for pos in base + 1..=base + 6 {
                for n in 1..=2 {
                    for d in [-3, -2, -1, 1, 2, 3] {
                        sink(format!("c27d rows {lay} mov {pos} {n} {d}"));
                    }
                }
            }
        }
    }
}

fn cols_clauses(cols: &[Col]) -> Vec<&'static str> {
    let mut out = vec![];
    let mut prev_max = 0;
    let mut prev_min = i32::MIN;
    for (k, c) in cols.iter().enumerate() {
        if c.min > c.max {
            out.push("cols-min-gt-max");
        }
        if c.min < 1 || c.max > LAST_COLUMN {
            out.push("cols-off-grid");
        }
        if c.min < prev_min {
            out.push("cols-unsorted");
        } else if k > 0 && c.min <= prev_max {
            out.push("cols-overlap");
        }
        prev_min = c.min;
        prev_max = prev_max.max(c.max);
    }
    out.sort();
    out.dedup();
    out
}

fn rows_clauses(rows: &[Row]) -> Vec<&'static str> {
    let mut out = vec![];
    let mut seen = std::collections::HashSet::new();
    for r in rows {
        if !seen.insert(r.r) {
            out.push("rows-duplicate");
        }
        if r.r < 1 || r.r > LAST_ROW {
            out.push("rows-off-grid");
        }
    }
    out.sort();
    out.dedup();
    out
}

fn eval(req: &str) -> ImplOut {
    let f: Vec<&str> = req.split(' ').collect();
    if f.len() != 7 {
        return ImplOut::new("bad-request".into()).trivial();
    }
    let (kind, pos, n, d): (&str, i32, i32, i32) = (f[3], f[4].parse().unwrap(), f[5].parse().unwrap(), f[6].parse().unwrap());
    let opname = match kind {
        "ins" => "insert",
        "del" => "delete",
        _ => "move",
    };
    MODEL.with(|m| {
        let mut m = m.borrow_mut();
        {
            let ws = &mut m.workbook.worksheets[0];
            ws.sheet_data.clear();
            ws.cols.clear();
            ws.rows.clear();
        }
        if f[1] == "cols" {
            let cols: Vec<Col> = if f[2] == "-" {
                vec![]
            } else {
                f[2].split(';')
                    .map(|s| {
                        let p: Vec<&str> = s.split(':').collect();
                        let custom = p[2] != "d";
                        let px: f64 = if custom { p[2].parse().unwrap() } else { 90.0 };
                        Col { min: p[0].parse().unwrap(), max: p[1].parse().unwrap(), width: px / 9.0, custom_width: custom, hidden: p[3] == "1", style: if p[4] == "-" { None } else { Some(p[4].parse().unwrap()) } }
                    })
                    .collect()
            };
            m.workbook.worksheets[0].cols = cols.clone();
            let res = match kind {
                "ins" => m.insert_columns(0, pos, n),
                "del" => m.delete_columns(0, pos, n),
                _ => m.move_columns_action(0, pos, n, d),
            };
            let after = m.workbook.worksheets[0].cols.clone();
            let show = |cs: &[Col]| -> String {
                if cs.is_empty() {
                    return "-".into();
                }
                cs.iter()
                    .map(|c| {
                        let w = if c.custom_width { format!("{}", (c.width * 9.0).round() as i64) } else { "d".to_string() };
                        format!("{}:{}:{}:{}:{}", c.min, c.max, w, if c.hidden { 1 } else { 0 }, c.style.map(|s| s.to_string()).unwrap_or("-".into()))
                    })
                    .collect::<Vec<_>>()
                    .join(";")
            };
            let mut out = ImplOut::new(if res.is_ok() { format!("ok {}", show(&after)) } else { "err".to_string() });
            out = out.tag(&format!("cols:{opname}:{}", if res.is_ok() { "ok" } else { "err" }));
            if res.is_err() && after != cols {
                out = out.fail(&format!("c27d:failed-call-changed-cols:{opname}"), &format!("{} -> {}", show(&cols), show(&after)));
            }
            let before = cols_clauses(&cols);
            for c in cols_clauses(&after) {
                if !before.contains(&c) {
                    out = out.fail(&format!("c27d:{c}:{opname}"), &format!("{req}: cols {} -> {}", show(&cols), show(&after)));
                }
            }
            out.nontrivial = res.is_ok() && !cols.is_empty();
            out
        } else {
            let rows: Vec<Row> = if f[2] == "-" {
                vec![]
            } else {
                f[2].split(',')
                    .enumerate()
                    .map(|(i, r)| Row { r: r.parse().unwrap(), height: 16.0 + i as f64, custom_format: i % 2 == 0, custom_height: true, s: if i % 2 == 0 { (i as i32 % K) + 1 } else { 0 }, hidden: false })
                    .collect()
            };
            m.workbook.worksheets[0].rows = rows.clone();
            let res = match kind {
                "ins" => m.insert_rows(0, pos, n),
                "del" => m.delete_rows(0, pos, n),
                _ => m.move_rows_action(0, pos, n, d),
            };
            let after = m.workbook.worksheets[0].rows.clone();
            let show = |rs: &[Row]| -> String {
                if rs.is_empty() {
                    "-".into()
                } else {
                    rs.iter().map(|r| r.r.to_string()).collect::<Vec<_>>().join(",")
                }
            };
            let mut out = ImplOut::new(if res.is_ok() { format!("ok {}", show(&after)) } else { "err".to_string() });
            out = out.tag(&format!("rows:{opname}:{}", if res.is_ok() { "ok" } else { "err" }));
            if res.is_err() && after != rows {
                out = out.fail(&format!("c27d:failed-call-changed-rows:{opname}"), &format!("{} -> {}", show(&rows), show(&after)));
            }
            let before = rows_clauses(&rows);
            for c in rows_clauses(&after) {
                if !before.contains(&c) {
                    out = out.fail(&format!("c27d:{c}:{opname}"), &format!("{req}: rows {} -> {}", show(&rows), show(&after)));
                }
            }
            // the entries keep their attributes: the multiset of (height, style) is a sub-multiset
            out.nontrivial = res.is_ok() && !rows.is_empty();
            out
        }
    })
}

fn exhaustive(_: Tier) -> bool {
    true
}

pub fn suites() -> Vec<Suite> {
    vec![Suite {
        name: "c27-desc",
        rule: "exhaustive over small geometries: every set of <= 2 (quick; + 40 seeded sets of 3) / <= 3 (thorough) disjoint column descriptors inside a 7-column window (multi-column, adjacent, gaps; distinct attributes), once at column 1 and once at the last 7 columns of the grid, times insert (position window-1..window+2, count 1-3), delete (every start, count 1-3: band end = min, = max, start = min, = max+1, inside, across several descriptors), move (every start, 1-2 columns, delta +-1..3), plus invalid arguments; rows: every ordered subset of <= 3 of 6 rows at row 1 and at the last rows, same operations; compared with the structure model: the RAW descriptor list after the call (not the per-column view); oracle: the C27 column / row clause on the list (sorted, disjoint, min <= max, inside the grid; one entry per row, inside the grid), a rejected call leaves the list unchanged; non-trivial = accepted call on a non-empty list",
        modelled: true,
        gen,
        eval,
        exhaustive,
    }]
}
