//! C17 — sheet rename, move and duplicate preserve values.
//!  * `c17-ops`: random multi-sheet workbooks (cross-sheet references, references to nonexistent
//!    sheets — cells and ranges —, global and sheet-local defined names) under
//!    `rename_sheet_by_index` / `move_sheet` / `duplicate_sheet` / `delete_sheet`, at `Model` and
//!    `UserModel` level.  The request carries the workbook spec (for the implementation) and the
//!    stored formulas as trees (for the model driver; `eval` re-derives them from the real parser and
//!    answers `pre-mismatch` if they differ).  Compared with the driver: the name/id vectors and
//!    every stored formula re-parsed by the REAL parser against the new workbook (sheet prefix and
//!    resolved index / wrong, defined-name resolution).  Oracle (the property on the implementation):
//!    values unchanged, displayed references renamed exactly when they resolved to the renamed sheet,
//!    nonexistent-sheet references textually unchanged and still unresolved, the copy computes what
//!    its source computes.
use crate::prng::Rng;
use crate::proto::{hex, unhex};
use crate::run::{never, Ctx, ImplOut, Suite, Tier};
use ironcalc_base::expressions::lexer::LexerMode;
use ironcalc_base::expressions::parser::{new_parser_english, Node, Parser};
use ironcalc_base::expressions::types::CellReferenceRC;
use ironcalc_base::{Model, UserModel};
use std::collections::HashMap;
use std::panic::{catch_unwind, AssertUnwindSafe};

// ---------------------------------------------------------------------------------------------
// workbook spec

#[derive(Clone, Debug, Default)]
pub(crate) struct Spec {
    pub lang: String,
    pub locale: String,
    pub sheets: Vec<String>,
    /// (sheet, row, col, input)
    pub cells: Vec<(u32, i32, i32, String)>,
    /// (name, scope sheet index, formula)
    pub names: Vec<(String, Option<u32>, String)>,
}

impl Spec {
    pub fn encode(&self) -> String {
        let mut s = format!("L {} {}\n", self.lang, self.locale);
        for n in &self.sheets {
            s.push_str(&format!("S {}\n", hex(n)));
        }
        for (sh, r, c, t) in &self.cells {
            s.push_str(&format!("C {sh} {r} {c} {}\n", hex(t)));
        }
        for (n, sc, f) in &self.names {
            let sc = sc.map(|x| x.to_string()).unwrap_or("-".into());
            s.push_str(&format!("N {} {} {}\n", hex(n), sc, hex(f)));
        }
        hex(&s)
    }
    pub fn decode(h: &str) -> Option<Spec> {
        let text = unhex(h)?;
        let mut sp = Spec::default();
        for line in text.lines() {
            let f: Vec<&str> = line.split(' ').collect();
            match f[0] {
                "L" => {
                    sp.lang = f[1].into();
                    sp.locale = f[2].into();
                }
                "S" => sp.sheets.push(unhex(f[1])?),
                "C" => sp.cells.push((f[1].parse().ok()?, f[2].parse().ok()?, f[3].parse().ok()?, unhex(f[4])?)),
                "N" => sp.names.push((
                    unhex(f[1])?,
                    if f[2] == "-" { None } else { Some(f[2].parse().ok()?) },
                    unhex(f[3])?,
                )),
                _ => return None,
            }
        }
        Some(sp)
    }
    /// builds the real workbook; `Err` names the step that the implementation rejected
    pub fn build(&self) -> Result<Model<'static>, String> {
        let lang: &'static str = Box::leak(self.lang.clone().into_boxed_str());
        let locale: &'static str = Box::leak(self.locale.clone().into_boxed_str());
        let mut m = Model::new_empty("book", locale, "UTC", lang)?;
        // the default sheet gets a name no generator uses, the spec's sheets are added, then it goes
        m.rename_sheet_by_index(0, "\u{1}tmp").ok();
        if m.workbook.worksheets[0].name != "\u{1}tmp" {
            m.workbook.worksheets[0].name = "zz tmp zz".into();
        }
        for n in &self.sheets {
            m.add_sheet(n).map_err(|e| format!("add_sheet {n}: {e}"))?;
        }
        m.delete_sheet(0)?;
        for (sh, r, c, t) in &self.cells {
            m.set_user_input(*sh, *r, *c, t.clone()).map_err(|e| format!("input {t}: {e}"))?;
        }
        for (n, sc, f) in &self.names {
            m.new_defined_name(n, *sc, f).map_err(|e| format!("name {n} {f}: {e}"))?;
        }
        m.evaluate();
        Ok(m)
    }
}

// ---------------------------------------------------------------------------------------------
// trees

fn hx(s: &str) -> String {
    hex(s)
}
fn opt(s: &Option<String>) -> String {
    match s {
        Some(n) => hex(n),
        None => "~".into(),
    }
}

/// prefix serialisation of a parsed node; `resolved` adds what the reference / identifier resolved to
pub(crate) fn ser(node: &Node, resolved: bool, out: &mut Vec<String>) {
    use Node::*;
    let r = |k: &str, name: &Option<String>, idx: Option<u32>, payload: String, out: &mut Vec<String>| {
        if resolved {
            let i = idx.map(|x| x.to_string()).unwrap_or("!".into());
            out.push(format!("r{k}|{}|{}|{}", opt(name), i, hx(&payload)));
        } else {
            out.push(format!("r{k}|{}|{}", opt(name), hx(&payload)));
        }
    };
    let ident = |n: &str, res: &str, out: &mut Vec<String>| {
        if resolved {
            out.push(format!("i|{}|{}", hx(n), res));
        } else {
            out.push(format!("i|{}", hx(n)));
        }
    };
    let op = |tag: String, kids: Vec<&Node>, out: &mut Vec<String>| {
        out.push(format!("o|{}|{}", hx(&tag), kids.len()));
        for k in kids {
            ser(k, resolved, out);
        }
    };
    match node {
        ReferenceKind { sheet_name, sheet_index, absolute_row, absolute_column, row, column } => r(
            "c",
            sheet_name,
            Some(*sheet_index),
            format!("{absolute_row}{absolute_column}{row},{column}"),
            out,
        ),
        WrongReferenceKind { sheet_name, absolute_row, absolute_column, row, column } => {
            r("c", sheet_name, None, format!("{absolute_row}{absolute_column}{row},{column}"), out)
        }
        RangeKind {
            sheet_name, sheet_index, absolute_row1, absolute_column1, row1, column1,
            absolute_row2, absolute_column2, row2, column2,
        } => r(
            "g",
            sheet_name,
            Some(*sheet_index),
            format!("{absolute_row1}{absolute_column1}{row1},{column1}:{absolute_row2}{absolute_column2}{row2},{column2}"),
            out,
        ),
        WrongRangeKind {
            sheet_name, absolute_row1, absolute_column1, row1, column1,
            absolute_row2, absolute_column2, row2, column2,
        } => r(
            "g",
            sheet_name,
            None,
            format!("{absolute_row1}{absolute_column1}{row1},{column1}:{absolute_row2}{absolute_column2}{row2},{column2}"),
            out,
        ),
        DefinedNameKind((n, scope, _)) => {
            let res = match scope {
                None => "g".to_string(),
                Some(i) => i.to_string(),
            };
            ident(n, &res, out)
        }
        TableNameKind(n) => ident(n, "~", out),
        NamedVariableKind { name, .. } => ident(name, "~", out),
        BooleanKind(b) => out.push(format!("l|{}", hx(&format!("b{b}")))),
        NumberKind(x) => out.push(format!("l|{}", hx(&format!("n{x}")))),
        StringKind(s) => out.push(format!("l|{}", hx(&format!("s{s}")))),
        ErrorKind(e) => out.push(format!("l|{}", hx(&format!("e{e}")))),
        ParseErrorKind { .. } => out.push(format!("l|{}", hx("parse-error"))),
        ArrayKind(_) => out.push(format!("l|{}", hx("array"))),
        EmptyArgKind => out.push(format!("l|{}", hx("empty"))),
        OpRangeKind { left, right } => op("range".into(), vec![left, right], out),
        OpConcatenateKind { left, right } => op("&".into(), vec![left, right], out),
        OpSumKind { kind, left, right } => op(format!("{kind:?}"), vec![left, right], out),
        OpProductKind { kind, left, right } => op(format!("{kind:?}"), vec![left, right], out),
        OpPowerKind { left, right } => op("^".into(), vec![left, right], out),
        FunctionKind { kind, args } => op(format!("F{kind:?}"), args.iter().collect(), out),
        NamedFunctionKind { name, args, .. } => op(format!("NF{name}"), args.iter().collect(), out),
        CompareKind { kind, left, right } => op(format!("{kind:?}"), vec![left, right], out),
        UnaryKind { kind, right } => op(format!("{kind:?}"), vec![right], out),
        ImplicitIntersection { child, .. } => op("@".into(), vec![child], out),
        SpillRangeOperator { child } => op("#".into(), vec![child], out),
        LambdaDefKind { parameters, body } => op(format!("lambda{}", parameters.len()), vec![body], out),
        LambdaCallKind { lambda, args } => {
            let mut kids: Vec<&Node> = vec![lambda];
            kids.extend(args.iter());
            op("call".into(), kids, out)
        }
    }
}

pub(crate) fn ser_str(node: &Node, resolved: bool) -> String {
    let mut v = vec![];
    ser(node, resolved, &mut v);
    v.join(",")
}

fn parser_for<'a>(m: &Model) -> Parser<'a> {
    new_parser_english(m.workbook.get_worksheet_names(), m.workbook.get_defined_names_with_scope(), HashMap::new())
}

/// the stored formulas of every sheet, parsed as `parse_formulas` does (R1C1, English, the sheet as context)
pub(crate) fn parse_stored(m: &Model) -> Vec<Vec<Node>> {
    let mut p = parser_for(m);
    p.set_lexer_mode(LexerMode::R1C1);
    m.workbook
        .worksheets
        .iter()
        .map(|ws| {
            let ctx = CellReferenceRC { sheet: ws.get_name(), row: 1, column: 1 };
            ws.shared_formulas.iter().map(|f| p.parse(f, &ctx)).collect()
        })
        .collect()
}

/// the stored defined-name formulas, parsed as `parse_defined_names` does for non-reference formulas
/// (A1, English, first sheet A1 as context, leading '=' stripped)
pub(crate) fn parse_names(m: &Model) -> Vec<Node> {
    let mut p = parser_for(m);
    let ctx = CellReferenceRC {
        sheet: m.workbook.worksheets.first().map(|w| w.get_name()).unwrap_or_default(),
        row: 1,
        column: 1,
    };
    m.workbook
        .defined_names
        .iter()
        .map(|d| p.parse(d.formula.strip_prefix('=').unwrap_or(&d.formula), &ctx))
        .collect()
}

/// `sheets formulas names` for the request (resolved = false) or the answer (resolved = true)
pub(crate) fn state_str(m: &Model, resolved: bool) -> String {
    let sheets: Vec<String> =
        m.workbook.worksheets.iter().map(|w| format!("{}:{}", hex(&w.name), w.sheet_id)).collect();
    let forms: Vec<String> = parse_stored(m)
        .iter()
        .map(|fs| {
            if fs.is_empty() {
                "-".to_string()
            } else {
                fs.iter().map(|n| ser_str(n, resolved)).collect::<Vec<_>>().join(";")
            }
        })
        .collect();
    let pn = parse_names(m);
    let names: Vec<String> = m
        .workbook
        .defined_names
        .iter()
        .zip(pn.iter())
        .map(|(d, n)| {
            format!(
                "{}:{}:{}",
                hex(&d.name),
                d.sheet_id.map(|x| x.to_string()).unwrap_or("~".into()),
                ser_str(n, resolved)
            )
        })
        .collect();
    format!(
        "{} {} {}",
        sheets.join(","),
        forms.join("/"),
        if names.is_empty() { "-".to_string() } else { names.join(";") }
    )
}

// ---------------------------------------------------------------------------------------------
// observation of cells

#[derive(Clone, Debug, PartialEq)]
pub(crate) struct CellObs {
    pub sheet_id: u32,
    pub row: i32,
    pub col: i32,
    pub formula: Option<String>,
    pub value: String,
}

pub(crate) fn observe(m: &Model) -> Vec<CellObs> {
    let mut v = vec![];
    for (si, ws) in m.workbook.worksheets.iter().enumerate() {
        let mut coords: Vec<(i32, i32)> = vec![];
        for (r, cols) in &ws.sheet_data {
            for c in cols.keys() {
                coords.push((*r, *c));
            }
        }
        coords.sort();
        for (r, c) in coords {
            let formula = m.get_cell_formula(si as u32, r, c).unwrap_or(None);
            let value = format!("{:?}", m.get_cell_value_by_index(si as u32, r, c));
            v.push(CellObs { sheet_id: ws.sheet_id, row: r, col: c, formula, value });
        }
    }
    v
}

/// does the displayed formula read sheet names / formula text (outside the property's claim)?
pub(crate) fn reads_names(f: &str) -> bool {
    let u = f.to_uppercase();
    ["SHEET(", "SHEETS(", "CELL(", "FORMULATEXT(", "INDIRECT(", "HOJA(", "HOJAS("].iter().any(|k| u.contains(k))
}

/// all (kind, sheet_name, resolved index) of the references of a displayed formula, parsed by the real
/// parser against the given workbook; plus the shape with names blanked
fn refs_of_display(m: &Model, sheet: usize, row: i32, col: i32, text: &str) -> (Vec<(Option<String>, Option<u32>)>, String) {
    let mut p = Parser::new(
        m.workbook.get_worksheet_names(),
        m.workbook.get_defined_names_with_scope(),
        HashMap::new(),
        ironcalc_base::locale::get_locale(&m.get_locale()).unwrap(),
        ironcalc_base::language::get_language(&m.get_language()).unwrap(),
    );
    let ctx = CellReferenceRC { sheet: m.workbook.worksheets[sheet].get_name(), row, column: col };
    let node = p.parse(text.strip_prefix('=').unwrap_or(text), &ctx);
    let mut toks = vec![];
    ser(&node, true, &mut toks);
    let mut refs = vec![];
    let mut shape = vec![];
    for t in toks {
        let f: Vec<&str> = t.split('|').collect();
        if f[0] == "rc" || f[0] == "rg" {
            let name = if f[1] == "~" { None } else { unhex(f[1]) };
            let idx = f[2].parse::<u32>().ok();
            refs.push((name, idx));
            shape.push(format!("{}|{}", f[0], f[3]));
        } else if f[0] == "i" {
            shape.push(format!("i|{}", f[1]));
        } else {
            shape.push(t);
        }
    }
    (refs, shape.join(","))
}

// ---------------------------------------------------------------------------------------------
// operations

#[derive(Clone, Debug)]
pub(crate) enum Op {
    Rename(u32, String),
    Move(u32, u32),
    Dup(u32),
    Delete(u32),
}

impl Op {
    pub fn encode(&self) -> String {
        match self {
            Op::Rename(i, n) => format!("rename:{i}:{}", hex(n)),
            Op::Move(i, j) => format!("move:{i}:{j}"),
            Op::Dup(i) => format!("dup:{i}"),
            Op::Delete(i) => format!("delete:{i}"),
        }
    }
    pub fn decode(s: &str) -> Option<Op> {
        let f: Vec<&str> = s.split(':').collect();
        Some(match f[0] {
            "rename" => Op::Rename(f[1].parse().ok()?, unhex(f[2])?),
            "move" => Op::Move(f[1].parse().ok()?, f[2].parse().ok()?),
            "dup" => Op::Dup(f[1].parse().ok()?),
            "delete" => Op::Delete(f[1].parse().ok()?),
            _ => return None,
        })
    }
}

fn err_kind(e: &str) -> &'static str {
    if e.contains("Invalid name") {
        "invalidName"
    } else if e.contains("already exists") {
        "nameExists"
    } else if e.contains("Target") || e.contains("target") {
        "badTarget"
    } else if e.contains("only sheet") {
        "onlySheet"
    } else {
        "badIndex"
    }
}

pub(crate) enum Book {
    M(Model<'static>),
    U(UserModel<'static>),
}
impl Book {
    pub fn model(&self) -> &Model<'static> {
        match self {
            Book::M(m) => m,
            Book::U(u) => unsafe { std::mem::transmute::<&Model<'_>, &Model<'static>>(u.get_model()) },
        }
    }
    pub fn apply(&mut self, op: &Op) -> Result<(), String> {
        match (self, op) {
            (Book::M(m), Op::Rename(i, n)) => m.rename_sheet_by_index(*i, n),
            (Book::M(m), Op::Move(i, j)) => m.move_sheet(*i, *j),
            (Book::M(m), Op::Dup(i)) => m.duplicate_sheet(*i).map(|_| ()),
            (Book::M(m), Op::Delete(i)) => m.delete_sheet(*i),
            (Book::U(u), Op::Rename(i, n)) => u.rename_sheet(*i, n),
            (Book::U(u), Op::Move(i, j)) => u.move_sheet(*i, *j),
            (Book::U(u), Op::Dup(i)) => u.duplicate_sheet(*i),
            (Book::U(u), Op::Delete(i)) => u.delete_sheet(*i),
        }
    }
    pub fn evaluate(&mut self) {
        match self {
            Book::M(m) => m.evaluate(),
            Book::U(u) => u.evaluate(),
        }
    }
}

// ---------------------------------------------------------------------------------------------
// eval

fn eval_ops(req: &str) -> ImplOut {
    match catch_unwind(AssertUnwindSafe(|| eval_ops_inner(req))) {
        Ok(o) => o,
        Err(_) => ImplOut::new("panic".into()).fail("c17:panic", "the implementation panicked"),
    }
}

fn eval_ops_inner(req: &str) -> ImplOut {
    // c17 <op> <level> <spec> <sheets> <formulas> <names>
    let f: Vec<&str> = req.split(' ').collect();
    if f.len() != 7 {
        return ImplOut::new("bad-request".into());
    }
    let (op, spec) = match (Op::decode(f[1]), Spec::decode(f[3])) {
        (Some(o), Some(s)) => (o, s),
        _ => return ImplOut::new("bad-request".into()),
    };
    let model = match spec.build() {
        Ok(m) => m,
        Err(e) => return ImplOut::new(format!("build-failed {}", hex(&e))).trivial().tag("build-failed"),
    };
    // the trees the driver is given are the real parser's
    if state_str(&model, false) != format!("{} {} {}", f[4], f[5], f[6]) {
        return ImplOut::new("pre-mismatch".into()).tag("pre-mismatch");
    }
    let pre_resolved = state_str(&model, true);
    let kind_tags = node_kind_tags(&format!("{} {}", f[5], f[6]));
    let pre_obs = observe(&model);
    let pre_names: Vec<String> = model.workbook.worksheets.iter().map(|w| w.name.clone()).collect();
    let pre_ids: Vec<u32> = model.workbook.worksheets.iter().map(|w| w.sheet_id).collect();
    let pre_dn = model.workbook.defined_names.clone();
    // ghost prefixes (names of nonexistent sheets used by some formula or defined name)
    let mut ghosts: Vec<String> = vec![];
    for t in pre_resolved.split(|c| c == ',' || c == ';' || c == '/' || c == ' ' || c == ':') {
        let g: Vec<&str> = t.split('|').collect();
        if (g[0] == "rc" || g[0] == "rg") && g.len() == 4 && g[2] == "!" && g[1] != "~" {
            if let Some(n) = unhex(g[1]) {
                ghosts.push(n);
            }
        }
    }
    let mut book = if f[2] == "u" { Book::U(UserModel::from_model(model)) } else { Book::M(model) };
    let res = book.apply(&op);
    book.evaluate();
    let m = book.model();
    let mut out;
    let opname = f[1].split(':').next().unwrap_or("?");
    match &res {
        Err(e) => {
            out = ImplOut::new(format!("err {}", err_kind(e))).tag(&format!("{opname}:err:{}", err_kind(e)));
            // a failed operation changes nothing observable here
            if observe(m) != pre_obs || state_str(m, true) != pre_resolved {
                out = out.fail("c17:failed-op-changed-state", &format!("{op:?}: {e}"));
            }
            return out;
        }
        Ok(()) => {
            out = ImplOut::new(format!("ok {}", state_str(m, true))).tag(&format!("{opname}:ok"));
            for t in &kind_tags {
                out = out.tag(t);
            }
        }
    }
    let post_obs = observe(m);
    let post_names: Vec<String> = m.workbook.worksheets.iter().map(|w| w.name.clone()).collect();
    let post_ids: Vec<u32> = m.workbook.worksheets.iter().map(|w| w.sheet_id).collect();
    let idx_of = |ids: &Vec<u32>, id: u32| ids.iter().position(|x| *x == id);
    // which new names can capture a ghost reference
    let created: Vec<String> = post_names.iter().filter(|n| !pre_names.contains(n)).cloned().collect();
    let capture = created.iter().any(|n| ghosts.contains(n));
    if capture {
        out = out.tag("ghost-capture");
    }
    if !ghosts.is_empty() {
        out = out.tag("has-ghost-refs");
    }
    let renamed_id: Option<u32> = match &op {
        Op::Rename(i, _) => pre_ids.get(*i as usize).copied(),
        _ => None,
    };
    let deleted_id: Option<u32> = match &op {
        Op::Delete(i) => pre_ids.get(*i as usize).copied(),
        _ => None,
    };
    // a defined name that spells an existing sheet in another case (finding F32c): the name machinery
    // finds the sheet ignoring case, the formula parser does not, so a rename does not follow
    let case_variant_name = pre_dn.iter().any(|d| {
        let fu = d.formula.to_uppercase();
        pre_names.iter().any(|sh| {
            let q = sh.replace('\'', "''");
            fu.contains(&q.to_uppercase()) && !d.formula.contains(&q)
        })
    });
    if case_variant_name {
        out = out.tag("name-with-case-variant-prefix");
    }
    // 1. every pre-existing cell: value and displayed references
    for po in &pre_obs {
        if Some(po.sheet_id) == deleted_id {
            continue;
        }
        let qo = match post_obs.iter().find(|q| q.sheet_id == po.sheet_id && q.row == po.row && q.col == po.col) {
            Some(q) => q,
            None => {
                out = out.fail(&format!("c17:{opname}:cell-lost"), &format!("{po:?}"));
                continue;
            }
        };
        let excluded = po.formula.as_deref().map(reads_names).unwrap_or(false);
        if excluded {
            out = out.tag("excluded-reads-names");
        }
        if po.value != qo.value && !excluded && !capture && deleted_id.is_none() {
            out = out.fail(
                &(if case_variant_name && opname == "rename" {
                    "c17:rename:case-variant-prefix-in-name".to_string()
                } else {
                    format!("c17:{opname}:value-changed")
                }),
                &format!("sheet id {} R{}C{} {:?}: {} -> {} (now {:?})", po.sheet_id, po.row, po.col, po.formula, po.value, qo.value, qo.formula),
            );
        }
        if let (Some(pf), Some(qf)) = (&po.formula, &qo.formula) {
            // the displayed text, read back by the parser before/after
            let ps = idx_of(&pre_ids, po.sheet_id).unwrap();
            let qs = idx_of(&post_ids, po.sheet_id).unwrap();
            // pre-state is gone; reparse the pre text against the pre name vector with a plain parser
            let (prefs, pshape) = refs_of_display_names(&pre_names, &pre_dn, &pre_ids, ps, po.row, po.col, pf);
            let (qrefs, qshape) = refs_of_display(m, qs, po.row, po.col, qf);
            if pshape != qshape || prefs.len() != qrefs.len() {
                if deleted_id.is_none() {
                    out = out.fail(&format!("c17:{opname}:formula-shape-changed"), &format!("{pf} -> {qf}"));
                }
                continue;
            }
            for ((pn, pi), (qn, qi)) in prefs.iter().zip(qrefs.iter()) {
                let pid = pi.and_then(|i| pre_ids.get(i as usize).copied());
                let qid = qi.and_then(|i| post_ids.get(i as usize).copied());
                match pid {
                    Some(id) if Some(id) == deleted_id => {}
                    Some(id) => {
                        if qid != Some(id) {
                            out = out.fail(
                                &format!("c17:{opname}:resolution-changed"),
                                &format!("{pf} -> {qf}: reference to sheet id {id} now {qid:?}"),
                            );
                        }
                        let want = if Some(id) == renamed_id && pn.is_some() {
                            match &op {
                                Op::Rename(_, n) => Some(n.clone()),
                                _ => pn.clone(),
                            }
                        } else {
                            pn.clone()
                        };
                        if *qn != want {
                            out = out.fail(
                                &format!("c17:{opname}:displayed-name"),
                                &format!("{pf} -> {qf}: shows {qn:?}, expected {want:?}"),
                            );
                        }
                    }
                    None => {
                        // a reference to a nonexistent sheet: text unchanged; still unresolved unless its
                        // sheet was just created by this very operation
                        if qn != pn {
                            out = out.fail(
                                &format!("c17:{opname}:ghost-ref-text-changed"),
                                &format!("{pf} -> {qf}: {pn:?} became {qn:?}"),
                            );
                        } else if qid.is_some() && !pn.as_ref().map(|n| created.contains(n)).unwrap_or(false) {
                            out = out.fail(
                                &format!("c17:{opname}:ghost-ref-resolves"),
                                &format!("{pf} -> {qf}: {pn:?} now resolves to {qid:?}"),
                            );
                        }
                    }
                }
            }
        }
    }
    // 2. duplicate: the copy computes what its source computes
    if let Op::Dup(i) = &op {
        let src_id = pre_ids[*i as usize];
        let new_id = post_ids.iter().find(|x| !pre_ids.contains(x)).copied();
        if let Some(new_id) = new_id {
            if idx_of(&post_ids, new_id) != Some(*i as usize + 1) {
                out = out.fail("c17:dup:position", &format!("{post_ids:?}"));
            }
            let src: Vec<&CellObs> = post_obs.iter().filter(|c| c.sheet_id == src_id).collect();
            let cp: Vec<&CellObs> = post_obs.iter().filter(|c| c.sheet_id == new_id).collect();
            if src.len() != cp.len() {
                out = out.fail("c17:dup:cells-differ", &format!("{} vs {}", src.len(), cp.len()));
            }
            for s in src {
                if let Some(c) = cp.iter().find(|c| c.row == s.row && c.col == s.col) {
                    let excluded = s.formula.as_deref().map(reads_names).unwrap_or(false);
                    if c.value != s.value && !excluded && !capture {
                        out = out.fail(
                            "c17:dup:copy-value-differs",
                            &format!("R{}C{} source {:?} = {}, copy {:?} = {}", s.row, s.col, s.formula, s.value, c.formula, c.value),
                        );
                    }
                } else {
                    out = out.fail("c17:dup:cell-missing", &format!("{s:?}"));
                }
            }
        } else {
            out = out.fail("c17:dup:no-new-sheet", "");
        }
    }
    out
}

/// which composite node kinds occur in the stored formulas / names of a request (distribution histogram)
pub(crate) fn node_kind_tags(trees: &str) -> Vec<String> {
    let mut v: Vec<String> = vec![];
    for t in trees.split(|c| c == ',' || c == ';' || c == '/' || c == ' ' || c == ':') {
        let g: Vec<&str> = t.split('|').collect();
        if g[0] == "o" && g.len() == 3 {
            let tag = unhex(g[1]).unwrap_or_default();
            let k = if tag.starts_with("NF") {
                "unknown-call".to_string()
            } else if tag.starts_with('F') {
                "call".to_string()
            } else if tag.starts_with("lambda") {
                "lambda-def".to_string()
            } else if tag == "call" {
                "lambda-call".to_string()
            } else if tag == "range" {
                "range-operator".to_string()
            } else {
                tag
            };
            let k = format!("kind:{k}");
            if !v.contains(&k) {
                v.push(k);
            }
        }
    }
    v
}

/// as `refs_of_display`, for the workbook before the operation (only its names/ids/defined names are left)
fn refs_of_display_names(
    names: &[String],
    dn: &[ironcalc_base::types::DefinedName],
    ids: &[u32],
    sheet: usize,
    row: i32,
    col: i32,
    text: &str,
) -> (Vec<(Option<String>, Option<u32>)>, String) {
    let dns = dn
        .iter()
        .map(|d| {
            (d.name.clone(), d.sheet_id.and_then(|id| ids.iter().position(|x| *x == id)).map(|p| p as u32), d.formula.clone())
        })
        .collect();
    let mut p = new_parser_english(names.to_vec(), dns, HashMap::new());
    let ctx = CellReferenceRC { sheet: names[sheet].clone(), row, column: col };
    let node = p.parse(text.strip_prefix('=').unwrap_or(text), &ctx);
    let mut toks = vec![];
    ser(&node, true, &mut toks);
    let mut refs = vec![];
    let mut shape = vec![];
    for t in toks {
        let f: Vec<&str> = t.split('|').collect();
        if f[0] == "rc" || f[0] == "rg" {
            let name = if f[1] == "~" { None } else { unhex(f[1]) };
            refs.push((name, f[2].parse::<u32>().ok()));
            shape.push(format!("{}|{}", f[0], f[3]));
        } else if f[0] == "i" {
            shape.push(format!("i|{}", f[1]));
        } else {
            shape.push(t);
        }
    }
    (refs, shape.join(","))
}

// ---------------------------------------------------------------------------------------------
// generators

pub(crate) const SHEET_POOL: &[&str] = &[
    "Sheet1", "Data", "Data (1)", "My Sheet", "Q1-2024", "x", "Summary", "it's", "données", "日本", "A.B", "Sheet 2 (1)",
    "abcdefghijklmnopqrstuvwxyz01234", "abcdefghijklmnopqrstuvwxyz (9)", "1st", "R1C1", "A1", "TRUE", "Hoja1", "s p a c e",
];
pub(crate) const GHOSTS: &[&str] = &["Ghost", "No Such", "data", "SHEET1", "Old"];

pub(crate) fn quote(n: &str) -> String {
    let plain = n.chars().all(|c| c.is_ascii_alphanumeric() || c == '_')
        && !n.chars().next().map(|c| c.is_ascii_digit()).unwrap_or(true)
        && !looks_like_ref(n);
    if plain {
        n.to_string()
    } else {
        format!("'{}'", n.replace('\'', "''"))
    }
}
fn looks_like_ref(n: &str) -> bool {
    let u = n.to_uppercase();
    u == "TRUE" || u == "FALSE" || {
        let letters: String = u.chars().take_while(|c| c.is_ascii_alphabetic()).collect();
        let rest = &u[letters.len()..];
        (!letters.is_empty() && letters.len() <= 3 && !rest.is_empty() && rest.chars().all(|c| c.is_ascii_digit()))
            || u.starts_with('R') || u.starts_with('C')
    }
}

/// Context of the deep expression generator.
pub(crate) struct DeepEnv<'a> {
    pub sheets: &'a [String],
    pub own: usize,
    pub sum: &'a str,
    pub iff: &'a str,
    pub sep: &'a str,
    /// spellings of reference-valued defined names (no LAMBDA names)
    pub names: Vec<String>,
}

fn deep_prefix(rng: &mut Rng, e: &DeepEnv) -> String {
    match rng.below(10) {
        0 => String::new(),
        1 => {
            let g: &str = *rng.pick(GHOSTS);
            format!("{}!", quote(g))
        }
        2 => format!("{}!", quote(&e.sheets[e.own])),
        _ => {
            let g: String = rng.pick(e.sheets).clone();
            format!("{}!", quote(&g))
        }
    }
}
fn deep_cell(rng: &mut Rng) -> String {
    let c = ["A", "B"][rng.below(2) as usize];
    let r = rng.range(1, 3);
    match rng.below(4) {
        0 => format!("${c}${r}"),
        1 => format!("{c}${r}"),
        _ => format!("{c}{r}"),
    }
}
fn deep_ref(rng: &mut Rng, e: &DeepEnv) -> String {
    format!("{}{}", deep_prefix(rng, e), deep_cell(rng))
}
/// a sheet-QUALIFIED reference (the right operand of a ':' operator must not glue to its left neighbour)
fn deep_qref(rng: &mut Rng, e: &DeepEnv) -> String {
    let g: String = rng.pick(e.sheets).clone();
    format!("{}!{}", quote(&g), deep_cell(rng))
}
fn deep_range(rng: &mut Rng, e: &DeepEnv) -> String {
    format!("{}A1:{}", deep_prefix(rng, e), ["B2", "A3", "$B$3", "B1"][rng.below(4) as usize])
}

/// a term: something that needs no parentheses as an operand of any operator.
/// Every node kind of `parser::Node` that has children occurs, with sheet references in every child
/// position: function arguments at each index (also behind empty arguments, in nested calls and in
/// unknown functions), both operands of the ':' operator between sub-expressions (`OpRangeKind`),
/// `@` (ImplicitIntersection), `#` (SpillRangeOperator), unary minus and percent, LAMBDA bodies,
/// LAMBDA call arguments.
pub(crate) fn deep_term(rng: &mut Rng, d: u32, e: &DeepEnv) -> String {
    let sep = e.sep;
    if d == 0 {
        return match rng.below(6) {
            0 => format!("{}", rng.range(1, 9)),
            1 if !e.names.is_empty() => e.names[rng.below(e.names.len() as u64) as usize].clone(),
            _ => deep_ref(rng, e),
        };
    }
    match rng.below(13) {
        0 => deep_ref(rng, e),
        1 => format!("-{}", deep_ref(rng, e)),
        2 => format!("{}%", deep_ref(rng, e)),
        3 => {
            // SUM with 1..3 arguments, the reference-carrying one at a random position
            let n = rng.range(1, 3);
            let args: Vec<String> = (0..n)
                .map(|_| if rng.chance(1, 3) { deep_range(rng, e) } else { deep_expr(rng, d - 1, e) })
                .collect();
            format!("{}({})", e.sum, args.join(sep))
        }
        4 => {
            // IF with every argument position, sometimes an empty argument in front of the reference
            match rng.below(3) {
                0 => format!("{}({}{sep}{}{sep}{})", e.iff, deep_expr(rng, d - 1, e), deep_expr(rng, d - 1, e), deep_expr(rng, d - 1, e)),
                1 => format!("{}({}{sep}{sep}{})", e.iff, deep_expr(rng, d - 1, e), deep_expr(rng, d - 1, e)),
                _ => format!("{}({}>{}{sep}{})", e.iff, deep_term(rng, d - 1, e), deep_term(rng, d - 1, e), deep_expr(rng, d - 1, e)),
            }
        }
        5 | 6 => {
            // the ':' operator between sub-expressions: left operand a call (a bare reference would glue),
            // right operand a call or a qualified reference
            let l = format!("{}(1{sep}{}{sep}{})", e.iff, deep_ref(rng, e), deep_ref(rng, e));
            let r = if rng.chance(1, 2) {
                format!("{}(1{sep}{}{sep}{})", e.iff, deep_ref(rng, e), deep_ref(rng, e))
            } else {
                deep_qref(rng, e)
            };
            format!("{}({l}:{r})", e.sum)
        }
        7 => format!("@{}", deep_range(rng, e)),
        8 => format!("{}#", deep_ref(rng, e)),
        9 => {
            // LAMBDA definition called in place: body and call arguments carry references
            format!(
                "LAMBDA(p{sep}q{sep}p+q*{})({}{sep}{})",
                deep_term(rng, d - 1, e),
                deep_expr(rng, d - 1, e),
                deep_term(rng, d - 1, e)
            )
        }
        10 => format!("FOOBAR({}{sep}{})", deep_expr(rng, d - 1, e), deep_expr(rng, d - 1, e)),
        11 => format!("{}({}({}){sep}{})", e.sum, e.sum, deep_range(rng, e), deep_term(rng, d - 1, e)),
        _ => deep_range(rng, e).replace("A1:", "A2:"),
    }
}

/// an expression: one term, or two terms under a binary operator (no nesting that needs parentheses)
pub(crate) fn deep_expr(rng: &mut Rng, d: u32, e: &DeepEnv) -> String {
    let a = deep_term(rng, d, e);
    match rng.below(9) {
        0 => a,
        1 => format!("{a}+{}", deep_term(rng, d, e)),
        2 => format!("{a}-{}", deep_term(rng, d, e)),
        3 => format!("{a}*{}", deep_term(rng, d, e)),
        4 => format!("{a}/{}", deep_term(rng, d, e)),
        5 => format!("{}^{}", deep_ref(rng, e), deep_ref(rng, e)),
        6 => format!("{a}&{}", deep_term(rng, d, e)),
        7 => format!("{a}{}{}", ["=", "<", ">=", "<>"][rng.below(4) as usize], deep_term(rng, d, e)),
        _ => a,
    }
}

pub(crate) fn gen_spec(rng: &mut Rng, lang: &str, locale: &str) -> Spec {
    gen_spec_with(rng, lang, locale, false)
}

/// `pair`: the second sheet is named like the first duplicate candidate of the first sheet (in another
/// ASCII case half of the time), so that duplicating sheet 0 has to skip a taken candidate
pub(crate) fn gen_spec_with(rng: &mut Rng, lang: &str, locale: &str, pair: bool) -> Spec {
    let n_sheets = rng.range(2, 5) as usize;
    let mut sheets: Vec<String> = vec![];
    if pair {
        let base = ["Data", "My Sheet", "x", "abcdefghijklmnopqrstuvwxyz01234"][rng.below(4) as usize].to_string();
        let cand: String = if base.chars().count() + 4 > 31 {
            format!("{} (1)", base.chars().take(27).collect::<String>())
        } else {
            format!("{base} (1)")
        };
        sheets.push(base);
        sheets.push(if rng.chance(1, 2) { cand.to_ascii_lowercase() } else { cand });
    }
    while sheets.len() < n_sheets {
        let c = rng.pick(SHEET_POOL).to_string();
        if !sheets.iter().any(|s| s.to_uppercase() == c.to_uppercase()) {
            sheets.push(c);
        }
    }
    let sep = if locale == "en" { "," } else { ";" };
    let mut sp = Spec { lang: lang.into(), locale: locale.into(), sheets: sheets.clone(), cells: vec![], names: vec![] };
    // data
    for s in 0..n_sheets {
        for r in 1..=3 {
            for c in 1..=2 {
                if rng.chance(4, 5) {
                    sp.cells.push((s as u32, r, c, format!("{}", rng.range(1, 50) + (s as i64) * 100)));
                }
            }
        }
    }
    // localized function names
    let sum = match lang {
        "es" => "SUMA",
        "fr" => "SOMME",
        "de" => "SUMME",
        "it" => "SOMMA",
        _ => "SUM",
    };
    let iff = match lang {
        "es" => "SI",
        "fr" => "SI",
        "de" => "WENN",
        "it" => "SE",
        _ => "IF",
    };
    // defined names
    let name_pool = ["total", "rate", "Zed", "in_put", "lam"];
    let n_names = rng.below(4) as usize;
    for k in 0..n_names {
        // mostly distinct spellings; sometimes the same spelling again in another scope (shadowing)
        let name = if k > 0 && rng.chance(1, 3) { sp.names[0].0.clone() } else { name_pool[k].to_string() };
        let name = if rng.chance(1, 6) { name.to_uppercase() } else { name };
        let scope = if rng.chance(1, 2) { None } else { Some(rng.below(n_sheets as u64) as u32) };
        if sp.names.iter().any(|(n, s, _)| n.to_uppercase() == name.to_uppercase() && *s == scope) {
            continue;
        }
        let target = if rng.chance(1, 8) { rng.pick(GHOSTS).to_string() } else { rng.pick(&sheets).clone() };
        let formula = if name.to_lowercase() == "lam" {
            let env = DeepEnv { sheets: &sheets, own: 0, sum, iff, sep, names: vec![] };
            if rng.chance(1, 2) {
                {
                    let d = 1 + rng.below(2) as u32;
                    format!("=LAMBDA(x{sep}x+{})", deep_term(rng, d, &env))
                }
            } else {
                format!("=LAMBDA(x{sep}x+{}!$A$1)", quote(&target))
            }
        } else if rng.chance(1, 2) {
            format!("{}!$A$1", quote(&target))
        } else {
            format!("{}!$A$1:$B$2", quote(&target))
        };
        sp.names.push((name, scope, formula));
    }
    // formulas
    for s in 0..n_sheets {
        let n_f = rng.range(1, 5);
        for k in 0..n_f {
            let mut prefix = |rng: &mut Rng| -> String {
                match rng.below(10) {
                    0 | 1 => String::new(),
                    2 => { let g: &str = *rng.pick(GHOSTS); format!("{}!", quote(g)) }
                    3 => format!("{}!", quote(&sheets[s])),
                    _ => { let g: String = rng.pick(&sheets[..]).clone(); format!("{}!", quote(&g)) }
                }
            };
            let cell = |rng: &mut Rng| -> String {
                let c = ["A", "B"][rng.below(2) as usize];
                let r = rng.range(1, 3);
                match rng.below(4) {
                    0 => format!("${c}${r}"),
                    1 => format!("${c}{r}"),
                    _ => format!("{c}{r}"),
                }
            };
            let rf = |rng: &mut Rng, prefix: &mut dyn FnMut(&mut Rng) -> String| format!("{}{}", prefix(rng), cell(rng));
            let rg = |rng: &mut Rng, prefix: &mut dyn FnMut(&mut Rng) -> String| {
                format!("{}A1:{}", prefix(rng), ["B2", "A3", "$B$3", "B1"][rng.below(4) as usize])
            };
            let deep_names: Vec<String> =
                sp.names.iter().filter(|(n, _, _)| n.to_lowercase() != "lam").map(|(n, _, _)| n.clone()).collect();
            let env = DeepEnv { sheets: &sheets, own: s, sum, iff, sep, names: deep_names };
            let text = match rng.below(14) {
                9..=13 => {
                    let d = 1 + rng.below(3) as u32;
                    format!("={}", deep_expr(rng, d, &env))
                }
                0 => format!("={}", rf(rng, &mut prefix)),
                1 => format!("={}+{}", rf(rng, &mut prefix), rf(rng, &mut prefix)),
                2 => format!("={sum}({})", rg(rng, &mut prefix)),
                3 => format!("={sum}({}{sep}{})*2", rg(rng, &mut prefix), rf(rng, &mut prefix)),
                4 => format!("={iff}({}>10{sep}{}{sep}{sum}({}))", rf(rng, &mut prefix), rf(rng, &mut prefix), rg(rng, &mut prefix)),
                5 => {
                    if sp.names.is_empty() {
                        format!("=-{}", rf(rng, &mut prefix))
                    } else {
                        let n = &sp.names[rng.below(sp.names.len() as u64) as usize].0;
                        if n.to_lowercase() == "lam" {
                            format!("=lam({})", rf(rng, &mut prefix))
                        } else {
                            format!("={sum}({n}{sep}{})+{n}", rf(rng, &mut prefix))
                        }
                    }
                }
                6 => format!("={}&\"x\"&{}", rf(rng, &mut prefix), rf(rng, &mut prefix)),
                7 => format!("={sum}({}{sep}{})", rg(rng, &mut prefix), rg(rng, &mut prefix)),
                _ => format!("={}*{}-{sum}({})", rf(rng, &mut prefix), rf(rng, &mut prefix), rg(rng, &mut prefix)),
            };
            sp.cells.push((s as u32, 5 + k as i32, 1 + (k % 3) as i32, text));
        }
    }
    sp
}

fn gen_new_name(rng: &mut Rng, sp: &Spec, i: usize) -> String {
    match rng.below(16) {
        0 => String::new(),
        1 => "bad[name]".into(),
        2 => "a".repeat(32),
        3 => "with:colon".into(),
        4 => sp.sheets[(i + 1) % sp.sheets.len()].to_ascii_uppercase(), // taken by another sheet (other ASCII case)
        5 => sp.sheets.get(i).map(|s| s.to_ascii_lowercase()).unwrap_or("q".into()), // ASCII case variant of itself
        6 => sp.sheets.get(i).cloned().unwrap_or("q".into()),      // same name
        7 => rng.pick(GHOSTS).to_string(),                          // captures ghost references
        8 => "z".repeat(31),
        9 => "New Name".into(),
        10 => "Año 2024 (b)".into(),
        11 => "R2C2".into(),
        _ => {
            let c = rng.pick(SHEET_POOL).to_string();
            if sp.sheets.iter().any(|s| s.to_uppercase() == c.to_uppercase()) {
                format!("{c}_{}", rng.below(100))
            } else {
                c
            }
        }
    }
}

fn gen_ops(ctx: &Ctx, sink: &mut dyn FnMut(String)) {
    let mut rng = Rng::new(ctx.seed ^ 0xC17);
    let n = if ctx.tier == Tier::Quick { 600 } else { 6_000 };
    // the confirmed witness of F17a first
    let w = Spec {
        lang: "en".into(),
        locale: "en".into(),
        sheets: vec!["Sheet1".into(), "Other".into()],
        cells: vec![(0, 1, 1, "=SUM(Ghost!A1:A2)".into()), (0, 2, 1, "=Ghost!A1".into()), (0, 3, 1, "=Other!A1+1".into())],
        names: vec![],
    };
    emit(&w, &Op::Rename(1, "Renamed".into()), "m", sink);
    emit(&w, &Op::Dup(0), "u", sink);
    // regression corpus: the renamed sheet referenced from BOTH operands of a ':' operator between calls
    // (OpRangeKind), under @, #, unary operators, in every argument position, in a LAMBDA body and call
    let w2 = Spec {
        lang: "en".into(),
        locale: "en".into(),
        sheets: vec!["Sheet1".into(), "Sheet2".into()],
        cells: vec![
            (1, 1, 1, "1".into()),
            (1, 2, 1, "2".into()),
            (1, 3, 1, "3".into()),
            (0, 1, 1, "=SUM(OFFSET(Sheet2!A1,0,0):OFFSET(Sheet2!A1,2,0))".into()),
            (0, 2, 1, "=SUM(IF(1,Sheet2!A1,Sheet2!A2):Sheet2!A3)".into()),
            (0, 3, 1, "=-Sheet2!A1+Sheet2!A2%+SUM(@Sheet2!A1:A3)".into()),
            (0, 4, 1, "=IF(Sheet2!A1>Sheet2!A2,,Sheet2!A3)&Sheet2!A1^Sheet2!A2".into()),
            (0, 5, 1, "=LAMBDA(p,q,p+q*Sheet2!A2)(Sheet2!A1,Sheet2!A3)".into()),
            (0, 6, 1, "=FOOBAR(1,Sheet2!A1)+SUM(1,SUM(2,Sheet2!A1:A3))".into()),
            (0, 7, 1, "=Sheet2!A1#".into()),
            (1, 5, 1, "=SUM(OFFSET(Sheet2!A1,0,0):OFFSET(A1,2,0))".into()),
        ],
        names: vec![("lam".into(), None, "=LAMBDA(x,x+SUM(IF(1,Sheet2!A1,Sheet2!A2):IF(1,Sheet2!A2,Sheet2!A3)))".into())],
    };
    emit(&w2, &Op::Rename(1, "Data".into()), "m", sink);
    emit(&w2, &Op::Rename(1, "My Data".into()), "u", sink);
    emit(&w2, &Op::Dup(1), "m", sink);
    emit(&w2, &Op::Move(1, 0), "u", sink);
    for k in 0..n {
        if k % 25 == 0 {
            // duplicate a sheet whose first candidate name is taken
            let sp = gen_spec_with(&mut rng, "en", "en", true);
            emit(&sp, &Op::Dup(0), if k % 50 == 0 { "m" } else { "u" }, sink);
        }
        let sp = gen_spec(&mut rng, "en", "en");
        let ns = sp.sheets.len() as u64;
        let i = rng.below(ns + 1) as u32; // sometimes out of range
        let op = match rng.below(10) {
            0..=4 => Op::Rename(i, gen_new_name(&mut rng, &sp, i as usize)),
            5 | 6 => Op::Move(i, rng.below(ns + 1) as u32),
            _ => Op::Dup(i),
        };
        let level = if rng.chance(1, 2) { "m" } else { "u" };
        emit(&sp, &op, level, sink);
    }
}

pub(crate) fn emit(sp: &Spec, op: &Op, level: &str, sink: &mut dyn FnMut(String)) {
    emit_with(sp, "c17", &op.encode(), level, "", sink)
}

/// `<suite> <op> <level> <spec> <sheets> <formulas> <names><extra>`; nothing is emitted when the
/// implementation refuses to build the workbook
pub(crate) fn emit_with(sp: &Spec, suite: &str, op: &str, level: &str, extra: &str, sink: &mut dyn FnMut(String)) {
    if let Ok(m) = sp.build() {
        sink(format!("{suite} {op} {level} {} {}{extra}", sp.encode(), state_str(&m, false)));
    }
}

pub fn suites() -> Vec<Suite> {
    vec![Suite {
        name: "c17-ops",
        rule: "random workbooks of 2-5 sheets (names from a pool incl. names needing quotes, 31 characters, non-ASCII, reference look-alikes), 6 data cells and 1-5 formulas per sheet over 9 templates with implicit / own-sheet / other-sheet / nonexistent-sheet prefixes (cells and ranges), 0-4 global or sheet-local defined names (cell, range, LAMBDA; some on nonexistent sheets); one rename (valid, invalid, taken, case variant, ghost-capturing names) / move / duplicate per case incl. out-of-range indices; Model and UserModel level; non-trivial = the workbook was built and the operation was applied or rejected; distinct by request",
        modelled: true,
        gen: gen_ops,
        eval: eval_ops,
        exhaustive: never,
    }]
}
