//! C11 — text inputs never crash the engine.
//!  * `c11-crash`  : the crash oracle. Strings from four streams (random Unicode, grammar-derived formulas,
//!                   byte/char/token-level mutations of valid formulas and format codes, number-like corpora)
//!                   are fed under `catch_unwind` to `Parser::parse` (A1 and R1C1), `formula_completion` at
//!                   every cursor, `cycle_reference` at every (start, end), `format_number` with finite and
//!                   non-finite values, `Model::set_user_input` and `UserModel::set_user_input`, in every
//!                   language / locale. A panic hook records the panic location; the signature of a failure
//!                   is `c11:panic:<op>:<file>:<line>` (`c11:overflow:…` for arithmetic-overflow panics, which
//!                   exist only in builds with overflow checks — the harness is built with them).
//!  * `c11-kernels`: normal outputs of index kernels that are reachable on their own
//!                   (`parse_reference_r1c1`, string-literal lexing) against the checked Lean model.
use crate::prng::Rng;
use crate::proto::{hex, unhex};
use crate::run::{never, Ctx, ImplOut, Suite, Tier};
use crate::suites::c20;
use ironcalc_base::expressions::lexer::{Lexer, LexerMode};
use ironcalc_base::expressions::parser::Parser;
use ironcalc_base::expressions::token::TokenType;
use ironcalc_base::expressions::types::CellReferenceRC;
use ironcalc_base::expressions::utils::parse_reference_r1c1;
use ironcalc_base::formatter::format::format_number;
use ironcalc_base::language::get_language;
use ironcalc_base::locale::get_locale;
use ironcalc_base::{Model, UserModel};
use std::cell::RefCell;
use std::collections::HashMap;
use std::panic::{catch_unwind, AssertUnwindSafe};
use std::sync::{Mutex, Once};

static HOOK: Once = Once::new();
static LAST_PANIC: Mutex<Option<(String, String)>> = Mutex::new(None);

fn install_hook() {
    HOOK.call_once(|| {
        std::panic::set_hook(Box::new(|info| {
            let loc = info.location().map(|l| format!("{}:{}", l.file(), l.line())).unwrap_or_else(|| "?".into());
            let msg = if let Some(s) = info.payload().downcast_ref::<&str>() {
                s.to_string()
            } else if let Some(s) = info.payload().downcast_ref::<String>() {
                s.clone()
            } else {
                "?".to_string()
            };
            if let Ok(mut g) = LAST_PANIC.lock() {
                *g = Some((loc, msg));
            }
        }));
    });
}

fn languages() -> Vec<&'static str> {
    ["en", "es", "fr", "de", "it"].into_iter().filter(|l| get_language(l).is_ok()).collect()
}

// ---------------------------------------------------------------------------------------------
// string streams

const FORMULAS: &[&str] = &[
    "=A1+B2", "=SUM(A1:B2)", "=$A$1:B$2", "=Sheet1!A1", "='My Sheet'!A1:B2", "=IF(A1>1,\"yes\",\"no\")", "=1.5e3+2%", "=-A1^2",
    "={1,2;3,4}", "=A1:A3 B1:B3", "=#REF!+1", "=#N/A", "=SUM(1:1)", "=A:A", "=Table1[[#This Row],[Col]]", "=Table1[Col]",
    "=A1#", "=@A1", "=\"a\"\"b\"&\"c\"", "=LAMBDA(x,x+1)(2)", "=LET(a,1,a+1)", "=TRUE", "=1E+10", "=A1<>B1", "=A1<=B1", "=(1+2)*3",
    "=Sheet1!$A$1:$B$2", "=R1C1", "=R[-1]C[2]", "=R[1]C:R[2]C[3]", "=RC", "=SUM(R1C1:R2C2)", "='It''s'!A1", "=1,5", "=SUM(1;2)",
    "=SUMA(A1;B2)", "=VERDADERO", "=#¡REF!", "=WENN(A1>1;2;3)", "=A1 + ", "=SUM(", "=IF(VLOOK", "=\"unterminated", "='unterminated",
    "=1..2", "=1e", "=1e+", "=$", "=A$", "=$A", "=XFD1048576", "=XFE1", "=A1048577", "=A99999999999", "=R99999999999C1", "=R[99999999999]C",
    "=VERDADERO$", "=ABCDEFGHIJKLMNOP1", "=$ZZZZZZZZZZ$1", "=Sheet1!", "=!A1", "=[1]Sheet1!A1", "=A1:B", "=A:1", "=#", "=#N/", "=#NULL!", "=#SPILL!", "=#CALC!", "=#CIRC!", "=#DIV/0!",
];

fn random_unicode(r: &mut Rng, max_len: u64) -> String {
    let len = r.below(max_len + 1);
    let mut s = String::new();
    for _ in 0..len {
        let c = match r.below(12) {
            0..=4 => (0x20 + r.below(0x5f)) as u32,
            5 => *r.pick(&[0x22u32, 0x27, 0x23, 0x21, 0x24, 0x3a, 0x5b, 0x5d, 0x7b, 0x7d, 0x40, 0x25, 0x5c, 0x5f, 0x2a]),
            6 => (0xa0 + r.below(0x160)) as u32,
            7 => (0x4e00 + r.below(0x100)) as u32,
            8 => (0x1f600 + r.below(0x50)) as u32,
            9 => *r.pick(&[0x0u32, 0x9, 0xa, 0xd, 0x300, 0x301, 0x200b, 0x200f, 0x202e, 0xfeff, 0xffff, 0x10ffff, 0xa0, 0x2009, 0x202f, 0x3000]),
            10 => (0x5d0 + r.below(0x20)) as u32,
            _ => r.below(0x11_0000) as u32,
        };
        if let Some(ch) = char::from_u32(c) {
            s.push(ch);
        }
    }
    s
}

fn grammar_expr(r: &mut Rng, depth: u32) -> String {
    let leaf = depth == 0 || r.chance(1, 3);
    if leaf {
        match r.below(16) {
            0 => format!("{}", r.below(1000)),
            1 => format!("{}.{}", r.below(100), r.below(100)),
            2 => format!("{}e{}", r.below(10), r.range(-400, 400)),
            3 => format!("{}{}{}{}", r.pick(&["", "$"]), r.pick(&["A", "Z", "AA", "XFD", "XFE", "a"]), r.pick(&["", "$"]), r.pick(&["1", "9", "1048576", "1048577", "0", "99999999999"])),
            4 => format!("{}:{}", r.pick(&["A1", "$A$1", "A", "1", "$B", "$2"]), r.pick(&["B2", "$B$2", "B", "2", "C$3"])),
            5 => format!("\"{}\"", r.pick(&["", "a", "a\"\"b", "é", " "])),
            6 => r.pick(&["TRUE", "FALSE", "VERDADERO", "WAHR", "VRAI"]).to_string(),
            7 => r.pick(&["#REF!", "#N/A", "#VALUE!", "#DIV/0!", "#NAME?", "#NUM!", "#N/IMPL!", "#SPILL!", "#CALC!", "#CIRC!", "#NULL!", "#ERROR!", "#¡REF!", "#BEZUG!"]).to_string(),
            8 => format!("{}!{}", r.pick(&["Sheet1", "'My Sheet'", "'It''s'", "Ghost", "'a!b'"]), r.pick(&["A1", "A1:B2", "$A$1", "A:A", "1:1"])),
            9 => format!("R{}C{}", r.pick(&["", "1", "[1]", "[-2]", "[0]", "99999999999"]), r.pick(&["", "1", "[1]", "[-2]", "[99999999999]"])),
            10 => {
                if r.chance(1, 2) {
                    structured_ref(r).trim_start_matches('=').to_string()
                } else {
                    format!("Table1[{}]", r.pick(&["Col", "[#This Row],[Col]", "#All", "[Col]:[Col2]", "", "[", "[#Data],[Col]"]))
                }
            }
            11 => r.pick(&["name", "_x", "x.y", "A1B", "é"]).to_string(),
            12 => format!("{{{}}}", r.pick(&["1,2;3,4", "1", "\"a\",TRUE", "1,2;3", "", "#N/A"])),
            13 => format!("{}%", r.below(100)),
            14 => format!("{}#", r.pick(&["A1", "B2"])),
            _ => format!("@{}", r.pick(&["A1", "A1:A3", "name"])),
        }
    } else {
        match r.below(8) {
            0 => format!("{}{}{}", grammar_expr(r, depth - 1), r.pick(&["+", "-", "*", "/", "^", "&", "=", "<>", "<=", ">=", "<", ">", " ", ":", ","]), grammar_expr(r, depth - 1)),
            1 => format!("({})", grammar_expr(r, depth - 1)),
            2 => format!("{}{}", r.pick(&["-", "+", "--"]), grammar_expr(r, depth - 1)),
            3 | 4 => {
                let f = *r.pick(&["SUM", "IF", "VLOOKUP", "SUMA", "SI", "WENN", "LAMBDA", "LET", "INDEX", "TEXT", "ROUND", "sum", "Foo", "_xlfn.XLOOKUP"]);
                let n = r.below(4);
                let sep = *r.pick(&[",", ",", ";"]);
                let args: Vec<String> = (0..n).map(|_| grammar_expr(r, depth - 1)).collect();
                format!("{f}({})", args.join(sep))
            }
            5 => format!("{} {}", grammar_expr(r, depth - 1), grammar_expr(r, depth - 1)),
            6 => format!("{}({})", grammar_expr(r, depth - 1), grammar_expr(r, depth - 1)),
            _ => format!("{}:{}", grammar_expr(r, depth - 1), grammar_expr(r, depth - 1)),
        }
    }
}

/// characters after which the lexer is in a different mode (string, quoted sheet, structured reference,
/// error literal, array, absolute reference, …)
const MODE_CHARS: &[char] = &['[', ']', '\'', '"', '#', '!', ':', '$', '@', '{', '}', '(', ')'];

/// valid text truncated right after a mode-switching character (optionally followed by one more)
fn truncate_after_mode_char(r: &mut Rng, base: &str) -> String {
    let c: Vec<char> = base.chars().collect();
    let cuts: Vec<usize> = c.iter().enumerate().filter(|(_, ch)| MODE_CHARS.contains(ch)).map(|(i, _)| i + 1).collect();
    if cuts.is_empty() {
        return base.to_string();
    }
    let cut = *r.pick(&cuts);
    let mut t: String = c[..cut].iter().collect();
    if r.chance(1, 3) {
        t.push(*r.pick(MODE_CHARS));
    }
    t
}

fn mutate(r: &mut Rng, base: &str) -> String {
    if r.chance(1, 5) {
        return truncate_after_mode_char(r, base);
    }
    match r.below(3) {
        0 => {
            // byte level
            let mut b: Vec<u8> = base.bytes().collect();
            for _ in 0..1 + r.below(3) {
                let pos = r.below(b.len() as u64 + 1) as usize;
                match r.below(4) {
                    0 => b.insert(pos, r.below(256) as u8),
                    1 if pos < b.len() => {
                        b.remove(pos);
                    }
                    2 if pos < b.len() => b[pos] ^= 1 << r.below(8),
                    _ if pos < b.len() => b[pos] = r.below(256) as u8,
                    _ => {}
                }
            }
            String::from_utf8_lossy(&b).into_owned()
        }
        1 => {
            // char level
            let mut c: Vec<char> = base.chars().collect();
            // biased towards the characters that switch the lexer into another mode
            let special: Vec<char> = "\"'#!$:[]{}()@\"'#!$:[]{}()@\"'[]#!,;.%&<>=+-*/^ eE0123456789RCrc\u{a0}\u{202f}é".chars().collect();
            for _ in 0..1 + r.below(3) {
                let pos = r.below(c.len() as u64 + 1) as usize;
                match r.below(4) {
                    0 => c.insert(pos, *r.pick(&special)),
                    1 if pos < c.len() => {
                        c.remove(pos);
                    }
                    2 if pos < c.len() => {
                        let x = c[pos];
                        c.insert(pos, x)
                    }
                    _ if pos < c.len() => c[pos] = *r.pick(&special),
                    _ => {}
                }
            }
            c.into_iter().collect()
        }
        _ => {
            // token level: cut at a random token boundary and splice with another base
            let other = *r.pick(FORMULAS);
            let cut_a = r.below(base.chars().count() as u64 + 1) as usize;
            let cut_b = r.below(other.chars().count() as u64 + 1) as usize;
            let a: String = base.chars().take(cut_a).collect();
            let b: String = other.chars().skip(cut_b).collect();
            format!("{a}{b}")
        }
    }
}

/// a column name of a structured reference, with the escapes `'[ '] '# '@ ''` (and sometimes a raw special)
fn column_name(r: &mut Rng) -> String {
    let mut s = String::new();
    for _ in 0..r.below(7) {
        match r.below(12) {
            0 => s.push_str("'["),
            1 => s.push_str("']"),
            2 => s.push_str("'#"),
            3 => s.push_str("''"),
            4 => s.push_str("'@"),
            5 => s.push(' '),
            6 => s.push(*r.pick(&['\'', '[', ']', '#', '@', ':', ',', '(', ')', '"', '!'])),
            7 => s.push(*r.pick(&['é', 'ß', '日', '1', '_', '.'])),
            _ => s.push((b'a' + r.below(26) as u8) as char),
        }
    }
    s
}

/// structured-reference shapes: `Table[Col]`, `Table[[#This Row],[Col]]`, `Table[[A]:[B]]`, `[@Col]`, specials
fn structured_ref(r: &mut Rng) -> String {
    let table = *r.pick(&["Table1", "Sales", "a", "T_1", "tb", "Tä", "t.x", ""]);
    let spec = *r.pick(&["#All", "#Data", "#Headers", "#Totals", "#This Row", "#all", "#Bad", "#"]);
    let (a, b) = (column_name(r), column_name(r));
    let body = match r.below(16) {
        0 | 1 => format!("[{a}]"),
        2 => format!("[[{a}]]"),
        3 => format!("[{spec}]"),
        4 => format!("[[{spec}]]"),
        5 => format!("[[{spec}],[{a}]]"),
        6 => format!("[[{spec}], [{a}]]"),
        7 | 8 => format!("[[{a}]:[{b}]]"),
        9 => format!("[[{spec}],[{a}]:[{b}]]"),
        10 => format!("[@{a}]"),
        11 => format!("[@[{a}]:[{b}]]"),
        12 => "[]".to_string(),
        13 => format!("[[{spec}],[{spec}],[{a}]]"),
        14 => format!("[{spec},[{a}]:[{b}]]"),
        _ => format!("[ [{a}] : [{b}] ]"),
    };
    let sr = format!("{table}{body}");
    match r.below(8) {
        0 => sr,
        1 | 2 => format!("={sr}"),
        3 => format!("=SUM({sr})"),
        4 => format!("=SUM({sr})+1"),
        5 => format!("=@{sr}*2"),
        6 => format!("=IF({sr}>1,\"a\",{sr})"),
        _ => format!("=SUM({sr};{sr})"),
    }
}

/// texts whose lexing goes through a kernel that is reachable only behind a special prefix
/// (`ident[` structured references, `[book]` prefixes, `'sheet'!`, `{` arrays, `#` errors, `"` strings,
/// R1C1 `R[`, `$` absolute references, `@`, spill `#`, exponents)
const SPECIAL: &[&str] = &[
    "=SUM(Sales[Bob''s share])", "=Table1[[#This Row],[Col]]", "=Table1[[Jan]:[Dec]]", "=Table1[[#Data],[A'[b]:[x']]]",
    "=Table1[@Col]", "=Table1[@[a b]:[c]]", "=Table1[#All]", "=Table1[]", "=T[[#Totals],[a'#]]", "=Sales['@x]", "=tb[[#Headers], [x''y]]",
    "=[1]Sheet1!A1", "=[Book.xlsx]Sheet1!$A$1:$B$2", "='[Book 1.xlsx]My Sheet'!A1", "=[1]!name",
    "='My Sheet'!A1:B2", "='It''s'!$A$1", "='a''b''c'!A:A", "=SUM('S 1'!A1,'S 1'!B2)", "='My Sheet'!R1C1", "=Sheet1!R[1]C[1]",
    "={1,2;3,4}", "={\"a\",TRUE;#N/A,-1.5e3}", "=SUM({1,2}*{3;4})", "={1;2}+{\"x\"}",
    "=#REF!+#N/A", "=#DIV/0!*#VALUE!", "=#NAME?&#NUM!", "=#N/IMPL!+#SPILL!+#CALC!+#CIRC!+#NULL!+#ERROR!", "=Sheet1!#REF!", "=#REF!#REF!",
    "=R[-1]C[2]", "=R[1]C:R[2]C[3]", "=R1C1:R2C2", "=SUM(R[-3]C,RC[1])", "=R[-1]C[-1]:RC",
    "=\"a\"\"b\"&\"c\"", "=IF(A1=\"\",\"x\",\"y\")", "=1.5e-3+2%", "=1E+10^-2", "=.5+5.", "=1,5+2",
    "=$A$1:$B$2", "=Sheet1!$A:$B", "=$1:$2", "=A1#", "=@A1:A3", "=A1:INDEX(B:B,2)", "=-A1%^2", "=A1:B2 B1:C3",
    "=LAMBDA(x,x+1)(2)", "=LET(a,1,a+1)", "=_xlfn.XLOOKUP(A1,B:B,C:C)", "=TRUE+FALSE", "=SUM(A1,,B2)", "=name.with.dots+_x1",
];

/// every prefix, every single-character deletion and duplication, and every prefix that ends in a
/// mode-switching character followed by one more such character
fn variants(text: &str, out: &mut Vec<String>) {
    let c: Vec<char> = text.chars().collect();
    let mut seen = std::collections::HashSet::new();
    let mut push = |v: String, out: &mut Vec<String>| {
        if seen.insert(v.clone()) {
            out.push(v);
        }
    };
    for i in 0..=c.len() {
        let pre: String = c[..i].iter().collect();
        if i > 0 && MODE_CHARS.contains(&c[i - 1]) {
            for m in ['\'', '"', '[', ']', '#', '!', ':', '('] {
                push(format!("{pre}{m}"), out);
            }
        }
        push(pre, out);
    }
    for i in 0..c.len() {
        let mut d = c.clone();
        d.remove(i);
        push(d.into_iter().collect(), out);
        let mut d = c.clone();
        d.insert(i, c[i]);
        push(d.into_iter().collect(), out);
    }
}

fn number_like(r: &mut Rng) -> String {
    let alphabet: Vec<char> = "0123456789.,eE+-%$€ /:()".chars().collect();
    match r.below(4) {
        0 => {
            let len = r.below(12) as usize;
            (0..len).map(|_| *r.pick(&alphabet)).collect()
        }
        1 => format!("{}", c20::gen_double(r)),
        2 => format!("{}{}{}", r.pick(&["", "-", "+", "$", "-$", "€", "("]), r.below(1_000_000), r.pick(&["", "%", ".5", ",000", "e5", "E-400", "e999", ")", "/2", "/2/2020", "-01-01"])),
        _ => format!("{}-{}-{}", r.range(-1, 10000), r.range(0, 14), r.range(0, 33)),
    }
}

fn any_string(r: &mut Rng) -> (String, &'static str) {
    match r.below(10) {
        8 => (structured_ref(r), "stream:grammar"),
        9 => {
            let base = structured_ref(r);
            (mutate(r, &base), "stream:mutation")
        }
        0 | 1 => (random_unicode(r, 24), "stream:unicode"),
        2 | 3 => (format!("={}", grammar_expr(r, 3)), "stream:grammar"),
        4 | 5 => {
            let base = if r.chance(1, 2) { *r.pick(FORMULAS) } else { *r.pick(SPECIAL) };
            (mutate(r, base), "stream:mutation")
        }
        6 => (number_like(r), "stream:number-like"),
        _ => {
            let mut s = random_unicode(r, 12);
            s.insert(0, '=');
            (s, "stream:unicode")
        }
    }
}

fn format_string(r: &mut Rng) -> String {
    let codes = c20::format_codes();
    let extra = [
        "General", "yyyy-mm-dd", "[Red]0.00", "[<=100]0;[Color 3]#", "[$€-407]0.00", "h:mm AM/PM", "[h]:mm:ss", "0.00E+00", "##0.0E+0", "@",
        "# ?/?", "mm:ss.0", "[Color 99]0", "[$", "[", "[>", "[=1e999]0", "\"abc", "_", "*", "\\", "E", "E+", "0E+0E+0", "0.0.0E-0.0", "dddd mmmm yyyy",
        "mmmmm", "AM/PM", "A/P", "[hhh]", "[s]", "0;0;0;0;0", ";;;", "[Color]0", "[Color -1]0", "[Colorx]", "[Color 1 2]0", "General0", "0General",
    ];
    match r.below(4) {
        0 => r.pick(&codes).clone(),
        1 => r.pick(&extra).to_string(),
        2 => {
            let base = if r.chance(1, 2) { r.pick(&codes).clone() } else { r.pick(&extra).to_string() };
            mutate(r, &base)
        }
        _ => {
            let alphabet: Vec<char> = "0#?.,%;E+-$()[]\"\\_*@dmyhsAMP/: <>=Colr1e9G".chars().collect();
            let len = r.below(14) as usize;
            (0..len).map(|_| *r.pick(&alphabet)).collect()
        }
    }
}

fn gen_crash(ctx: &Ctx, sink: &mut dyn FnMut(String)) {
    let langs = languages();
    let locs = c20::locales();
    let mut r = Rng::new(ctx.seed ^ 0xC11);
    // corpus first
    for f in FORMULAS {
        for l in &langs {
            let loc = &locs[0];
            sink(format!("c11 parse A1 {l} {loc} {}", hex(f)));
            sink(format!("c11 parse R1C1 {l} {loc} {}", hex(f)));
            sink(format!("c11 complete {l} {loc} {}", hex(f)));
            sink(format!("c11 cycle {l} {loc} {}", hex(f)));
            sink(format!("c11 input {l} {loc} {}", hex(f)));
        }
    }
    // prefix / deletion / duplication sweep over the special-prefix shapes (fixed list, the localized
    // error literals of every language, and freshly generated structured references)
    let mut shapes: Vec<String> = SPECIAL.iter().map(|s| s.to_string()).collect();
    for l in &langs {
        let e = &get_language(l).unwrap().errors;
        shapes.push(format!("={}+{}&{}", e.r#ref, e.na, e.name));
        shapes.push(format!("={}*{}-{}", e.div, e.value, e.num));
        shapes.push(format!("=SUM({},{},{},{},{},{})", e.nimpl, e.spill, e.calc, e.circ, e.error, e.null));
    }
    let fresh = if ctx.tier == Tier::Quick { 40 } else { 2000 };
    for _ in 0..fresh {
        shapes.push(structured_ref(&mut r));
    }
    for (k, shape) in shapes.iter().enumerate() {
        let mut vs = vec![];
        variants(shape, &mut vs);
        let l = langs[(k + ctx.seed as usize) % langs.len()];
        let l2 = langs[(k + 1 + ctx.seed as usize) % langs.len()];
        let loc = &locs[(k + ctx.seed as usize) % locs.len()];
        sink(format!("c11 complete {l} {loc} {}", hex(shape)));
        for v in &vs {
            sink(format!("c11 parse A1 {l} {loc} {}", hex(v)));
            sink(format!("c11 parse R1C1 {l2} {loc} {}", hex(v)));
            sink(format!("c11 input {l} {loc} {}", hex(v)));
            sink(format!("c11 cycle1 {l2} {loc} {}", hex(v)));
        }
    }
    let n = if ctx.tier == Tier::Quick { 60_000 } else { 3_000_000 };
    for _ in 0..n {
        let l = *r.pick(&langs);
        let loc = r.pick(&locs).clone();
        let (s, _) = any_string(&mut r);
        match r.below(12) {
            0 | 1 => sink(format!("c11 parse A1 {l} {loc} {}", hex(&s))),
            2 | 3 => sink(format!("c11 parse R1C1 {l} {loc} {}", hex(&s))),
            4 => sink(format!("c11 complete {l} {loc} {}", hex(&s))),
            5 => {
                let t: String = s.chars().take(14).collect();
                sink(format!("c11 cycle {l} {loc} {}", hex(&t)))
            }
            6 | 7 => sink(format!("c11 input {l} {loc} {}", hex(&s))),
            8 => {
                if r.chance(1, 20) {
                    sink(format!("c11 inputfar {l} {loc} {}", hex(&s)))
                } else {
                    sink(format!("c11 uinput {l} {loc} {}", hex(&s)))
                }
            }
            _ => {
                let f = format_string(&mut r);
                let x = match r.below(8) {
                    0 => f64::NAN,
                    1 => f64::INFINITY,
                    2 => f64::NEG_INFINITY,
                    3 => f64::from_bits(r.next()),
                    _ => c20::gen_double(&mut r),
                };
                sink(format!("c11 format {loc} {} {}", hex(&f), x.to_bits()));
            }
        }
    }
}

thread_local! {
    static MODELS: RefCell<HashMap<(String, String), Model<'static>>> = RefCell::new(HashMap::new());
    static UMODELS: RefCell<HashMap<(String, String), UserModel<'static>>> = RefCell::new(HashMap::new());
}

/// whole-row / whole-column ranges (`A:A`, `1:1`, `$B:C`) make one evaluation walk a million cells:
/// such inputs are parsed and stored but not evaluated (evaluation is C05/C06's subject, not C11's)
fn open_ended_range(s: &str) -> bool {
    let c: Vec<char> = s.chars().collect();
    for (i, ch) in c.iter().enumerate() {
        if *ch != ':' {
            continue;
        }
        let mut j = i;
        while j > 0 && (c[j - 1].is_ascii_alphanumeric() || c[j - 1] == '$') {
            j -= 1;
        }
        let left: String = c[j..i].iter().filter(|x| **x != '$').collect();
        if left.is_empty() {
            continue;
        }
        if left.chars().all(|x| x.is_ascii_alphabetic()) || left.chars().all(|x| x.is_ascii_digit()) {
            return true;
        }
    }
    // a range that reaches far down / right spills (or walks) millions of cells
    if s.contains(':') {
        let mut run = 0;
        for ch in s.chars() {
            if ch.is_ascii_digit() {
                run += 1;
                if run >= 4 {
                    return true;
                }
            } else {
                run = 0;
            }
        }
        let up = s.to_ascii_uppercase();
        if up.contains("XF") || up.contains("ZZ") {
            return true;
        }
    }
    false
}

/// runs `f` under catch_unwind; on panic returns (signature, detail)
fn guarded<F: FnOnce() -> u64>(op: &str, f: F) -> Result<u64, (String, String)> {
    install_hook();
    if let Ok(mut g) = LAST_PANIC.lock() {
        *g = None;
    }
    match catch_unwind(AssertUnwindSafe(f)) {
        Ok(n) => Ok(n),
        Err(_) => {
            let (loc, msg) = LAST_PANIC.lock().ok().and_then(|g| g.clone()).unwrap_or(("?".into(), "?".into()));
            // make the location independent of where the repository is checked out
            let loc = match loc.find("/base/src/") {
                Some(i) => loc[i + 1..].to_string(),
                None => match loc.find("/xlsx/src/") {
                    Some(i) => loc[i + 1..].to_string(),
                    None => loc,
                },
            };
            let kind = if msg.contains("overflow") { "overflow" } else { "panic" };
            Err((format!("c11:{kind}:{op}:{loc}"), msg))
        }
    }
}

fn eval_crash(req: &str) -> ImplOut {
    let f: Vec<&str> = req.split(' ').collect();
    let op = f[1];
    let t0 = std::time::Instant::now();
    let (calls, tag): (Result<u64, (String, String)>, String) = match op {
        "parse" => {
            let mode = f[2];
            let (lang, loc, s) = (f[3], f[4], unhex(f[5]).unwrap());
            let language = get_language(lang).unwrap();
            let locale = get_locale(loc).unwrap();
            let s2 = s.strip_prefix('=').unwrap_or(&s).to_string();
            (
                guarded(op, || {
                    let mut p = Parser::new(vec!["Sheet1".to_string(), "My Sheet".to_string()], vec![], HashMap::new(), locale, language);
                    p.set_lexer_mode(if mode == "A1" { LexerMode::A1 } else { LexerMode::R1C1 });
                    let ctx = CellReferenceRC { sheet: "Sheet1".to_string(), row: 3, column: 2 };
                    let _ = p.parse(&s2, &ctx);
                    let _ = p.parse(&s, &ctx);
                    if mode == "A1" {
                        let _ = ironcalc_base::expressions::lexer::util::get_tokens_with_locale(&s2, locale, language);
                        let _ = ironcalc_base::expressions::lexer::util::get_tokens(&s);
                    }
                    4
                }),
                format!("op:parse-{mode}"),
            )
        }
        "complete" | "cycle" | "cycle1" | "input" => {
            let (lang, loc, s) = (f[2], f[3], unhex(f[4]).unwrap());
            let key = (lang.to_string(), loc.to_string());
            let heavy = open_ended_range(&s);
            let res = MODELS.with(|m| {
                let mut m = m.borrow_mut();
                let model = m.entry(key.clone()).or_insert_with(|| {
                    let loc_s: &'static str = Box::leak(loc.to_string().into_boxed_str());
                    let lang_s: &'static str = Box::leak(lang.to_string().into_boxed_str());
                    Model::new_empty("c11", loc_s, "UTC", lang_s).unwrap()
                });
                let n = s.chars().count();
                guarded(op, || match op {
                    "complete" => {
                        let mut k = 0;
                        for cur in 0..=n + 2 {
                            let _ = model.formula_completion(0, 2, 2, &s, cur);
                            k += 1;
                        }
                        let _ = model.formula_completion(0, 2, 2, &s, usize::MAX);
                        let _ = model.formula_completion(7, 2, 2, &s, 0);
                        k + 2
                    }
                    "cycle1" => {
                        // collapsed cursor at every position, and the whole text selected
                        let mut k = 0;
                        for a in 0..=n + 1 {
                            let _ = model.cycle_reference(&s, a, a);
                            k += 1;
                        }
                        let _ = model.cycle_reference(&s, 0, n);
                        k + 1
                    }
                    "cycle" => {
                        let mut k = 0;
                        for a in 0..=n + 1 {
                            for b in 0..=n + 1 {
                                let _ = model.cycle_reference(&s, a, b);
                                k += 1;
                            }
                        }
                        let _ = model.cycle_reference(&s, usize::MAX, 0);
                        k + 1
                    }
                    _ => {
                        let _ = model.set_user_input(0, 1, 1, s.clone());
                        if !heavy {
                            model.evaluate();
                        }
                        let _ = model.get_formatted_cell_value(0, 1, 1);
                        let _ = model.get_localized_cell_content(0, 1, 1);
                        let _ = model.set_user_input(0, 1, 1, String::new());
                        3
                    }
                })
            });
            if res.is_err() || t0.elapsed().as_millis() > 100 {
                MODELS.with(|m| m.borrow_mut().remove(&key));
            }
            (res, format!("op:{op}"))
        }
        "inputfar" => {
            let (lang, loc, s) = (f[2], f[3], unhex(f[4]).unwrap());
            let heavy = open_ended_range(&s);
            (
                guarded(op, || {
                    let loc_s: &'static str = Box::leak(loc.to_string().into_boxed_str());
                    let lang_s: &'static str = Box::leak(lang.to_string().into_boxed_str());
                    let mut model = Model::new_empty("c11", loc_s, "UTC", lang_s).unwrap();
                    let _ = model.set_user_input(0, 1048576, 16384, s.clone());
                    if !heavy {
                        model.evaluate();
                    }
                    let _ = model.get_formatted_cell_value(0, 1048576, 16384);
                    let _ = model.set_user_input(0, 0, 0, s.clone());
                    let _ = model.set_user_input(0, 1048577, 16385, s.clone());
                    let _ = model.set_user_input(9, 1, 1, s.clone());
                    4
                }),
                "op:inputfar".to_string(),
            )
        }
        "uinput" => {
            let (lang, loc, s) = (f[2], f[3], unhex(f[4]).unwrap());
            let key = (lang.to_string(), loc.to_string());
            let res = UMODELS.with(|m| {
                let mut m = m.borrow_mut();
                let model = m.entry(key.clone()).or_insert_with(|| {
                    let loc_s: &'static str = Box::leak(loc.to_string().into_boxed_str());
                    let lang_s: &'static str = Box::leak(lang.to_string().into_boxed_str());
                    UserModel::new_empty("c11", loc_s, "UTC", lang_s).unwrap()
                });
                let heavy = open_ended_range(&s);
                guarded(op, || {
                    if heavy {
                        model.pause_evaluation();
                    } else {
                        model.resume_evaluation();
                    }
                    let _ = model.set_user_input(0, 1, 1, &s);
                    let _ = model.get_formatted_cell_value(0, 1, 1);
                    let _ = model.undo();
                    let _ = model.redo();
                    let _ = model.set_user_input(0, 1, 1, "");
                    2
                })
            });
            if res.is_err() || t0.elapsed().as_millis() > 100 {
                UMODELS.with(|m| m.borrow_mut().remove(&key));
            }
            (res, "op:uinput".to_string())
        }
        "format" => {
            let loc = f[2];
            let fmt = unhex(f[3]).unwrap();
            let x = f64::from_bits(f[4].parse().unwrap());
            let locale = get_locale(loc).unwrap();
            (
                guarded(op, || {
                    let _ = format_number(x, &fmt, locale);
                    let _ = format_number(-x, &fmt, locale);
                    let _ = ironcalc_base::formatter::lexer::is_likely_date_number_format(&fmt);
                    3
                }),
                if x.is_finite() { "op:format-finite".to_string() } else { "op:format-nonfinite".to_string() },
            )
        }
        _ => return ImplOut::new("bad-request".into()),
    };
    match calls {
        Ok(n) => {
            let mut o = ImplOut::new("ok".into()).tag(&tag);
            // count the calls made by this request in the histogram
            for _ in 0..n.min(1) {
                o = o.tag("calls:request");
            }
            o.tags.push(format!("calls:{}", if n <= 3 { "1-3" } else if n <= 30 { "4-30" } else { "31+" }));
            o
        }
        Err((sig, msg)) => ImplOut::new("panic".into()).tag(&tag).fail(&sig, &format!("{msg} — request: {req}")),
    }
}

// ---------------------------------------------------------------------------------------------
// c11-kernels

fn gen_kernels(ctx: &Ctx, sink: &mut dyn FnMut(String)) {
    let mut r = Rng::new(ctx.seed ^ 0x4e11);
    let alphabet: Vec<u8> = b"RC[]-0123456789rc:$ A".to_vec();
    // exhaustive over a small alphabet up to length 5, then random
    let small = b"RC[]-1";
    let mut stack: Vec<Vec<u8>> = vec![vec![]];
    while let Some(s) = stack.pop() {
        sink(format!("c11 r1c1 {}", crate::proto::hex_bytes(&s)));
        if s.len() < 5 {
            for c in small {
                let mut t = s.clone();
                t.push(*c);
                stack.push(t);
            }
        }
    }
    let n = if ctx.tier == Tier::Quick { 20_000 } else { 1_000_000 };
    for _ in 0..n {
        match r.below(3) {
            0 => {
                let len = r.below(12) as usize;
                let s: Vec<u8> = (0..len).map(|_| *r.pick(&alphabet)).collect();
                sink(format!("c11 r1c1 {}", crate::proto::hex_bytes(&s)));
            }
            1 => {
                let s = format!("R{}C{}", r.pick(&["", "1", "[1]", "[-2]", "[", "[-", "12345678901"]), r.pick(&["", "1", "[1]", "[-2]", "[", "[-", "]"]));
                let s = if r.chance(1, 3) { mutate(&mut r, &s) } else { s };
                sink(format!("c11 r1c1 {}", hex(&s)));
            }
            _ => {
                let alphabet: Vec<char> = "\"a b\"\"'é,".chars().collect();
                let len = r.below(10) as usize;
                let s: String = (0..len).map(|_| *r.pick(&alphabet)).collect();
                sink(format!("c11 str {}", hex(&s)));
            }
        }
    }
    // the column of a structured reference: every string over { a ' ] [ # } up to length 5 after `tb[`,
    // then generated column names, closed or truncated
    let small: Vec<char> = "a']#[@".chars().collect();
    let mut stack: Vec<String> = vec![String::new()];
    while let Some(s) = stack.pop() {
        sink(format!("c11 colref {}", hex(&s)));
        if s.chars().count() < 5 {
            for c in &small {
                let mut t = s.clone();
                t.push(*c);
                stack.push(t);
            }
        }
    }
    for _ in 0..n / 4 {
        let mut s = column_name(&mut r);
        match r.below(4) {
            0 => {}
            1 => s.push(']'),
            2 => s.push_str("]+1"),
            _ => s.push('\''),
        }
        sink(format!("c11 colref {}", hex(&s)));
    }
}

fn eval_kernels(req: &str) -> ImplOut {
    let f: Vec<&str> = req.split(' ').collect();
    let s = unhex(f[2]).unwrap();
    match f[1] {
        "r1c1" => {
            match catch_unwind(|| parse_reference_r1c1(&s)) {
                Ok(Some(p)) => {
                    // the model keeps the digit strings; compare the flags and the digit count class only
                    ImplOut::new(format!("some {} {} {} {}", p.absolute_row as u8, p.row, p.absolute_column as u8, p.column)).tag("r1c1:some")
                }
                Ok(None) => ImplOut::new("none".into()).tag("r1c1:none").trivial(),
                Err(_) => ImplOut::new("panic".into()).fail("c11:panic:parse_reference_r1c1", &format!("input {s:?}")),
            }
        }
        "str" => {
            // the text after an opening double quote, lexed as a formula string literal
            let formula = format!("\"{s}");
            let locale = get_locale("en").unwrap();
            let language = get_language("en").unwrap();
            match catch_unwind(|| {
                let mut lx = Lexer::new(&formula, LexerMode::A1, locale, language);
                let t = lx.next_token();
                (t, lx.get_position())
            }) {
                Ok((TokenType::String(t), pos)) => ImplOut::new(format!("string {} {}", hex(&t), pos)).tag("str:string"),
                Ok((TokenType::Illegal(_), pos)) => ImplOut::new(format!("illegal {pos}")).tag("str:illegal").trivial(),
                Ok((_, _)) => ImplOut::new("other".into()),
                Err(_) => ImplOut::new("panic".into()).fail("c11:panic:consume_string", &format!("input {formula:?}")),
            }
        }
        "colref" => {
            // the text after `tb[`, lexed as the column of a structured reference
            let formula = format!("tb[{s}");
            let locale = get_locale("en").unwrap();
            let language = get_language("en").unwrap();
            let r = catch_unwind(|| {
                let mut lx = Lexer::new(&formula, LexerMode::A1, locale, language);
                let t = lx.next_token();
                (t, lx.get_position())
            });
            let other = matches!(s.chars().next(), None | Some('[') | Some('#') | Some(']'));
            match r {
                Err(_) => ImplOut::new("panic".into()).fail("c11:panic:consume_column_reference", &format!("input {formula:?}")),
                Ok(_) if other => ImplOut::new("other".into()).trivial(),
                Ok((TokenType::StructuredReference { table_reference: Some(ironcalc_base::expressions::token::TableReference::ColumnReference(name)), .. }, pos)) => {
                    ImplOut::new(format!("colref {} {}", hex(&name), pos)).tag("colref:name")
                }
                Ok((TokenType::Illegal(_), pos)) => ImplOut::new(format!("illegal {pos}")).tag("colref:illegal").trivial(),
                Ok((_, _)) => ImplOut::new("unexpected-token".into()),
            }
        }
        _ => ImplOut::new("bad-request".into()),
    }
}

pub fn suites() -> Vec<Suite> {
    vec![
        Suite {
            name: "c11-kernels",
            rule: "parse_reference_r1c1 on every string over {R,C,[,],-,1} up to length 5 and random/mutated longer ones; string-literal lexing (Lexer::next_token on a leading double quote); structured-reference column lexing (Lexer::next_token on tb[ + every string over {a,',],#,[,@} up to length 5 and generated escaped column names, closed or truncated); answers compared with the checked Lean model (IndexSafety); non-trivial = a reference / string token was produced",
            modelled: true,
            gen: gen_kernels,
            eval: eval_kernels,
            exhaustive: never,
        },
        Suite {
            name: "c11-crash",
            rule: "crash oracle under catch_unwind with a location-recording panic hook: strings from 4 streams (random Unicode; grammar-derived formulas incl. structured references with escaped column names; byte/char/token mutations biased to mode-switching characters and truncations right after them; number-like) plus a sweep of EVERY prefix, single-character deletion and duplication of ~75 special-prefix shapes (structured references, [book] prefixes, quoted sheets, arrays, localized error literals of every language, R1C1, strings, absolute references) and of freshly generated structured references, to Parser::parse + get_tokens (A1, R1C1; with and without '='), Model::formula_completion at every cursor 0..=len+2 and usize::MAX, Model::cycle_reference at every (start,end) in 0..=len+1, format_number(±x) with finite and non-finite x and arbitrary format strings, Model::set_user_input + evaluate + formatted value (also at the last cell), UserModel::set_user_input + undo/redo; every language x locale; a request makes 2..~260 calls; non-trivial = every request (distinct strings)",
            modelled: false,
            gen: gen_crash,
            eval: eval_crash,
            exhaustive: never,
        },
    ]
}
