//! C06 — computed values match the reference spreadsheet semantics (core formula language).
//!  * `c06-programs`: type-directed random programs (depth ≤ 5) over a cell pool that holds every
//!    value class (numbers, text, numeric-looking / boolean-looking text, booleans, errors, empty);
//!    each program is evaluated by the real engine and by the Lean reference evaluator
//!    (`Eval/Core.lean`, numbers = hardware doubles, exchanged as 64-bit patterns).
//!  * `c06-exhaustive` (thorough): every depth-1 program over a 9-value pool in literal and
//!    reference form, and every left-nested depth-2 binary program.
//!  * implementation-level oracles (laws of the property evaluated on the engine itself):
//!    strict error propagation (left first) for operators, AND/OR propagate errors of any argument,
//!    number equality is transitive.
use crate::prng::Rng;
use crate::proto::hex;
use crate::run::{never, Ctx, ImplOut, Suite, Tier};
use ironcalc_base::cell::CellValue;
use ironcalc_base::types::{Cell, FormulaValue, SpillValue};
use ironcalc_base::Model;
use std::cell::RefCell;
use std::panic::{catch_unwind, AssertUnwindSafe};

// ---------------------------------------------------------------------------------------------
// values and expressions
#[derive(Clone, Debug, PartialEq)]
pub enum V {
    Num(f64),
    Str(String),
    Bool(bool),
    Err(&'static str),
    Empty,
}

const ERRS: &[&str] = &["#DIV/0!", "#N/A", "#VALUE!", "#REF!", "#NAME?", "#NUM!", "#NULL!"];

fn err_code(name: &str) -> &'static str {
    match name {
        "#DIV/0!" => "DIV",
        "#N/A" => "NA",
        "#VALUE!" => "VALUE",
        "#REF!" => "REF",
        "#NAME?" => "NAME",
        "#NUM!" => "NUM",
        "#NULL!" => "NULL",
        "#ERROR!" => "ERROR",
        "#N/IMPL!" | "#N/IMPL" => "NIMPL",
        "#SPILL!" => "SPILL",
        "#CALC!" => "CALC",
        "#CIRC!" => "CIRC",
        _ => "OTHER",
    }
}
fn err_name(code: &str) -> &'static str {
    match code {
        "DIV" => "#DIV/0!",
        "NA" => "#N/A",
        "VALUE" => "#VALUE!",
        "REF" => "#REF!",
        "NAME" => "#NAME?",
        "NUM" => "#NUM!",
        "NULL" => "#NULL!",
        _ => "#ERROR!",
    }
}

fn enc_val(v: &V) -> String {
    match v {
        V::Num(f) => format!("n{:016x}", f.to_bits()),
        V::Str(s) => format!("s{}", hex(s)),
        V::Bool(b) => format!("b{}", *b as u8),
        V::Err(e) => format!("e{}", err_code(e)),
        V::Empty => "z".to_string(),
    }
}

#[derive(Clone, Debug)]
pub enum E {
    Lit(V),
    Ref(i32, i32),
    Range(i32, i32, i32, i32),
    Bin(&'static str, Box<E>, Box<E>),
    Neg(Box<E>),
    Pct(Box<E>),
    Call(&'static str, Vec<E>),
}

const ARITH: &[&str] = &["add", "sub", "mul", "div", "pow"];
const CMP: &[&str] = &["eq", "ne", "lt", "le", "gt", "ge"];
const BINOPS: &[&str] = &["add", "sub", "mul", "div", "pow", "cat", "eq", "ne", "lt", "le", "gt", "ge"];

fn op_sym(op: &str) -> &'static str {
    match op {
        "add" => "+",
        "sub" => "-",
        "mul" => "*",
        "div" => "/",
        "pow" => "^",
        "cat" => "&",
        "eq" => "=",
        "ne" => "<>",
        "lt" => "<",
        "le" => "<=",
        "gt" => ">",
        _ => ">=",
    }
}

fn col_name(c: i32) -> String {
    ((b'A' + (c - 1) as u8) as char).to_string()
}

/// formula text (fully parenthesised, so that the engine's parser rebuilds exactly this tree)
fn render(e: &E) -> String {
    match e {
        E::Lit(V::Num(f)) => format!("{}", f),
        E::Lit(V::Str(s)) => format!("\"{}\"", s.replace('"', "\"\"")),
        E::Lit(V::Bool(b)) => if *b { "TRUE".into() } else { "FALSE".into() },
        E::Lit(V::Err(n)) => n.to_string(),
        E::Lit(V::Empty) => "".into(),
        E::Ref(r, c) => format!("{}{}", col_name(*c), r),
        E::Range(r1, c1, r2, c2) => format!("{}{}:{}{}", col_name(*c1), r1, col_name(*c2), r2),
        E::Bin(op, l, r) => format!("({}{}{})", render(l), op_sym(op), render(r)),
        E::Neg(x) => format!("(-{})", render(x)),
        E::Pct(x) => format!("({}%)", render(x)),
        E::Call(f, args) => format!("{}({})", f, args.iter().map(render).collect::<Vec<_>>().join(",")),
    }
}

/// prefix token encoding for the model driver
fn encode(e: &E, out: &mut Vec<String>) {
    match e {
        E::Lit(V::Num(f)) => out.push(format!("N{:016x}", f.to_bits())),
        E::Lit(V::Str(s)) => out.push(format!("S{}", hex(s))),
        E::Lit(V::Bool(b)) => out.push(format!("B{}", *b as u8)),
        E::Lit(V::Err(n)) => out.push(format!("E{}", err_code(n))),
        E::Lit(V::Empty) => out.push("Z".into()),
        E::Ref(r, c) => out.push(format!("R{r},{c}")),
        E::Range(r1, c1, r2, c2) => out.push(format!("G{r1},{c1},{r2},{c2}")),
        E::Bin(op, l, r) => {
            out.push(format!("O{op}"));
            encode(l, out);
            encode(r, out);
        }
        E::Neg(x) => {
            out.push("M".into());
            encode(x, out);
        }
        E::Pct(x) => {
            out.push("P".into());
            encode(x, out);
        }
        E::Call(f, args) => {
            out.push(format!("F{}:{}", f, args.len()));
            for a in args {
                encode(a, out);
            }
        }
    }
}

fn decode(toks: &[&str], pos: &mut usize) -> Option<E> {
    let t = *toks.get(*pos)?;
    *pos += 1;
    let (k, rest) = t.split_at(1);
    Some(match k {
        "N" => E::Lit(V::Num(f64::from_bits(u64::from_str_radix(rest, 16).ok()?))),
        "S" => E::Lit(V::Str(crate::proto::unhex(rest)?)),
        "B" => E::Lit(V::Bool(rest == "1")),
        "E" => E::Lit(V::Err(err_name(rest))),
        "Z" => E::Lit(V::Empty),
        "R" => {
            let p: Vec<i32> = rest.split(',').filter_map(|x| x.parse().ok()).collect();
            E::Ref(*p.first()?, *p.get(1)?)
        }
        "G" => {
            let p: Vec<i32> = rest.split(',').filter_map(|x| x.parse().ok()).collect();
            E::Range(*p.first()?, *p.get(1)?, *p.get(2)?, *p.get(3)?)
        }
        "O" => {
            let op = BINOPS.iter().find(|o| **o == rest)?;
            let l = decode(toks, pos)?;
            let r = decode(toks, pos)?;
            E::Bin(*op, Box::new(l), Box::new(r))
        }
        "M" => E::Neg(Box::new(decode(toks, pos)?)),
        "P" => E::Pct(Box::new(decode(toks, pos)?)),
        "F" => {
            let (name, n) = rest.split_once(':')?;
            let f = FUNCS.iter().find(|x| **x == name)?;
            let n: usize = n.parse().ok()?;
            let mut args = vec![];
            for _ in 0..n {
                args.push(decode(toks, pos)?);
            }
            E::Call(*f, args)
        }
        _ => return None,
    })
}

const FUNCS: &[&str] = &[
    "IF", "AND", "OR", "NOT", "SUM", "MIN", "MAX", "COUNT", "COUNTA", "AVERAGE", "ABS", "ROUND", "LEN", "CONCAT",
    "ISNUMBER", "ISTEXT", "ISBLANK", "IFERROR",
];

// ---------------------------------------------------------------------------------------------
// the cell pool: rows 1..=4 × columns A..=D (16 cells), every value class
fn pool_values(rng: &mut Rng) -> Vec<((i32, i32), V)> {
    let nums = [0.0, 1.0, -1.0, 2.0, 0.5, 10.0, 3.0, -2.5, 100.0, 1e15, 0.1, 7.0, 1e-3, 12345.678, 0.30000000000000004];
    let texts = ["abc", "ABC", "", "b", "Zed", "hello world", "a1"];
    let numtexts = ["12", " 7 ", "1e3", "5%", "$3", "1,000", "1.5", "-2", ".5", "0", "1 2", "+4"];
    let booltexts = ["TRUE", "false", "True"];
    let mut out = vec![];
    for r in 1..=4 {
        for c in 1..=4 {
            let v = match rng.below(16) {
                0..=4 => V::Num(*rng.pick(&nums)),
                5..=6 => V::Str(rng.pick(&texts).to_string()),
                7..=8 => V::Str(rng.pick(&numtexts).to_string()),
                9 => V::Str(rng.pick(&booltexts).to_string()),
                10..=11 => V::Bool(rng.chance(1, 2)),
                12..=13 => V::Err(*rng.pick(ERRS)),
                _ => V::Empty,
            };
            out.push(((r, c), v));
        }
    }
    // make sure every class is present somewhere: fixed corners
    out[0].1 = V::Num(*rng.pick(&nums));
    out[5].1 = V::Str(rng.pick(&numtexts).to_string());
    out[10].1 = V::Empty;
    out
}

fn class_of(v: &V) -> &'static str {
    match v {
        V::Num(_) => "num",
        V::Str(s) => {
            if s.trim().parse::<f64>().is_ok() || s.ends_with('%') || s.starts_with('$') || s.contains(',') {
                "numtext"
            } else if s.eq_ignore_ascii_case("true") || s.eq_ignore_ascii_case("false") {
                "booltext"
            } else {
                "text"
            }
        }
        V::Bool(_) => "bool",
        V::Err(_) => "err",
        V::Empty => "empty",
    }
}

// ---------------------------------------------------------------------------------------------
// generator
struct Gen<'a> {
    rng: &'a mut Rng,
    pool: &'a [((i32, i32), V)],
}

impl<'a> Gen<'a> {
    fn literal(&mut self) -> E {
        let nums = [0.0, 1.0, 2.0, 3.0, 0.5, 10.0, 0.1, 100.0, 2.5, 1e15, 7.0, 0.2, 1e-7, 123456789.0];
        let texts = ["abc", "ABC", "", "x", "12", " 3 ", "1e2", "TRUE", "false", "5%", "$2", "zz", "1.5"];
        match self.rng.below(10) {
            0..=3 => E::Lit(V::Num(*self.rng.pick(&nums))),
            4..=6 => E::Lit(V::Str(self.rng.pick(&texts).to_string())),
            7..=8 => E::Lit(V::Bool(self.rng.chance(1, 2))),
            _ => E::Lit(V::Err(*self.rng.pick(ERRS))),
        }
    }
    fn cell_ref(&mut self) -> E {
        let i = self.rng.below(self.pool.len() as u64) as usize;
        let ((r, c), _) = self.pool[i];
        E::Ref(r, c)
    }
    fn range(&mut self) -> E {
        // small ranges inside the pool: column vectors, row vectors, 2x2 blocks, single cells
        let r1 = self.rng.range(1, 4) as i32;
        let c1 = self.rng.range(1, 4) as i32;
        let (h, w) = *self.rng.pick(&[(1, 1), (2, 1), (3, 1), (1, 2), (1, 3), (2, 2), (3, 2), (2, 3)]);
        let r2 = (r1 + h - 1).min(4);
        let c2 = (c1 + w - 1).min(4);
        E::Range(r1, c1, r2, c2)
    }
    fn leaf(&mut self) -> E {
        if self.rng.chance(11, 20) {
            self.cell_ref()
        } else {
            self.literal()
        }
    }
    /// an expression used where a single value is expected
    fn scalar(&mut self, depth: u32) -> E {
        if depth == 0 || self.rng.chance(1, 6) {
            return self.leaf();
        }
        let d = depth - 1;
        match self.rng.below(100) {
            0..=29 => {
                let op = *self.rng.pick(BINOPS);
                E::Bin(op, Box::new(self.scalar(d)), Box::new(self.scalar(d)))
            }
            30..=34 => E::Neg(Box::new(self.scalar(d))),
            35..=38 => E::Pct(Box::new(self.scalar(d))),
            39..=48 => {
                let c = self.scalar(d);
                let t = self.scalar(d);
                if self.rng.chance(3, 4) {
                    let e = self.scalar(d);
                    E::Call("IF", vec![c, t, e])
                } else {
                    E::Call("IF", vec![c, t])
                }
            }
            49..=54 => E::Call("IFERROR", vec![self.scalar(d), self.scalar(d)]),
            55..=62 => {
                let f = *self.rng.pick(&["AND", "OR"]);
                let n = self.rng.range(1, 3);
                let args = (0..n).map(|_| self.agg_arg(d)).collect();
                E::Call(f, args)
            }
            63..=65 => E::Call("NOT", vec![self.scalar(d)]),
            66..=80 => {
                let f = *self.rng.pick(&["SUM", "MIN", "MAX", "COUNT", "COUNTA", "AVERAGE", "CONCAT"]);
                let n = self.rng.range(1, 3);
                let args = (0..n).map(|_| self.agg_arg(d)).collect();
                E::Call(f, args)
            }
            81..=84 => E::Call("ABS", vec![self.scalar(d)]),
            85..=88 => {
                let digits = if self.rng.chance(2, 3) {
                    E::Lit(V::Num(self.rng.range(-2, 4) as f64))
                } else {
                    self.scalar(d)
                };
                E::Call("ROUND", vec![self.scalar(d), digits])
            }
            89..=91 => E::Call("LEN", vec![self.scalar(d)]),
            _ => {
                let f = *self.rng.pick(&["ISNUMBER", "ISTEXT", "ISBLANK"]);
                E::Call(f, vec![self.scalar(d)])
            }
        }
    }
    /// an argument of an aggregate: a value, a range, or an array-valued expression
    fn agg_arg(&mut self, depth: u32) -> E {
        match self.rng.below(20) {
            0..=5 => self.leaf(), // plain references and literals: the argument rules differ between them
            6..=10 => self.scalar(depth),
            11..=17 => self.range(),
            _ => self.array(depth),
        }
    }
    /// an array-valued expression (ranges, operators with an array operand, lifted IF/IFERROR/ABS)
    fn array(&mut self, depth: u32) -> E {
        if depth == 0 || self.rng.chance(1, 3) {
            return self.range();
        }
        let d = depth - 1;
        match self.rng.below(10) {
            0..=5 => {
                let op = *self.rng.pick(BINOPS);
                match self.rng.below(3) {
                    0 => E::Bin(op, Box::new(self.array(d)), Box::new(self.scalar(d.min(2)))),
                    1 => E::Bin(op, Box::new(self.scalar(d.min(2))), Box::new(self.array(d))),
                    _ => E::Bin(op, Box::new(self.array(d)), Box::new(self.array(d))),
                }
            }
            6 => E::Call("ABS", vec![self.array(d)]),
            7..=8 => {
                let t = if self.rng.chance(1, 2) { self.array(d) } else { self.scalar(d.min(2)) };
                let e = if self.rng.chance(1, 2) { self.array(d) } else { self.scalar(d.min(2)) };
                E::Call("IF", vec![self.array(d), t, e])
            }
            _ => {
                let fb = if self.rng.chance(1, 3) { self.array(d) } else { self.scalar(d.min(2)) };
                E::Call("IFERROR", vec![self.array(d), fb])
            }
        }
    }
}

/// static class of an expression, for the per-slot distribution
fn static_class(e: &E, pool: &[((i32, i32), V)]) -> String {
    match e {
        E::Lit(v) => format!("lit-{}", class_of(v)),
        E::Ref(r, c) => {
            let v = pool.iter().find(|(k, _)| *k == (*r, *c)).map(|(_, v)| v.clone()).unwrap_or(V::Empty);
            format!("ref-{}", class_of(&v))
        }
        E::Range(..) => "range".into(),
        E::Bin(op, ..) => {
            if ARITH.contains(op) {
                "res-arith".into()
            } else if CMP.contains(op) {
                "res-cmp".into()
            } else {
                "res-text".into()
            }
        }
        E::Neg(_) | E::Pct(_) => "res-arith".into(),
        E::Call(f, _) => format!("res-{f}"),
    }
}

fn slot_tags(e: &E, pool: &[((i32, i32), V)], tags: &mut Vec<String>) {
    match e {
        E::Bin(op, l, r) => {
            let fam = if ARITH.contains(op) { "arith" } else if CMP.contains(op) { "cmp" } else { "cat" };
            tags.push(format!("slot:{fam}.L:{}", static_class(l, pool)));
            tags.push(format!("slot:{fam}.R:{}", static_class(r, pool)));
            slot_tags(l, pool, tags);
            slot_tags(r, pool, tags);
        }
        E::Neg(x) | E::Pct(x) => {
            tags.push(format!("slot:unary:{}", static_class(x, pool)));
            slot_tags(x, pool, tags);
        }
        E::Call(f, args) => {
            for (i, a) in args.iter().enumerate() {
                let pos = if matches!(*f, "IF" | "IFERROR" | "ROUND") { format!("{i}") } else { "*".into() };
                tags.push(format!("slot:{f}.{pos}:{}", static_class(a, pool)));
                slot_tags(a, pool, tags);
            }
        }
        _ => {}
    }
}

// ---------------------------------------------------------------------------------------------
// requests:  c06 ev <ncells> <r,c=val>… <expr tokens…>
fn request(pool: &[((i32, i32), V)], e: &E) -> String {
    let cells: Vec<String> = pool
        .iter()
        .filter(|(_, v)| *v != V::Empty)
        .map(|((r, c), v)| format!("{r},{c}={}", enc_val(v)))
        .collect();
    let mut toks = vec![];
    encode(e, &mut toks);
    format!("c06 ev {} {} {}", cells.len(), cells.join(" "), toks.join(" ")).replace("  ", " ")
}

fn parse_request(req: &str) -> Option<(Vec<((i32, i32), V)>, E)> {
    let f: Vec<&str> = req.split(' ').filter(|x| !x.is_empty()).collect();
    let n: usize = f.get(2)?.parse().ok()?;
    let mut pool = vec![];
    for t in &f[3..3 + n] {
        let (k, v) = t.split_once('=')?;
        let (r, c) = k.split_once(',')?;
        let (kind, rest) = v.split_at(1);
        let val = match kind {
            "n" => V::Num(f64::from_bits(u64::from_str_radix(rest, 16).ok()?)),
            "s" => V::Str(crate::proto::unhex(rest)?),
            "b" => V::Bool(rest == "1"),
            "e" => V::Err(err_name(rest)),
            _ => V::Empty,
        };
        pool.push(((r.parse().ok()?, c.parse().ok()?), val));
    }
    let mut pos = 0;
    let e = decode(&f[3 + n..], &mut pos)?;
    Some((pool, e))
}

thread_local! {
    static MODEL: RefCell<Option<Model<'static>>> = const { RefCell::new(None) };
    static CUR_POOL: RefCell<Vec<((i32, i32), V)>> = const { RefCell::new(Vec::new()) };
}

const FROW: i32 = 20; // the formula lives in B20; its spill area B20:E24 is free
const FCOL: i32 = 2;

fn fresh_model() -> Model<'static> {
    Model::new_empty("c06", "en", "UTC", "en").unwrap()
}

fn set_pool(m: &mut Model, pool: &[((i32, i32), V)]) {
    for r in 1..=4 {
        for c in 1..=4 {
            let _ = m.set_user_input(0, r, c, String::new());
        }
    }
    for ((r, c), v) in pool {
        match v {
            V::Num(f) => {
                let _ = m.update_cell_with_number(0, *r, *c, *f);
            }
            V::Str(s) => {
                let _ = m.update_cell_with_text(0, *r, *c, s);
            }
            V::Bool(b) => {
                let _ = m.update_cell_with_bool(0, *r, *c, *b);
            }
            V::Err(e) => {
                let _ = m.set_user_input(0, *r, *c, e.to_string());
            }
            V::Empty => {}
        }
    }
}

/// the sign of a zero RESULT is not compared (f64::min/max do not specify it for ±0)
fn canon_zero(f: f64) -> f64 {
    if f == 0.0 {
        0.0
    } else {
        f
    }
}

fn cell_val(m: &Model, r: i32, c: i32) -> String {
    match m.workbook.worksheets[0].sheet_data.get(&r).and_then(|x| x.get(&c)) {
        Some(Cell::CellFormula { v, .. }) | Some(Cell::ArrayFormula { v, .. }) => match v {
            FormulaValue::Number(f) => format!("n{:016x}", canon_zero(*f).to_bits()),
            FormulaValue::Text(s) => format!("s{}", hex(s)),
            FormulaValue::Boolean(b) => format!("b{}", *b as u8),
            FormulaValue::Error { ei, .. } => format!("e{}", err_code(&format!("{ei}"))),
            FormulaValue::Unevaluated => "u".into(),
        },
        Some(Cell::SpillCell { v, .. }) => match v {
            SpillValue::Number(f) => format!("n{:016x}", canon_zero(*f).to_bits()),
            SpillValue::Text(s) => format!("s{}", hex(s)),
            SpillValue::Boolean(b) => format!("b{}", *b as u8),
            SpillValue::Error(ei) => format!("e{}", err_code(&format!("{ei}"))),
        },
        Some(_) => "other".into(),
        None => "none".into(),
    }
}

/// evaluate one formula text at B20 on the current pool; canonical answer `V v` / `A h w v…`
fn eval_formula(m: &mut Model, text: &str) -> String {
    // A fresh workbook for every formula: the engine keys its per-sheet formula table by the
    // *stringified* formula and the stringifier drops some parentheses (F09 family, C09), so two
    // different formulas entered into one workbook can alias each other (`=(A2&C3)=C2` entered after
    // `=A2&(C3=C2)` is evaluated as the latter). That defect belongs to C09; C06 must not inherit it.
    *m = fresh_model();
    CUR_POOL.with(|p| set_pool(m, &p.borrow()));
    let _ = m.set_user_input(0, FROW, FCOL, String::new());
    let _ = m.set_user_input(0, FROW, FCOL, format!("={text}"));
    m.evaluate();
    let (w, h) = match m.workbook.worksheets[0].sheet_data.get(&FROW).and_then(|x| x.get(&FCOL)) {
        Some(Cell::ArrayFormula { r, .. }) => (r.0, r.1),
        _ => (1, 1),
    };
    if w == 1 && h == 1 {
        format!("V {}", cell_val(m, FROW, FCOL))
    } else {
        let mut out = format!("A {h} {w}");
        for r in 0..h {
            for c in 0..w {
                out.push(' ');
                out.push_str(&cell_val(m, FROW + r, FCOL + c));
            }
        }
        out
    }
}

fn with_model<T>(pool: &[((i32, i32), V)], f: impl FnOnce(&mut Model) -> T) -> Option<T> {
    MODEL.with(|cell| {
        let mut slot = cell.borrow_mut();
        if slot.is_none() {
            *slot = Some(fresh_model());
        }
        CUR_POOL.with(|p| *p.borrow_mut() = pool.to_vec());
        let res = catch_unwind(AssertUnwindSafe(|| {
            let m = slot.as_mut().unwrap();
            f(m)
        }));
        match res {
            Ok(v) => Some(v),
            Err(_) => {
                *slot = None; // the model may be inconsistent after a panic
                None
            }
        }
    })
}

/// syntactically array-valued (a range, or an operator / lifted function over one)
fn arrayish(e: &E) -> bool {
    match e {
        E::Range(..) => true,
        E::Bin(_, l, r) => arrayish(l) || arrayish(r),
        E::Call(f, args) if matches!(*f, "ABS" | "IF" | "IFERROR") => args.iter().any(arrayish),
        _ => false,
    }
}

fn is_err_ans(a: &str) -> bool {
    a.starts_with("V e")
}

/// `x` shows #NUM! on its own but is a *number* inside a formula: a non-finite intermediate (F06e)
/// For an array-valued `x` (e.g. a 1x1 array `IFERROR(C1:C1,D2:D2)^(-A4)` = {0^-1000} = {inf}) ISNUMBER
/// of the array is FALSE, so the element is probed through SUM: SUM propagates a genuine error
/// element (then ISNUMBER(SUM(x)) is FALSE) but adds up non-finite *numbers* (TRUE). AND/OR treat such
/// an element as a truthy number, which is the F06e mechanism, not a swallowed error (F06a).
fn nonfinite_intermediate(m: &mut Model, x: &E, alone: &str) -> bool {
    alone == "V eNUM"
        && (eval_formula(m, &format!("ISNUMBER({})", render(x))) == "V b1"
            || (arrayish(x) && eval_formula(m, &format!("ISNUMBER(SUM({}))", render(x))) == "V b1"))
}

/// implementation-level oracles on the top node of the program
fn oracles(m: &mut Model, pool: &[((i32, i32), V)], e: &E, ans: &str, fails: &mut Vec<(String, String)>) {
    // broadcasting of a scalar over a range: the first element of `l op range` is `l op firstcell`
    if let E::Bin(op, l, r) = e {
        let pair = match (&**l, &**r) {
            (x, E::Range(r1, c1, r2, c2)) if !arrayish(x) && (r1, c1) != (r2, c2) => Some((true, x, (*r1, *c1))),
            (E::Range(r1, c1, r2, c2), x) if !arrayish(x) && (r1, c1) != (r2, c2) => Some((false, x, (*r1, *c1))),
            _ => None,
        };
        if let Some((scalar_left, x, (r1, c1))) = pair {
            let cell = E::Ref(r1, c1);
            let scalar_form = if scalar_left {
                format!("({}{}{})", render(x), op_sym(op), render(&cell))
            } else {
                format!("({}{}{})", render(&cell), op_sym(op), render(x))
            };
            let sa = eval_formula(m, &scalar_form);
            let first = if let Some(rest) = ans.strip_prefix("A ") {
                rest.split(' ').nth(2).map(|v| format!("V {v}"))
            } else {
                Some(ans.to_string())
            };
            if let Some(first) = first {
                // (which of two competing errors wins between an array element and a scalar operand is not
                // pinned down: both being errors counts as agreement)
                if first != sa && sa.starts_with("V ") && !(is_err_ans(&first) && is_err_ans(&sa)) {
                    let cell_is_text = pool.iter().any(|(k, v)| *k == (r1, c1) && matches!(v, V::Str(_)));
                    let sig = if ARITH.contains(op) && cell_is_text {
                        "c06:broadcast:text-element-coerced-differently".to_string()
                    } else {
                        format!("c06:broadcast:element-differs-from-scalar:{op}")
                    };
                    fails.push((sig, format!("{} first element {first}, but {scalar_form} = {sa}", render(e))));
                }
            }
        }
    }
    match e {
        // strictness of the scalar binary operators: an operand that evaluates (alone) to an error
        // makes the result that error, the left one first
        E::Bin(op, l, r) => {
            let la = eval_formula(m, &render(l));
            let ra = eval_formula(m, &render(r));
            if la.starts_with("V ") && ra.starts_with("V ") {
                let arrayish_operand = arrayish(l) || arrayish(r);
                if arrayish_operand {
                    // an operand is (syntactically) an array: which error wins between an array element
                    // and a scalar operand is not pinned down here; the result must be an error
                    if (is_err_ans(&la) || is_err_ans(&ra)) && !is_err_ans(ans) {
                        let sig = if nonfinite_intermediate(m, l, &la) || nonfinite_intermediate(m, r, &ra) {
                            "c06:nonfinite-intermediate-is-a-number-not-an-error".to_string()
                        } else if CMP.contains(op) {
                            "c06:compare:error-element-of-array-operand-not-propagated".to_string()
                        } else {
                            format!("c06:strict:{op}:array-operand-error-lost")
                        };
                        fails.push((sig, format!("{} = {ans}, operands alone = {la} / {ra}", render(e))));
                    }
                } else if is_err_ans(&la) && ans != la {
                    let nonfinite = la == "V eNUM" && eval_formula(m, &format!("ISNUMBER({})", render(l))) == "V b1";
                    let sig = if nonfinite {
                        "c06:nonfinite-intermediate-is-a-number-not-an-error".to_string()
                    } else {
                        format!("c06:strict:{op}:left-error-not-propagated")
                    };
                    fails.push((sig, format!("{} = {ans}, left operand alone = {la}", render(e))));
                } else if !is_err_ans(&la) && is_err_ans(&ra) && !is_err_ans(ans) {
                    // an operand that is #NUM! on its own but a *number* inside the formula is a non-finite
                    // intermediate (overflow / undefined result that only becomes #NUM! when stored)
                    let nonfinite = ra == "V eNUM" && eval_formula(m, &format!("ISNUMBER({})", render(r))) == "V b1";
                    let sig = if nonfinite {
                        "c06:nonfinite-intermediate-is-a-number-not-an-error".to_string()
                    } else {
                        format!("c06:strict:{op}:right-error-swallowed")
                    };
                    fails.push((sig, format!("{} = {ans}, right operand alone = {ra}", render(e))));
                }
                // trichotomy of the comparison operators on the same operands
                if CMP.contains(op) && !is_err_ans(&la) && !is_err_ans(&ra) {
                    let t = |o: &str, m: &mut Model| eval_formula(m, &format!("({}{}{})", render(l), op_sym(o), render(r)));
                    let lt = t("lt", &mut *m);
                    let eq = t("eq", &mut *m);
                    let gt = t("gt", &mut *m);
                    let n = [&lt, &eq, &gt].iter().filter(|x| x.as_str() == "V b1").count();
                    if n != 1 {
                        fails.push(("c06:compare:not-exactly-one-of-lt-eq-gt".into(), format!("{} : <{lt} ={eq} >{gt}", render(e))));
                    }
                    // antisymmetry: l < r exactly when r > l
                    let swapped = eval_formula(m, &format!("({}>{})", render(r), render(l)));
                    if swapped != lt {
                        fails.push(("c06:compare:not-antisymmetric".into(), format!("{} : l<r is {lt} but r>l is {swapped}", render(e))));
                    }
                }
            }
        }
        // (handled below) AND / OR: an error in ANY argument is the result (reference rule; Excel evaluates all arguments)
        E::Call(f, args) if *f == "AND" || *f == "OR" => {
            if !is_err_ans(ans) && ans.starts_with("V ") {
                for a in args {
                    if matches!(a, E::Range(..)) {
                        continue;
                    }
                    let aa = eval_formula(m, &render(a));
                    if is_err_ans(&aa) {
                        let sig = if nonfinite_intermediate(m, a, &aa) {
                            "c06:nonfinite-intermediate-is-a-number-not-an-error"
                        } else {
                            "c06:and-or:short-circuit-swallows-error"
                        };
                        fails.push((
                            sig.into(),
                            format!("{} = {ans} although argument {} = {aa}", render(e), render(a)),
                        ));
                        break;
                    }
                }
            }
        }
        _ => {}
    }
}

fn eval_ev(req: &str) -> ImplOut {
    let Some((pool, e)) = parse_request(req) else {
        return ImplOut::new("bad-request".into()).trivial();
    };
    let text = render(&e);
    let res = with_model(&pool, |m| {
        let ans = eval_formula(m, &text);
        let mut fails = vec![];
        oracles(m, &pool, &e, &ans, &mut fails);
        (ans, fails)
    });
    match res {
        Some((ans, fails)) => {
            let mut out = ImplOut::new(ans.clone());
            out.oracle = fails;
            let mut tags = vec![];
            slot_tags(&e, &pool, &mut tags);
            tags.push(format!("result:{}", if ans.starts_with("A ") { "array".to_string() } else { ans.chars().skip(2).take(1).collect::<String>() }));
            out.tags = tags;
            out.nontrivial = !is_err_ans(&ans);
            out
        }
        None => ImplOut::new("panic".into()).tag("panic(C11's business)").trivial(),
    }
}

fn gen_programs(ctx: &Ctx, sink: &mut dyn FnMut(String)) {
    let mut rng = Rng::new(ctx.seed ^ 0xC06);
    let n = if ctx.tier == Tier::Thorough { 120_000 } else { 5_000 };
    // regression corpus first
    let corpus_pool: Vec<((i32, i32), V)> = vec![
        ((1, 1), V::Num(1.0)),
        ((1, 2), V::Str("12".into())),
        ((2, 1), V::Str(" 7 ".into())),
        ((2, 2), V::Err("#N/A")),
        ((3, 1), V::Bool(true)),
        ((3, 2), V::Str("abc".into())),
        ((4, 1), V::Num(0.0)),
        ((4, 2), V::Num(1.5e-16)),
        ((4, 3), V::Num(3e-16)),
    ];
    let lit = |f: f64| E::Lit(V::Num(f));
    let corpus: Vec<E> = vec![
        E::Call("OR", vec![E::Lit(V::Bool(true)), E::Lit(V::Err("#N/A"))]),
        E::Call("AND", vec![E::Lit(V::Bool(false)), E::Ref(2, 2)]),
        E::Bin("add", Box::new(E::Ref(2, 2)), Box::new(E::Lit(V::Err("#DIV/0!")))),
        E::Bin("add", Box::new(E::Range(1, 1, 2, 1)), Box::new(lit(1.0))),
        E::Bin("add", Box::new(E::Ref(2, 1)), Box::new(lit(1.0))),
        E::Bin("eq", Box::new(E::Ref(4, 1)), Box::new(E::Ref(4, 2))),
        E::Bin("cat", Box::new(E::Bin("add", Box::new(lit(0.1)), Box::new(lit(0.2)))), Box::new(E::Lit(V::Str("".into())))),
        E::Call("SUM", vec![E::Range(1, 1, 3, 2)]),
        E::Call("SUM", vec![E::Lit(V::Str("12".into())), E::Ref(1, 2)]),
        E::Call("IF", vec![E::Range(1, 1, 3, 1), lit(1.0), E::Lit(V::Str("no".into()))]),
        // F06d: a text cell as an element of an array operand vs as a scalar operand
        E::Bin("add", Box::new(lit(1.0)), Box::new(E::Range(2, 1, 3, 1))),
        E::Call("COUNT", vec![E::Ref(3, 1), E::Lit(V::Bool(true)), E::Lit(V::Str("12".into())), E::Ref(1, 2)]),
        // F06e inside a 1x1 array argument of AND (C1 is empty: {0}^(-7) = {inf}); must be classified F06e, not F06a
        E::Call("AND", vec![E::Lit(V::Bool(true)), E::Bin("pow", Box::new(E::Call("IFERROR", vec![E::Range(1, 3, 1, 3), E::Range(2, 4, 2, 4)])), Box::new(E::Neg(Box::new(E::Ref(2, 1)))))]),
        // F06e: an overflowing product is a number inside the formula, #NUM! only when stored
        E::Bin("eq", Box::new(lit(1.0)), Box::new(E::Bin("mul", Box::new(lit(1e200)), Box::new(lit(1e200))))),
    ];
    for e in &corpus {
        sink(request(&corpus_pool, e));
    }
    let mut pool = pool_values(&mut rng);
    for i in 0..n {
        if i % 25 == 0 {
            pool = pool_values(&mut rng);
        }
        let depth = 1 + rng.below(5) as u32;
        let e = {
            let mut g = Gen { rng: &mut rng, pool: &pool };
            if g.rng.chance(1, 5) {
                g.array(depth)
            } else {
                g.scalar(depth)
            }
        };
        sink(request(&pool, &e));
    }
}

/// the 9-value pool of the exhaustive enumeration, held in A1:C3 and also used as literals
fn nine() -> Vec<V> {
    vec![
        V::Num(0.0),
        V::Num(2.0),
        V::Num(-1.5),
        V::Str("abc".into()),
        V::Str("12".into()),
        V::Str("TRUE".into()),
        V::Bool(true),
        V::Err("#DIV/0!"),
        V::Empty,
    ]
}

fn gen_exhaustive(ctx: &Ctx, sink: &mut dyn FnMut(String)) {
    let vals = nine();
    let pool: Vec<((i32, i32), V)> = vals.iter().enumerate().map(|(i, v)| (((i / 3) as i32 + 1, (i % 3) as i32 + 1), v.clone())).collect();
    // operand forms: literal (not for empty) and reference
    let mut forms: Vec<E> = vec![];
    for (i, v) in vals.iter().enumerate() {
        forms.push(E::Ref((i / 3) as i32 + 1, (i % 3) as i32 + 1));
        if *v != V::Empty {
            forms.push(E::Lit(v.clone()));
        }
    }
    let quick = ctx.tier == Tier::Quick;
    // depth 1: every binary operator on every pair of forms, unary, one/two/three-argument functions
    let mut d1: Vec<E> = vec![];
    for op in BINOPS {
        for l in &forms {
            for r in &forms {
                d1.push(E::Bin(*op, Box::new(l.clone()), Box::new(r.clone())));
            }
        }
    }
    let nbin = d1.len();
    for x in &forms {
        d1.push(E::Neg(Box::new(x.clone())));
        d1.push(E::Pct(Box::new(x.clone())));
        for f in ["NOT", "ABS", "LEN", "ISNUMBER", "ISTEXT", "ISBLANK", "SUM", "MIN", "MAX", "COUNT", "COUNTA", "AVERAGE", "CONCAT", "AND", "OR"] {
            d1.push(E::Call(f, vec![x.clone()]));
        }
    }
    for f in ["SUM", "MIN", "MAX", "COUNT", "COUNTA", "AVERAGE", "CONCAT", "AND", "OR", "ROUND", "IFERROR", "IF"] {
        for a in &forms {
            for b in &forms {
                d1.push(E::Call(f, vec![a.clone(), b.clone()]));
            }
        }
    }
    for c in &forms {
        for t in [&forms[1], &forms[6], &forms[14]] {
            for e in [&forms[2], &forms[8], &forms[16]] {
                d1.push(E::Call("IF", vec![c.clone(), t.clone(), e.clone()]));
            }
        }
    }
    // ranges as aggregate arguments and operator operands
    let ranges = [E::Range(1, 1, 3, 3), E::Range(1, 1, 3, 1), E::Range(2, 1, 2, 3), E::Range(1, 1, 2, 2)];
    for rg in &ranges {
        for f in ["SUM", "MIN", "MAX", "COUNT", "COUNTA", "AVERAGE", "CONCAT", "AND", "OR", "ABS"] {
            d1.push(E::Call(f, vec![rg.clone()]));
        }
        for op in BINOPS {
            for x in &forms {
                d1.push(E::Bin(*op, Box::new(rg.clone()), Box::new(x.clone())));
                d1.push(E::Bin(*op, Box::new(x.clone()), Box::new(rg.clone())));
            }
            for rg2 in &ranges {
                d1.push(E::Bin(*op, Box::new(rg.clone()), Box::new(rg2.clone())));
            }
        }
    }
    let stride = if quick { 7 } else { 1 };
    for (i, e) in d1.iter().enumerate() {
        if i % stride == 0 {
            sink(request(&pool, e));
        }
    }
    if quick {
        return;
    }
    // depth 2, left-nested: (a op1 b) op2 c for every op1, op2 and every triple of reference forms + literals of c
    let refs: Vec<E> = forms.iter().filter(|f| matches!(f, E::Ref(..))).cloned().collect();
    for i in 0..nbin {
        if let E::Bin(_, l, r) = &d1[i] {
            if !(matches!(**l, E::Ref(..)) && matches!(**r, E::Ref(..))) {
                continue;
            }
        }
        for op2 in BINOPS {
            for c in &refs {
                sink(request(&pool, &E::Bin(*op2, Box::new(d1[i].clone()), Box::new(c.clone()))));
            }
        }
    }
}

/// number equality must be transitive on the implementation (a = b and b = c imply a = c)
fn gen_numeq(ctx: &Ctx, sink: &mut dyn FnMut(String)) {
    let mut rng = Rng::new(ctx.seed ^ 0xE9);
    let base: [f64; 13] = [0.0, 1.0, 1e-16, 1.5e-16, 3e-16, 1e-10, 0.1, 0.30000000000000004, 0.3, 1e15, 123456789012345.6, 1e-300, -1e-16];
    let n = if ctx.tier == Tier::Thorough { 4000 } else { 400 };
    sink(format!("c06 numeq {:016x} {:016x} {:016x}", 0f64.to_bits(), 1.5e-16f64.to_bits(), 3e-16f64.to_bits()));
    for _ in 0..n {
        let a = *rng.pick(&base);
        let scale = *rng.pick(&[1.0, 1.0, 1e-16, 1e-3, 1e5]);
        let b = a + scale * (rng.range(-3, 3) as f64) * 1e-16 * if a == 0.0 { 1.0 } else { a.abs().max(1.0) };
        let c = b + scale * (rng.range(-3, 3) as f64) * 1e-16 * if a == 0.0 { 1.0 } else { a.abs().max(1.0) };
        sink(format!("c06 numeq {:016x} {:016x} {:016x}", a.to_bits(), b.to_bits(), c.to_bits()));
    }
}

fn eval_numeq(req: &str) -> ImplOut {
    let f: Vec<&str> = req.split(' ').collect();
    let bits = |s: &str| f64::from_bits(u64::from_str_radix(s, 16).unwrap_or(0));
    let (a, b, c) = (bits(f[2]), bits(f[3]), bits(f[4]));
    let pool = vec![((1, 1), V::Num(a)), ((1, 2), V::Num(b)), ((1, 3), V::Num(c))];
    let res = with_model(&pool, |m| {
        let ab = eval_formula(m, "A1=B1");
        let bc = eval_formula(m, "B1=C1");
        let ac = eval_formula(m, "A1=C1");
        let lt = eval_formula(m, "A1<C1");
        (ab, bc, ac, lt)
    });
    match res {
        Some((ab, bc, ac, lt)) => {
            let ans = format!("{ab} {bc} {ac} {lt}");
            let mut out = ImplOut::new(ans.clone());
            if ab == "V b1" && bc == "V b1" && ac != "V b1" {
                out = out.fail(
                    "c06:compare:number-eq-not-transitive",
                    &format!("a={a:e} b={b:e} c={c:e}: a=b and b=c are TRUE but a=c is FALSE (a<c is {lt})"),
                );
            }
            out.nontrivial = ab == "V b1" || bc == "V b1";
            out.tag(if ab == "V b1" && bc == "V b1" { "chain-equal" } else { "not-chain" })
        }
        None => ImplOut::new("panic".into()).trivial(),
    }
}

fn thorough_only(t: Tier) -> bool {
    t == Tier::Thorough
}

pub fn suites() -> Vec<Suite> {
    let _ = CellValue::None;
    vec![
        Suite {
            name: "c06-programs",
            rule: "type-directed random programs over the core language (depth 1..5; 80% scalar-valued, 20% array-valued; operands: literals of every class and references into a 4x4 cell pool redrawn every 25 programs holding numbers, text, numeric-looking text, boolean-looking text, booleans, errors and empty cells; ranges and array-valued subexpressions in operator slots, aggregate arguments, IF/IFERROR/ABS); each evaluated by the engine (formula in B20, spill read back) and by the Lean reference evaluator; values exchanged as bit patterns; non-trivial = the result is not an error; histogram = static operand class per operator slot",
            modelled: true,
            gen: gen_programs,
            eval: eval_ev,
            exhaustive: never,
        },
        Suite {
            name: "c06-exhaustive",
            rule: "9-value pool (0, 2, -1.5, \"abc\", \"12\", \"TRUE\", TRUE, #DIV/0!, empty) in literal and reference form: every depth-1 program (12 binary operators on all pairs, 2 unary, 15 one-argument and 12 two-argument function calls, IF with 3 arguments, 4 ranges as operands and aggregate arguments); thorough adds every left-nested depth-2 binary program over references ((a op1 b) op2 c); quick takes every 7th depth-1 program",
            modelled: true,
            gen: gen_exhaustive,
            eval: eval_ev,
            exhaustive: thorough_only,
        },
        Suite {
            name: "c06-numeq",
            rule: "triples of nearby numbers a, b, c in cells; the engine's a=b, b=c, a=c, a<c; oracle: equality of numbers is transitive (compare_total_preorder); compared with the reference comparison of the driver",
            modelled: true,
            gen: gen_numeq,
            eval: eval_numeq,
            exhaustive: never,
        },
    ]
}
