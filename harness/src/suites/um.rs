//! Shared machinery for the `UserModel` properties (C01–C04, C27 and friends):
//!  * `Op` / `Cmd`: every history-recording `UserModel` operation as a value with a one-token codec,
//!  * `apply` (= `prepare` + `call`): run an op on the real `UserModel` (panics are caught),
//!  * `snapshot` / `snapshot_diff` / `diff_class`: the canonical observable snapshot of DESIGN.md 2.2,
//!  * `gen_op` / `invalid_table`: state-aware generators (valid ops, and the invalid-argument classes of C04),
//!  * `wf_check`: the well-formedness predicate of C27.
#![allow(dead_code)]
use crate::prng::Rng;
use crate::proto::{hex, unhex};
use ironcalc_base::cf_types::{CfRuleInput, Cfvo, ColorScaleThreshold, TextOperator, ValueOperator};
use ironcalc_base::expressions::types::Area;
use ironcalc_base::types::{
    Alignment, Cell, Color, Dxf, Fill, HorizontalAlignment, Link, Style, StyleIncludes,
};
use ironcalc_base::{BorderArea, ClipboardData, UserModel, COLUMN_WIDTH_FACTOR, ROW_HEIGHT_FACTOR};
use std::collections::{BTreeMap, BTreeSet, HashMap, HashSet};
use std::panic::{catch_unwind, AssertUnwindSafe};
use std::str::Split;

pub const LAST_ROW: i32 = 1_048_576;
pub const LAST_COLUMN: i32 = 16_384;
const DEFAULT_COLUMN_WIDTH: f64 = 90.0;
const DEFAULT_ROW_HEIGHT: f64 = 25.0;

pub fn new_model() -> UserModel<'static> {
    UserModel::new_empty("model", "en", "UTC", "en").expect("new_empty")
}

// ------------------------------------------------------------------------------------------
// field codec
// ------------------------------------------------------------------------------------------

/// An area (sheet, top-left cell, width, height); encoded as five `:`-separated integers.
#[derive(Clone, Copy, Debug, PartialEq)]
pub struct Ar {
    pub sheet: u32,
    pub row: i32,
    pub col: i32,
    pub width: i32,
    pub height: i32,
}

impl Ar {
    pub fn new(sheet: u32, row: i32, col: i32, width: i32, height: i32) -> Ar {
        Ar { sheet, row, col, width, height }
    }
    pub fn area(&self) -> Area {
        Area { sheet: self.sheet, row: self.row, column: self.col, width: self.width, height: self.height }
    }
    pub fn is_full_cols(&self) -> bool {
        self.row == 1 && self.height == LAST_ROW
    }
    pub fn is_full_rows(&self) -> bool {
        self.col == 1 && self.width == LAST_COLUMN
    }
    pub fn contains(&self, row: i32, col: i32) -> bool {
        row >= self.row
            && (row as i64) < self.row as i64 + self.height as i64
            && col >= self.col
            && (col as i64) < self.col as i64 + self.width as i64
    }
}

/// A small encodable description of a `Style` (encoded with `,` between its fields).
#[derive(Clone, Debug, PartialEq)]
pub struct StyleSpec {
    pub b: bool,
    pub i: bool,
    pub u: bool,
    pub sz: i32,
    pub num_fmt: String,
    /// "" or a colour parameter
    pub fill: String,
    /// "" or a colour parameter
    pub color: String,
    /// 0 none, 1 center, 2 left, 3 right
    pub halign: u32,
}

fn color_of(s: &str) -> Color {
    match Color::from_param(s) {
        Ok(c) => c,
        Err(_) => Color::Rgb(s.to_string()),
    }
}

impl StyleSpec {
    pub fn plain() -> StyleSpec {
        StyleSpec {
            b: false,
            i: false,
            u: false,
            sz: 12,
            num_fmt: "general".into(),
            fill: String::new(),
            color: String::new(),
            halign: 0,
        }
    }
    pub fn to_style(&self) -> Style {
        let mut s = Style::default();
        s.font.b = self.b;
        s.font.i = self.i;
        s.font.u = self.u;
        s.font.sz = self.sz;
        s.num_fmt = self.num_fmt.clone();
        s.fill = Fill { color: color_of(&self.fill) };
        s.font.color = color_of(&self.color);
        s.alignment = match self.halign {
            1 => Some(Alignment { horizontal: HorizontalAlignment::Center, ..Default::default() }),
            2 => Some(Alignment { horizontal: HorizontalAlignment::Left, ..Default::default() }),
            3 => Some(Alignment { horizontal: HorizontalAlignment::Right, ..Default::default() }),
            _ => None,
        };
        s
    }
    fn enc(&self) -> String {
        format!(
            "{},{},{},{},{},{},{},{}",
            self.b as u8,
            self.i as u8,
            self.u as u8,
            self.sz,
            hex(&self.num_fmt),
            hex(&self.fill),
            hex(&self.color),
            self.halign
        )
    }
    fn dec(s: &str) -> Option<StyleSpec> {
        let f: Vec<&str> = s.split(',').collect();
        if f.len() != 8 {
            return None;
        }
        Some(StyleSpec {
            b: dec_bool(f[0])?,
            i: dec_bool(f[1])?,
            u: dec_bool(f[2])?,
            sz: f[3].parse().ok()?,
            num_fmt: unhex(f[4])?,
            fill: unhex(f[5])?,
            color: unhex(f[6])?,
            halign: f[7].parse().ok()?,
        })
    }
}

fn dec_bool(s: &str) -> Option<bool> {
    match s {
        "0" => Some(false),
        "1" => Some(true),
        _ => None,
    }
}

pub fn enc_f64(v: f64) -> String {
    if v.is_finite() && v == v.trunc() && v.abs() < 1e15 {
        format!("{}", v as i64)
    } else {
        format!("{:?}", v)
    }
}

trait Field: Sized {
    fn enc(&self, out: &mut String);
    fn dec(it: &mut Split<'_, char>) -> Option<Self>;
}
impl Field for u32 {
    fn enc(&self, out: &mut String) {
        out.push_str(&self.to_string());
    }
    fn dec(it: &mut Split<'_, char>) -> Option<Self> {
        it.next()?.parse().ok()
    }
}
impl Field for i32 {
    fn enc(&self, out: &mut String) {
        out.push_str(&self.to_string());
    }
    fn dec(it: &mut Split<'_, char>) -> Option<Self> {
        it.next()?.parse().ok()
    }
}
impl Field for f64 {
    fn enc(&self, out: &mut String) {
        out.push_str(&enc_f64(*self));
    }
    fn dec(it: &mut Split<'_, char>) -> Option<Self> {
        it.next()?.parse().ok()
    }
}
impl Field for bool {
    fn enc(&self, out: &mut String) {
        out.push(if *self { '1' } else { '0' });
    }
    fn dec(it: &mut Split<'_, char>) -> Option<Self> {
        dec_bool(it.next()?)
    }
}
impl Field for String {
    fn enc(&self, out: &mut String) {
        out.push_str(&hex(self));
    }
    fn dec(it: &mut Split<'_, char>) -> Option<Self> {
        unhex(it.next()?)
    }
}
impl Field for Option<u32> {
    fn enc(&self, out: &mut String) {
        match self {
            None => out.push('n'),
            Some(v) => out.push_str(&v.to_string()),
        }
    }
    fn dec(it: &mut Split<'_, char>) -> Option<Self> {
        let s = it.next()?;
        if s == "n" {
            Some(None)
        } else {
            Some(Some(s.parse().ok()?))
        }
    }
}
impl Field for Option<String> {
    fn enc(&self, out: &mut String) {
        match self {
            None => out.push('~'),
            Some(v) => out.push_str(&hex(v)),
        }
    }
    fn dec(it: &mut Split<'_, char>) -> Option<Self> {
        let s = it.next()?;
        if s == "~" {
            Some(None)
        } else {
            Some(Some(unhex(s)?))
        }
    }
}
impl Field for Ar {
    fn enc(&self, out: &mut String) {
        out.push_str(&format!("{}:{}:{}:{}:{}", self.sheet, self.row, self.col, self.width, self.height));
    }
    fn dec(it: &mut Split<'_, char>) -> Option<Self> {
        Some(Ar {
            sheet: u32::dec(it)?,
            row: i32::dec(it)?,
            col: i32::dec(it)?,
            width: i32::dec(it)?,
            height: i32::dec(it)?,
        })
    }
}
impl Field for StyleSpec {
    fn enc(&self, out: &mut String) {
        out.push_str(&StyleSpec::enc(self));
    }
    fn dec(it: &mut Split<'_, char>) -> Option<Self> {
        StyleSpec::dec(it.next()?)
    }
}

macro_rules! ops {
    ($( $V:ident { $( $f:ident : $t:ty ),* } ),* $(,)?) => {
        /// One `UserModel` operation (see `call` for the API each variant maps to).
        #[derive(Clone, Debug, PartialEq)]
        pub enum Op { $( $V { $( $f : $t ),* } ),* }
        impl Op {
            pub fn kind(&self) -> &'static str {
                match self { $( Op::$V { .. } => stringify!($V) ),* }
            }
            /// One token without spaces: `Kind:field:field…` (strings hex-encoded).
            pub fn encode(&self) -> String {
                match self {
                    $( Op::$V { $( $f ),* } => {
                        #[allow(unused_mut)]
                        let mut s = String::from(stringify!($V));
                        $( s.push(':'); Field::enc($f, &mut s); )*
                        s
                    } ),*
                }
            }
            pub fn decode(tok: &str) -> Option<Op> {
                let mut it = tok.split(':');
                let k = it.next()?;
                let op = match k {
                    $( stringify!($V) => Op::$V { $( $f: <$t as Field>::dec(&mut it)? ),* }, )*
                    _ => return None,
                };
                if it.next().is_some() {
                    return None;
                }
                Some(op)
            }
            pub const KINDS: &'static [&'static str] = &[ $( stringify!($V) ),* ];
        }
    };
}

ops! {
    SetUserInput { sheet: u32, row: i32, col: i32, value: String },
    SetUserArrayFormula { sheet: u32, row: i32, col: i32, width: i32, height: i32, formula: String },
    RangeClearContents { area: Ar },
    RangeClearAll { area: Ar },
    RangeClearFormatting { area: Ar },
    UpdateRangeStyle { area: Ar, path: String, value: String },
    OnPasteStyles { height: u32, width: u32, a: StyleSpec, b: StyleSpec },
    SetAreaWithBorder { area: Ar, btype: String, style: String, color: String },
    CreateNamedStyle { name: String, spec: StyleSpec, includes: u32 },
    DeleteNamedStyle { name: String },
    UpdateNamedStyle { name: String, new_name: String, spec: StyleSpec, includes: u32 },
    ApplyNamedStyle { name: String },
    InsertRows { sheet: u32, row: i32, count: i32 },
    InsertColumns { sheet: u32, col: i32, count: i32 },
    DeleteRows { sheet: u32, row: i32, count: i32 },
    DeleteColumns { sheet: u32, col: i32, count: i32 },
    MoveRows { sheet: u32, row: i32, count: i32, delta: i32 },
    MoveColumns { sheet: u32, col: i32, count: i32, delta: i32 },
    SetColumnsWidth { sheet: u32, start: i32, end: i32, width: f64 },
    SetRowsHeight { sheet: u32, start: i32, end: i32, height: f64 },
    SetColumnsHidden { sheet: u32, start: i32, end: i32, hidden: bool },
    SetRowsHidden { sheet: u32, start: i32, end: i32, hidden: bool },
    NewSheet {},
    DeleteSheet { sheet: u32 },
    DuplicateSheet { sheet: u32 },
    RenameSheet { sheet: u32, name: String },
    MoveSheet { sheet: u32, to: u32 },
    HideSheet { sheet: u32 },
    UnhideSheet { sheet: u32 },
    SetSheetColor { sheet: u32, color: String },
    SetFrozenRows { sheet: u32, count: i32 },
    SetFrozenColumns { sheet: u32, count: i32 },
    SetShowGridLines { sheet: u32, show: bool },
    NewDefinedName { name: String, scope: Option<u32>, formula: String },
    DeleteDefinedName { name: String, scope: Option<u32> },
    UpdateDefinedName { name: String, scope: Option<u32>, new_name: String, new_scope: Option<u32>, new_formula: String },
    SetCellLink { sheet: u32, row: i32, col: i32, external: bool, target: String, tooltip: Option<String>, label: Option<String> },
    DeleteCellLink { sheet: u32, row: i32, col: i32 },
    AddCf { sheet: u32, range: String, kind: u32, formula: String, color: String },
    DeleteCf { sheet: u32, index: u32 },
    UpdateCf { sheet: u32, index: u32, range: String, kind: u32, formula: String, color: String },
    RaiseCf { sheet: u32, index: u32 },
    LowerCf { sheet: u32, index: u32 },
    Paste { src_sheet: u32, r1: i32, c1: i32, r2: i32, c2: i32, dst_sheet: u32, dst_row: i32, dst_col: i32, cut: bool },
    PasteCsv { sheet: u32, row: i32, col: i32, csv: String },
    AutoFillRows { area: Ar, to_row: i32 },
    AutoFillColumns { area: Ar, to_col: i32 },
    SetLocale { locale: String },
    SetTimezone { tz: String },
    SetName { name: String },
    SetTheme { index: u32 },
    SetSelectedSheet { sheet: u32 },
    SetSelectedCell { row: i32, col: i32 },
    SetSelectedRange { r1: i32, c1: i32, r2: i32, c2: i32 },
    SetLanguage { lang: String },
}

impl Op {
    /// ops that never record history (view / language)
    pub fn is_non_recording(&self) -> bool {
        matches!(
            self,
            Op::SetSelectedSheet { .. } | Op::SetSelectedCell { .. } | Op::SetSelectedRange { .. } | Op::SetLanguage { .. }
        )
    }
}

/// A command of a history.
#[derive(Clone, Debug, PartialEq)]
pub enum Cmd {
    Op(Op),
    Undo,
    Redo,
    Flush,
}

impl Cmd {
    pub fn encode(&self) -> String {
        match self {
            Cmd::Op(o) => o.encode(),
            Cmd::Undo => "U".into(),
            Cmd::Redo => "R".into(),
            Cmd::Flush => "F".into(),
        }
    }
    pub fn decode(tok: &str) -> Option<Cmd> {
        match tok {
            "U" => Some(Cmd::Undo),
            "R" => Some(Cmd::Redo),
            "F" => Some(Cmd::Flush),
            _ => Op::decode(tok).map(Cmd::Op),
        }
    }
    pub fn kind(&self) -> &'static str {
        match self {
            Cmd::Op(o) => o.kind(),
            Cmd::Undo => "Undo",
            Cmd::Redo => "Redo",
            Cmd::Flush => "Flush",
        }
    }
}

pub fn encode_cmds(cmds: &[Cmd]) -> String {
    cmds.iter().map(|c| c.encode()).collect::<Vec<_>>().join(" ")
}

// ------------------------------------------------------------------------------------------
// apply
// ------------------------------------------------------------------------------------------

pub fn includes_of(mask: u32) -> StyleIncludes {
    StyleIncludes {
        number_format: mask & 1 != 0,
        font: mask & 2 != 0,
        fill: mask & 4 != 0,
        border: mask & 8 != 0,
        alignment: mask & 16 != 0,
        protection: mask & 32 != 0,
    }
}

/// The conditional-formatting rule denoted by (kind, formula, colour).
pub fn cf_rule(kind: u32, formula: &str, color: &str) -> CfRuleInput {
    let c = color_of(color);
    let dxf = Dxf { fill: Some(Fill { color: c.clone() }), ..Default::default() };
    match kind % 8 {
        0 => CfRuleInput::ColorScale {
            thresholds: vec![
                ColorScaleThreshold { cfvo: Cfvo::Min, color: Color::Rgb("#FF0000".into()) },
                ColorScaleThreshold { cfvo: Cfvo::Max, color: c },
            ],
        },
        1 => CfRuleInput::DataBar {
            min: Some(Cfvo::Min),
            max: Some(Cfvo::Max),
            positive_color: c,
            negative_color: Color::Rgb("#FF0000".into()),
            is_gradient: true,
            show_value: true,
        },
        2 => CfRuleInput::CellIs {
            operator: ValueOperator::GreaterThan,
            formula: formula.to_string(),
            formula2: None,
            format: dxf,
            stop_if_true: false,
        },
        3 => CfRuleInput::Formula { formula: formula.to_string(), format: dxf, stop_if_true: false },
        4 => CfRuleInput::DuplicateValues { format: dxf, stop_if_true: false },
        5 => CfRuleInput::Top10 { rank: 3, percent: false, format: dxf, stop_if_true: false },
        6 => CfRuleInput::Text {
            operator: TextOperator::Contains,
            value: formula.to_string(),
            format: dxf,
            stop_if_true: false,
        },
        _ => CfRuleInput::CellIs {
            operator: ValueOperator::Between,
            formula: formula.to_string(),
            formula2: Some("10".to_string()),
            format: dxf,
            stop_if_true: true,
        },
    }
}

fn border_area(btype: &str, style: &str, color: &str) -> Result<BorderArea, String> {
    let v = serde_json::json!({"item": {"style": style, "color": color}, "type": btype});
    serde_json::from_value::<BorderArea>(v).map_err(|e| format!("HARNESS: border area: {e}"))
}

/// What `prepare` produced (the clipboard of a `Paste`).
#[derive(Default)]
pub struct Prepared {
    clipboard: Option<ClipboardData>,
}

fn guarded<T>(f: impl FnOnce() -> Result<T, String>) -> Result<T, String> {
    match catch_unwind(AssertUnwindSafe(f)) {
        Ok(r) => r,
        Err(p) => {
            let msg = if let Some(s) = p.downcast_ref::<&str>() {
                s.to_string()
            } else if let Some(s) = p.downcast_ref::<String>() {
                s.clone()
            } else {
                "?".to_string()
            };
            Err(format!("PANIC: {msg}"))
        }
    }
}

/// Harness-level preparation that is *not* part of the operation under test: for `Paste`, select the
/// source range, copy it, and select the destination cell (all view-only calls). Errors are
/// reported as `Err("PREPARE: …")`.
pub fn prepare(m: &mut UserModel<'static>, op: &Op) -> Result<Prepared, String> {
    match op {
        Op::Paste { src_sheet, r1, c1, r2, c2, dst_sheet, dst_row, dst_col, .. } => guarded(|| {
            let pre = |e: String| format!("PREPARE: {e}");
            m.set_selected_sheet(*src_sheet).map_err(pre)?;
            m.set_selected_cell(*r1, *c1).map_err(pre)?;
            m.set_selected_range(*r1, *c1, *r2, *c2).map_err(pre)?;
            let cp = m.copy_to_clipboard().map_err(pre)?;
            let v = serde_json::to_value(&cp).map_err(|e| format!("PREPARE: {e}"))?;
            let data: ClipboardData = serde_json::from_value(v.get("data").cloned().unwrap_or_default())
                .map_err(|e| format!("PREPARE: {e}"))?;
            m.set_selected_sheet(*dst_sheet).map_err(pre)?;
            m.set_selected_cell(*dst_row, *dst_col).map_err(pre)?;
            Ok(Prepared { clipboard: Some(data) })
        }),
        _ => Ok(Prepared::default()),
    }
}

/// Exactly one call of the real API (panics are returned as `Err("PANIC: …")`).
pub fn call(m: &mut UserModel<'static>, op: &Op, prep: &Prepared) -> Result<(), String> {
    guarded(|| call_inner(m, op, prep))
}

/// `prepare` followed by `call`.
pub fn apply(m: &mut UserModel<'static>, op: &Op) -> Result<(), String> {
    let p = prepare(m, op)?;
    call(m, op, &p)
}

/// Number of cells in the selected range of the selected sheet.
pub fn selection_cells(m: &UserModel<'_>) -> i64 {
    let v = m.get_selected_view();
    let [r1, c1, r2, c2] = v.range;
    ((r2 - r1).abs() as i64 + 1) * ((c2 - c1).abs() as i64 + 1)
}

/// `on_paste_styles` / `on_apply_named_style` write one cell per selected cell: after the engine has
/// selected a whole row or column (hiding rows/columns does that) they would create up to a million
/// cells. The harness refuses those calls (they are legal, just too expensive for a test).
const MAX_SELECTION: i64 = 512;

fn call_inner(m: &mut UserModel<'static>, op: &Op, prep: &Prepared) -> Result<(), String> {
    if matches!(op, Op::OnPasteStyles { .. } | Op::ApplyNamedStyle { .. }) && selection_cells(m) > MAX_SELECTION {
        return Err("HARNESS: selection too large".into());
    }
    match op {
        Op::SetUserInput { sheet, row, col, value } => m.set_user_input(*sheet, *row, *col, value),
        Op::SetUserArrayFormula { sheet, row, col, width, height, formula } => {
            m.set_user_array_formula(*sheet, *row, *col, *width, *height, formula)
        }
        Op::RangeClearContents { area } => m.range_clear_contents(&area.area()),
        Op::RangeClearAll { area } => m.range_clear_all(&area.area()),
        Op::RangeClearFormatting { area } => m.range_clear_formatting(&area.area()),
        Op::UpdateRangeStyle { area, path, value } => m.update_range_style(&area.area(), path, value),
        Op::OnPasteStyles { height, width, a, b } => {
            let (sa, sb) = (a.to_style(), b.to_style());
            let styles: Vec<Vec<Style>> = (0..*height)
                .map(|i| (0..*width).map(|j| if (i + j) % 2 == 0 { sa.clone() } else { sb.clone() }).collect())
                .collect();
            if styles.is_empty() || styles[0].is_empty() {
                return Err("HARNESS: empty style matrix".into());
            }
            m.on_paste_styles(&styles)
        }
        Op::SetAreaWithBorder { area, btype, style, color } => {
            let ba = border_area(btype, style, color)?;
            m.set_area_with_border(&area.area(), &ba)
        }
        Op::CreateNamedStyle { name, spec, includes } => {
            m.create_named_style(name, &spec.to_style(), includes_of(*includes))
        }
        Op::DeleteNamedStyle { name } => m.delete_named_style(name),
        Op::UpdateNamedStyle { name, new_name, spec, includes } => {
            m.update_named_style(name, new_name, &spec.to_style(), includes_of(*includes))
        }
        Op::ApplyNamedStyle { name } => m.on_apply_named_style(name),
        Op::InsertRows { sheet, row, count } => m.insert_rows(*sheet, *row, *count),
        Op::InsertColumns { sheet, col, count } => m.insert_columns(*sheet, *col, *count),
        Op::DeleteRows { sheet, row, count } => m.delete_rows(*sheet, *row, *count),
        Op::DeleteColumns { sheet, col, count } => m.delete_columns(*sheet, *col, *count),
        Op::MoveRows { sheet, row, count, delta } => m.move_rows_action(*sheet, *row, *count, *delta),
        Op::MoveColumns { sheet, col, count, delta } => m.move_columns_action(*sheet, *col, *count, *delta),
        Op::SetColumnsWidth { sheet, start, end, width } => m.set_columns_width(*sheet, *start, *end, *width),
        Op::SetRowsHeight { sheet, start, end, height } => m.set_rows_height(*sheet, *start, *end, *height),
        Op::SetColumnsHidden { sheet, start, end, hidden } => m.set_columns_hidden(*sheet, *start, *end, *hidden),
        Op::SetRowsHidden { sheet, start, end, hidden } => m.set_rows_hidden(*sheet, *start, *end, *hidden),
        Op::NewSheet {} => m.new_sheet(),
        Op::DeleteSheet { sheet } => m.delete_sheet(*sheet),
        Op::DuplicateSheet { sheet } => m.duplicate_sheet(*sheet),
        Op::RenameSheet { sheet, name } => m.rename_sheet(*sheet, name),
        Op::MoveSheet { sheet, to } => m.move_sheet(*sheet, *to),
        Op::HideSheet { sheet } => m.hide_sheet(*sheet),
        Op::UnhideSheet { sheet } => m.unhide_sheet(*sheet),
        Op::SetSheetColor { sheet, color } => m.set_sheet_color(*sheet, &color_of(color)),
        Op::SetFrozenRows { sheet, count } => m.set_frozen_rows_count(*sheet, *count),
        Op::SetFrozenColumns { sheet, count } => m.set_frozen_columns_count(*sheet, *count),
        Op::SetShowGridLines { sheet, show } => m.set_show_grid_lines(*sheet, *show),
        Op::NewDefinedName { name, scope, formula } => m.new_defined_name(name, *scope, formula),
        Op::DeleteDefinedName { name, scope } => m.delete_defined_name(name, *scope),
        Op::UpdateDefinedName { name, scope, new_name, new_scope, new_formula } => {
            m.update_defined_name(name, *scope, new_name, *new_scope, new_formula)
        }
        Op::SetCellLink { sheet, row, col, external, target, tooltip, label } => {
            let link = if *external {
                Link::External { target: target.clone(), tooltip: tooltip.clone() }
            } else {
                Link::Internal { location: target.clone(), tooltip: tooltip.clone() }
            };
            m.set_cell_link(*sheet, *row, *col, link, label.as_deref())
        }
        Op::DeleteCellLink { sheet, row, col } => m.delete_cell_link(*sheet, *row, *col),
        Op::AddCf { sheet, range, kind, formula, color } => {
            m.add_conditional_formatting(*sheet, range, cf_rule(*kind, formula, color))
        }
        Op::DeleteCf { sheet, index } => m.delete_conditional_formatting(*sheet, *index),
        Op::UpdateCf { sheet, index, range, kind, formula, color } => {
            m.update_conditional_formatting(*sheet, *index, range, cf_rule(*kind, formula, color))
        }
        Op::RaiseCf { sheet, index } => m.raise_conditional_formatting_priority(*sheet, *index),
        Op::LowerCf { sheet, index } => m.lower_conditional_formatting_priority(*sheet, *index),
        Op::Paste { src_sheet, r1, c1, r2, c2, cut, .. } => match &prep.clipboard {
            Some(data) => m.paste_from_clipboard(*src_sheet, (*r1, *c1, *r2, *c2), data, *cut),
            None => Err("PREPARE: no clipboard".into()),
        },
        Op::PasteCsv { sheet, row, col, csv } => {
            m.paste_csv_string(&Area { sheet: *sheet, row: *row, column: *col, width: 1, height: 1 }, csv)
        }
        Op::AutoFillRows { area, to_row } => m.auto_fill_rows(&area.area(), *to_row),
        Op::AutoFillColumns { area, to_col } => m.auto_fill_columns(&area.area(), *to_col),
        Op::SetLocale { locale } => m.set_locale(locale),
        Op::SetTimezone { tz } => m.set_timezone(tz),
        Op::SetName { name } => {
            m.set_name(name);
            Ok(())
        }
        Op::SetTheme { index } => {
            let themes = ironcalc_base::themes::builtin_themes();
            match themes.get(*index as usize) {
                Some(t) => {
                    m.set_theme(t.clone());
                    Ok(())
                }
                None => Err("HARNESS: no such builtin theme".into()),
            }
        }
        Op::SetSelectedSheet { sheet } => m.set_selected_sheet(*sheet),
        Op::SetSelectedCell { row, col } => m.set_selected_cell(*row, *col),
        Op::SetSelectedRange { r1, c1, r2, c2 } => m.set_selected_range(*r1, *c1, *r2, *c2),
        Op::SetLanguage { lang } => m.set_language(lang),
    }
}

// ------------------------------------------------------------------------------------------
// observable snapshot (DESIGN.md 2.2)
// ------------------------------------------------------------------------------------------

pub type Snap = Vec<(String, String)>;

/// Compact injective text of a decoded style (`default` for the default style).
pub fn style_str(s: &Style) -> String {
    if *s == Style::default() {
        "default".to_string()
    } else {
        serde_json::to_string(s).unwrap_or_else(|e| format!("ERR:{e}"))
    }
}

fn style_res(r: Result<Style, String>) -> String {
    match r {
        Ok(s) => style_str(&s),
        Err(e) => format!("ERR:{e}"),
    }
}

fn opt_style_res(r: Result<Option<Style>, String>) -> String {
    match r {
        Ok(Some(s)) => style_str(&s),
        Ok(None) => "default".to_string(),
        Err(e) => format!("ERR:{e}"),
    }
}

/// `{:?}` of a CF rule with the pool index `dxf_id: N` replaced by the decoded differential format.
fn cf_rule_str(rule: &ironcalc_base::cf_types::CfRule, dxf: Result<Option<Dxf>, String>) -> String {
    let raw = format!("{:?}", rule);
    let d = match dxf {
        Ok(Some(d)) => format!("{:?}", d),
        Ok(None) => "none".to_string(),
        Err(e) => format!("ERR:{e}"),
    };
    if let Some(p) = raw.find("dxf_id: ") {
        let rest = &raw[p + 8..];
        let n = rest.chars().take_while(|c| c.is_ascii_digit()).count();
        format!("{}dxf: {}{}", &raw[..p], d, &rest[n..])
    } else {
        raw
    }
}

/// The style an absent cell at (row, column) would show (row style if `custom_format`, else column style).
fn inherited_style(m: &UserModel<'_>, sheet: u32, row: i32, col: i32) -> String {
    let model = m.get_model();
    if let Ok(ws) = model.workbook.worksheet(sheet) {
        for r in &ws.rows {
            if r.r == row {
                if r.custom_format {
                    return opt_style_res(model.get_row_style(sheet, row));
                }
                break;
            }
        }
    }
    opt_style_res(model.get_column_style(sheet, col))
}

/// The canonical sorted observable snapshot: `(path, value)` pairs sorted by path.
pub fn snapshot(m: &UserModel<'_>, with_view: bool) -> Snap {
    let model = m.get_model();
    let wb = &model.workbook;
    let mut out: Snap = vec![];
    out.push(("sheets.count".into(), wb.worksheets.len().to_string()));
    for (i, ws) in wb.worksheets.iter().enumerate() {
        let si = i as u32;
        let p = format!("sheet[{i}]");
        out.push((format!("{p}.name"), ws.name.clone()));
        out.push((format!("{p}.id"), ws.sheet_id.to_string()));
        out.push((format!("{p}.state"), ws.state.to_string()));
        out.push((format!("{p}.color"), format!("{:?}", ws.color)));
        out.push((format!("{p}.frozen_rows"), ws.frozen_rows.to_string()));
        out.push((format!("{p}.frozen_cols"), ws.frozen_columns.to_string()));
        out.push((format!("{p}.grid"), ws.show_grid_lines.to_string()));

        // columns: per-column attributes, first matching descriptor wins (as in the engine)
        let mut bounds: BTreeSet<i32> = BTreeSet::new();
        for c in &ws.cols {
            if c.min <= c.max {
                bounds.insert(c.min.max(1));
                bounds.insert((c.max.min(LAST_COLUMN)) + 1);
            }
        }
        let bounds: Vec<i32> = bounds.into_iter().collect();
        let default_attr = (enc_f64(DEFAULT_COLUMN_WIDTH), false, "default".to_string());
        let mut runs: Vec<(i32, i32, (String, bool, String))> = vec![];
        for w in bounds.windows(2) {
            let (a, b) = (w[0], w[1] - 1);
            if a > b || a > LAST_COLUMN {
                continue;
            }
            let attr = match ws.cols.iter().find(|c| c.min <= a && a <= c.max) {
                Some(c) => {
                    let width = if c.custom_width { c.width * COLUMN_WIDTH_FACTOR } else { DEFAULT_COLUMN_WIDTH };
                    (enc_f64(width), c.hidden, opt_style_res(model.get_column_style(si, a)))
                }
                None => default_attr.clone(),
            };
            if let Some(last) = runs.last_mut() {
                if last.1 + 1 == a && last.2 == attr {
                    last.1 = b;
                    continue;
                }
            }
            runs.push((a, b, attr));
        }
        for (a, b, attr) in runs {
            if attr == default_attr {
                continue;
            }
            let keys: Vec<String> = if b - a < 32 {
                (a..=b).map(|c| format!("{p}.col[{c}]")).collect()
            } else {
                vec![format!("{p}.col[{a}..{b}]")]
            };
            for k in keys {
                if attr.0 != default_attr.0 {
                    out.push((format!("{k}.width"), attr.0.clone()));
                }
                if attr.1 {
                    out.push((format!("{k}.hidden"), "true".into()));
                }
                if attr.2 != "default" {
                    out.push((format!("{k}.style"), attr.2.clone()));
                }
            }
        }

        // rows: first entry for a row index wins (as in the engine)
        let mut seen: HashSet<i32> = HashSet::new();
        for r in &ws.rows {
            if !seen.insert(r.r) {
                continue;
            }
            let k = format!("{p}.row[{}]", r.r);
            let h = r.height * ROW_HEIGHT_FACTOR;
            if h != DEFAULT_ROW_HEIGHT {
                out.push((format!("{k}.height"), enc_f64(h)));
            }
            if r.hidden {
                out.push((format!("{k}.hidden"), "true".into()));
            }
            if r.custom_format {
                let s = opt_style_res(model.get_row_style(si, r.r));
                if s != "default" {
                    out.push((format!("{k}.style"), s));
                }
            }
        }

        // cells
        for (row, data) in &ws.sheet_data {
            for (col, cell) in data {
                let k = format!("{p}.cell[{row},{col}]");
                let style = style_res(model.get_style_for_cell(si, *row, *col));
                if let Cell::EmptyCell { .. } = cell {
                    if style != inherited_style(m, si, *row, *col) {
                        out.push((format!("{k}.style"), style));
                    }
                    continue;
                }
                let kind = match cell {
                    Cell::EmptyCell { .. } => "empty".to_string(),
                    Cell::BooleanCell { .. } => "bool".to_string(),
                    Cell::NumberCell { .. } => "number".to_string(),
                    Cell::ErrorCell { .. } => "error".to_string(),
                    Cell::SharedString { .. } => "string".to_string(),
                    Cell::CellFormula { .. } => "formula".to_string(),
                    Cell::ArrayFormula { r, kind, .. } => match kind {
                        ironcalc_base::types::ArrayKind::Cse => format!("array-cse({},{})", r.0, r.1),
                        ironcalc_base::types::ArrayKind::Dynamic => format!("array-dyn({},{})", r.0, r.1),
                    },
                    Cell::SpillCell { a, .. } => format!("spill({},{})", a.0, a.1),
                };
                out.push((format!("{k}.kind"), kind));
                // a dangling shared-string / formula index makes the getters panic or fail: guard them
                let content = catch_unwind(AssertUnwindSafe(|| m.get_cell_content(si, *row, *col)))
                    .unwrap_or_else(|_| Err("PANIC".into()));
                out.push((format!("{k}.content"), content.unwrap_or_else(|e| format!("ERR:{e}"))));
                let value = catch_unwind(AssertUnwindSafe(|| model.get_cell_value_by_index(si, *row, *col)))
                    .unwrap_or_else(|_| Err("PANIC".into()));
                out.push((
                    format!("{k}.value"),
                    match value {
                        Ok(v) => format!("{:?}", v),
                        Err(e) => format!("ERR:{e}"),
                    },
                ));
                let text = catch_unwind(AssertUnwindSafe(|| m.get_formatted_cell_value(si, *row, *col)))
                    .unwrap_or_else(|_| Err("PANIC".into()));
                out.push((format!("{k}.text"), text.unwrap_or_else(|e| format!("ERR:{e}"))));
                out.push((format!("{k}.style"), style));
            }
        }

        // links
        for ((row, col), link) in &ws.links {
            out.push((format!("{p}.link[{row},{col}]"), format!("{:?}", link)));
        }

        // conditional formats, in storage order
        if !ws.conditional_formatting.is_empty() {
            out.push((format!("{p}.cf.count"), ws.conditional_formatting.len().to_string()));
        }
        for (k, cf) in ws.conditional_formatting.iter().enumerate() {
            out.push((format!("{p}.cf[{k}].range"), cf.range.clone()));
            out.push((
                format!("{p}.cf[{k}].rule"),
                cf_rule_str(&cf.cf_rule, model.get_dxf_for_conditional_formatting(si, k)),
            ));
            out.push((format!("{p}.cf[{k}].priority"), cf.priority.to_string()));
        }

        if with_view {
            if let Some(v) = ws.views.get(&0) {
                out.push((format!("{p}.view.cell"), format!("{},{}", v.row, v.column)));
                out.push((format!("{p}.view.range"), format!("{:?}", v.range)));
            }
        }
    }

    // defined names: stored (raw) and displayed
    let mut key_count: HashMap<String, usize> = HashMap::new();
    let mut stored: Vec<(String, String)> = wb
        .defined_names
        .iter()
        .map(|d| (format!("{}|{:?}", d.name, d.sheet_id), d.formula.clone()))
        .collect();
    stored.sort();
    for (k, f) in stored {
        let n = key_count.entry(k.clone()).or_insert(0);
        let path = if *n == 0 { format!("names[{k}]") } else { format!("names[{k}#{n}]") };
        *n += 1;
        out.push((path, f));
    }
    let mut shown: Vec<(String, String)> = m
        .get_defined_name_list()
        .into_iter()
        .map(|(n, scope, f)| (format!("{}|{:?}", n, scope), f))
        .collect();
    shown.sort();
    key_count.clear();
    for (k, f) in shown {
        let n = key_count.entry(k.clone()).or_insert(0);
        let path = if *n == 0 { format!("names-shown[{k}]") } else { format!("names-shown[{k}#{n}]") };
        *n += 1;
        out.push((path, f));
    }

    // named styles
    let mut ns = m.get_named_style_list();
    ns.sort();
    ns.dedup();
    for name in ns {
        out.push((format!("named-style[{name}].style"), style_res(m.get_named_style(&name))));
        out.push((
            format!("named-style[{name}].includes"),
            match m.get_named_style_includes(&name) {
                Ok(i) => format!("{:?}", i),
                Err(e) => format!("ERR:{e}"),
            },
        ));
    }

    out.push(("theme".into(), format!("{:?}", wb.theme)));
    out.push(("wb.name".into(), wb.name.clone()));
    out.push(("wb.locale".into(), wb.settings.locale.clone()));
    out.push(("wb.tz".into(), wb.settings.tz.clone()));
    if with_view {
        out.push(("view.sheet".into(), m.get_selected_sheet().to_string()));
    }
    out.sort();
    out
}

/// The class of a snapshot path.
pub fn diff_class(path: &str) -> &'static str {
    if path.starts_with("view") || path.contains("].view.") {
        return "view";
    }
    if path.starts_with("names") {
        return "defined-name";
    }
    if path.starts_with("named-style") {
        return "named-style";
    }
    if path == "theme" {
        return "theme";
    }
    if path.starts_with("wb.") {
        return "wb-prop";
    }
    if path == "sheets.count" {
        return "sheet-prop";
    }
    if let Some(p) = path.find("].") {
        let rest = &path[p + 2..];
        if rest.starts_with("col[") {
            return "col";
        }
        if rest.starts_with("row[") {
            return "row";
        }
        if rest.starts_with("link[") {
            return "link";
        }
        if rest.starts_with("cf") {
            return "cf";
        }
        if rest.starts_with("cell[") {
            if rest.ends_with(".kind") {
                return "cell-kind";
            }
            if rest.ends_with(".content") {
                return "cell-content";
            }
            if rest.ends_with(".style") {
                return "cell-style";
            }
            return "cell-value";
        }
        return "sheet-prop";
    }
    "wb-prop"
}

fn class_rank(c: &str) -> u32 {
    match c {
        "wb-prop" => 0,
        "sheet-prop" => 1,
        "cell-kind" => 2,
        "cell-content" => 3,
        "cell-value" => 4,
        "cell-style" => 5,
        "col" => 6,
        "row" => 7,
        "link" => 8,
        "cf" => 9,
        "defined-name" => 10,
        "named-style" => 11,
        "theme" => 12,
        _ => 13,
    }
}

fn natural_key(path: &str) -> String {
    let mut out = String::new();
    let mut num = String::new();
    for ch in path.chars() {
        if ch.is_ascii_digit() {
            num.push(ch);
        } else {
            if !num.is_empty() {
                out.push_str(&format!("{:0>8}", num));
                num.clear();
            }
            out.push(ch);
        }
    }
    if !num.is_empty() {
        out.push_str(&format!("{:0>8}", num));
    }
    out
}

pub const DIFF_SEP: &str = " := ";

/// Paths that differ, as `path := <a> => <b>`, ordered by (class rank, path).
pub fn snapshot_diff(a: &Snap, b: &Snap) -> Vec<String> {
    let ma: BTreeMap<&str, &str> = a.iter().map(|(k, v)| (k.as_str(), v.as_str())).collect();
    let mb: BTreeMap<&str, &str> = b.iter().map(|(k, v)| (k.as_str(), v.as_str())).collect();
    let mut keys: BTreeSet<&str> = ma.keys().copied().collect();
    keys.extend(mb.keys().copied());
    let mut d: Vec<(u32, String, String)> = vec![];
    for k in keys {
        let (va, vb) = (ma.get(k), mb.get(k));
        if va != vb {
            d.push((
                class_rank(diff_class(k)),
                natural_key(k),
                format!("{k}{DIFF_SEP}{} => {}", va.unwrap_or(&"<absent>"), vb.unwrap_or(&"<absent>")),
            ));
        }
    }
    d.sort();
    d.into_iter().map(|x| x.2).collect()
}

/// The path of one `snapshot_diff` entry.
pub fn diff_path(entry: &str) -> &str {
    match entry.find(DIFF_SEP) {
        Some(p) => &entry[..p],
        None => entry,
    }
}

/// Class of the first entry of a diff (`none` if empty).
pub fn first_class(diff: &[String]) -> &'static str {
    diff.first().map(|e| diff_class(diff_path(e))).unwrap_or("none")
}

/// true when every differing path is a view path
pub fn only_view(diff: &[String]) -> bool {
    !diff.is_empty() && diff.iter().all(|e| diff_class(diff_path(e)) == "view")
}

// ------------------------------------------------------------------------------------------
// C27: well-formedness of the workbook structure
// ------------------------------------------------------------------------------------------

fn valid_sheet_name(name: &str) -> bool {
    let invalid = ['\\', '/', '*', '?', ':', '[', ']'];
    !name.is_empty() && name.chars().count() <= 31 && !name.contains(&invalid[..])
}

/// The well-formedness predicate of C27, clause by clause: `(signature, detail)` per violated clause
/// instance (at most a few details per clause).
pub fn wf_check(m: &UserModel<'_>) -> Vec<(String, String)> {
    let wb = &m.get_model().workbook;
    let mut out: Vec<(String, String)> = vec![];
    let mut counts: HashMap<&'static str, usize> = HashMap::new();
    let mut fail = |sig: &'static str, detail: String| {
        let c = counts.entry(sig).or_insert(0);
        *c += 1;
        if *c <= 3 {
            out.push((sig.to_string(), detail));
        }
    };
    let n_xfs = wb.styles.cell_xfs.len() as i32;
    let n_ss = wb.shared_strings.len() as i32;

    // sheet names and ids
    let mut names: HashSet<String> = HashSet::new();
    let mut ids: HashSet<u32> = HashSet::new();
    for (i, ws) in wb.worksheets.iter().enumerate() {
        if !valid_sheet_name(&ws.name) {
            fail("c27:sheet-name-invalid", format!("sheet {i}: {:?}", ws.name));
        }
        if !names.insert(ws.name.to_uppercase()) {
            fail("c27:sheet-name-duplicate", format!("sheet {i}: {:?}", ws.name));
        }
        if !ids.insert(ws.sheet_id) {
            fail("c27:sheet-id-duplicate", format!("sheet {i}: id {}", ws.sheet_id));
        }
    }
    if wb.worksheets.is_empty() {
        fail("c27:no-sheets", "workbook without worksheets".into());
    }

    for (i, ws) in wb.worksheets.iter().enumerate() {
        let n_f = ws.shared_formulas.len() as i32;
        // cols
        let mut prev_max = 0;
        let mut prev_min = i32::MIN;
        for (k, c) in ws.cols.iter().enumerate() {
            if c.min > c.max {
                fail("c27:cols-min-gt-max", format!("sheet {i} cols[{k}] = {}..{}", c.min, c.max));
            }
            if c.min < 1 || c.max > LAST_COLUMN {
                fail("c27:cols-off-grid", format!("sheet {i} cols[{k}] = {}..{}", c.min, c.max));
            }
            if c.min < prev_min {
                fail("c27:cols-unsorted", format!("sheet {i} cols[{k}].min = {} after {}", c.min, prev_min));
            } else if k > 0 && c.min <= prev_max {
                fail("c27:cols-overlap", format!("sheet {i} cols[{k}] = {}..{} overlaps previous max {}", c.min, c.max, prev_max));
            }
            prev_min = c.min;
            prev_max = prev_max.max(c.max);
            if let Some(s) = c.style {
                if s < 0 || s >= n_xfs {
                    fail("c27:style-index-dangling", format!("sheet {i} cols[{k}].style = {s} (cell_xfs {n_xfs})"));
                }
            }
        }
        // rows
        let mut seen: HashSet<i32> = HashSet::new();
        for r in &ws.rows {
            if !seen.insert(r.r) {
                fail("c27:rows-duplicate", format!("sheet {i} row {} appears twice in rows", r.r));
            }
            if r.r < 1 || r.r > LAST_ROW {
                fail("c27:rows-off-grid", format!("sheet {i} rows entry r = {}", r.r));
            }
            if r.s < 0 || r.s >= n_xfs {
                fail("c27:style-index-dangling", format!("sheet {i} row {} s = {} (cell_xfs {n_xfs})", r.r, r.s));
            }
        }
        // cells
        let mut covered: HashMap<(i32, i32), (i32, i32)> = HashMap::new();
        for (row, data) in &ws.sheet_data {
            for (col, cell) in data {
                if *row < 1 || *row > LAST_ROW || *col < 1 || *col > LAST_COLUMN {
                    fail("c27:cell-off-grid", format!("sheet {i} cell ({row},{col})"));
                }
                let (s, f, si) = match cell {
                    Cell::EmptyCell { s } => (*s, None, None),
                    Cell::BooleanCell { s, .. } => (*s, None, None),
                    Cell::NumberCell { s, .. } => (*s, None, None),
                    Cell::ErrorCell { s, .. } => (*s, None, None),
                    Cell::SharedString { s, si } => (*s, None, Some(*si)),
                    Cell::CellFormula { s, f, .. } => (*s, Some(*f), None),
                    Cell::ArrayFormula { s, f, .. } => (*s, Some(*f), None),
                    Cell::SpillCell { s, .. } => (*s, None, None),
                };
                if s < 0 || s >= n_xfs {
                    fail("c27:style-index-dangling", format!("sheet {i} cell ({row},{col}) s = {s} (cell_xfs {n_xfs})"));
                }
                if let Some(f) = f {
                    if f < 0 || f >= n_f {
                        fail("c27:formula-index-dangling", format!("sheet {i} cell ({row},{col}) f = {f} (shared_formulas {n_f})"));
                    }
                }
                if let Some(si) = si {
                    if si < 0 || si >= n_ss {
                        fail("c27:string-index-dangling", format!("sheet {i} cell ({row},{col}) si = {si} (shared_strings {n_ss})"));
                    }
                }
                match cell {
                    Cell::SpillCell { a, .. } => match ws.cell(a.0, a.1) {
                        Some(Cell::ArrayFormula { r, .. }) => {
                            let inside = *row >= a.0
                                && (*row as i64) < a.0 as i64 + r.1 as i64
                                && *col >= a.1
                                && (*col as i64) < a.1 as i64 + r.0 as i64;
                            if !inside || (*row, *col) == *a {
                                fail(
                                    "c27:spill-orphan",
                                    format!("sheet {i} spill cell ({row},{col}) outside its anchor ({},{}) range {:?}", a.0, a.1, r),
                                );
                            }
                        }
                        other => fail(
                            "c27:spill-orphan",
                            format!(
                                "sheet {i} spill cell ({row},{col}) points at ({},{}) which is {}",
                                a.0,
                                a.1,
                                match other {
                                    None => "absent".to_string(),
                                    Some(c) => format!("{:?}", c).chars().take(40).collect(),
                                }
                            ),
                        ),
                    },
                    Cell::ArrayFormula { r, .. } => {
                        if r.0 < 1 || r.1 < 1 {
                            fail("c27:array-range-empty", format!("sheet {i} array ({row},{col}) range {:?}", r));
                        }
                        if r.0 < 1 || r.1 < 1 {
                            continue;
                        }
                        let (w, h) = (r.0.clamp(1, 64), r.1.clamp(1, 64));
                        for rr in *row..*row + h {
                            for cc in *col..*col + w {
                                if let Some(prev) = covered.insert((rr, cc), (*row, *col)) {
                                    if prev != (*row, *col) {
                                        fail(
                                            "c27:spill-overlap",
                                            format!("sheet {i} cell ({rr},{cc}) is in the ranges of the arrays at {:?} and ({row},{col})", prev),
                                        );
                                    }
                                }
                                if (rr, cc) == (*row, *col) || rr > LAST_ROW || cc > LAST_COLUMN {
                                    continue;
                                }
                                match ws.cell(rr, cc) {
                                    Some(Cell::SpillCell { a, .. }) if *a == (*row, *col) => {}
                                    other => fail(
                                        "c27:array-range-hole",
                                        format!(
                                            "sheet {i} array ({row},{col}) range {:?}: cell ({rr},{cc}) is {}",
                                            r,
                                            match other {
                                                None => "absent".to_string(),
                                                Some(c) => format!("{:?}", c).chars().take(60).collect(),
                                            }
                                        ),
                                    ),
                                }
                            }
                        }
                    }
                    _ => {}
                }
            }
        }
    }
    // defined names
    for d in &wb.defined_names {
        if let Some(id) = d.sheet_id {
            if !ids.contains(&id) {
                fail("c27:name-dangling-sheet", format!("defined name {:?} has sheet_id {id}, sheets have ids {:?}", d.name, {
                    let mut v: Vec<u32> = ids.iter().copied().collect();
                    v.sort();
                    v
                }));
            }
        }
    }
    out
}

// ------------------------------------------------------------------------------------------
// state summary (what the generators look at)
// ------------------------------------------------------------------------------------------

pub struct St {
    pub n_sheets: u32,
    pub sheet_names: Vec<String>,
    /// non-empty cells per sheet
    pub cells: Vec<Vec<(i32, i32)>>,
    /// (sheet, row, col, width, height, is_cse) of arrays larger than one cell
    pub arrays: Vec<(u32, i32, i32, i32, i32, bool)>,
    /// (name, scope as sheet index)
    pub defined: Vec<(String, Option<u32>)>,
    pub named_styles: Vec<String>,
    pub cf: Vec<usize>,
    pub links: Vec<(u32, i32, i32)>,
    pub hidden_cols: Vec<(u32, i32)>,
    pub hidden_rows: Vec<(u32, i32)>,
    pub selected_sheet: u32,
}

pub fn summarize(m: &UserModel<'_>) -> St {
    let wb = &m.get_model().workbook;
    let mut st = St {
        n_sheets: wb.worksheets.len() as u32,
        sheet_names: wb.worksheets.iter().map(|w| w.name.clone()).collect(),
        cells: vec![],
        arrays: vec![],
        defined: m.get_defined_name_list().into_iter().map(|(n, s, _)| (n, s)).collect(),
        named_styles: m.get_named_style_list(),
        cf: wb.worksheets.iter().map(|w| w.conditional_formatting.len()).collect(),
        links: vec![],
        hidden_cols: vec![],
        hidden_rows: vec![],
        selected_sheet: m.get_selected_sheet(),
    };
    st.defined.sort();
    st.named_styles.sort();
    for (i, ws) in wb.worksheets.iter().enumerate() {
        let mut cs = vec![];
        for (r, data) in &ws.sheet_data {
            for (c, cell) in data {
                if !matches!(cell, Cell::EmptyCell { .. }) {
                    cs.push((*r, *c));
                }
                if let Cell::ArrayFormula { r: rg, kind, .. } = cell {
                    if rg.0 > 1 || rg.1 > 1 {
                        st.arrays.push((i as u32, *r, *c, rg.0, rg.1, matches!(kind, ironcalc_base::types::ArrayKind::Cse)));
                    }
                }
            }
        }
        cs.sort();
        st.cells.push(cs);
        let mut ls: Vec<(u32, i32, i32)> = ws.links.keys().map(|(r, c)| (i as u32, *r, *c)).collect();
        ls.sort();
        st.links.extend(ls);
        for c in &ws.cols {
            if (c.hidden || (c.custom_width && c.width == 0.0)) && c.max - c.min < 64 {
                for k in c.min..=c.max {
                    st.hidden_cols.push((i as u32, k));
                }
            }
        }
        for r in &ws.rows {
            if r.hidden || (r.custom_height && r.height == 0.0) {
                st.hidden_rows.push((i as u32, r.r));
            }
        }
    }
    st.arrays.sort_by(|a, b| (a.0, a.1, a.2).cmp(&(b.0, b.1, b.2)));
    st.hidden_cols.sort();
    st.hidden_rows.sort();
    st
}

pub fn col_name(col: i32) -> String {
    let mut c = col;
    let mut s = String::new();
    while c > 0 {
        let r = ((c - 1) % 26) as u8;
        s.insert(0, (b'A' + r) as char);
        c = (c - 1) / 26;
    }
    s
}

pub fn a1(row: i32, col: i32) -> String {
    format!("{}{}", col_name(col), row)
}

pub fn quote_sheet(name: &str) -> String {
    if name.chars().all(|c| c.is_ascii_alphanumeric() || c == '_') && !name.chars().next().map(|c| c.is_ascii_digit()).unwrap_or(true) {
        name.to_string()
    } else {
        format!("'{}'", name.replace('\'', "''"))
    }
}

// ------------------------------------------------------------------------------------------
// valid-op generator
// ------------------------------------------------------------------------------------------

const ROWS: i64 = 8;
const COLS: i64 = 6;

fn rc(rng: &mut Rng) -> (i32, i32) {
    let r = if rng.chance(1, 2) { rng.range(1, 4) } else { rng.range(1, ROWS) };
    let c = if rng.chance(1, 2) { rng.range(1, 3) } else { rng.range(1, COLS) };
    (r as i32, c as i32)
}

fn sheet_of(rng: &mut Rng, st: &St) -> u32 {
    rng.below(st.n_sheets.max(1) as u64) as u32
}

fn small_area(rng: &mut Rng, sheet: u32) -> Ar {
    let (r, c) = rc(rng);
    Ar::new(sheet, r, c, rng.range(1, 3) as i32, rng.range(1, 3) as i32)
}

fn rand_ref(rng: &mut Rng) -> String {
    let (r, c) = rc(rng);
    a1(r, c)
}

/// A formula for the cell (`_row`, `col`); array-valued formulas read from columns their spill cannot reach
/// (a spill overlapping its own source is circular and its values depend on the evaluation history).
pub fn gen_formula(rng: &mut Rng, st: &St, sheet: u32, _row: i32, col: i32) -> String {
    match rng.below(16) {
        0 | 1 => "=SUM(A1:A3)+A2".to_string(),
        2 => format!("={}+1", rand_ref(rng)),
        3 => {
            let (r1, c1) = rc(rng);
            let (r2, c2) = rc(rng);
            format!("=SUM({}:{})", a1(r1.min(r2), c1.min(c2)), a1(r1.max(r2), c1.max(c2)))
        }
        4 | 5 => {
            if st.n_sheets > 1 {
                let other = (sheet + 1 + rng.below(st.n_sheets as u64 - 1) as u32) % st.n_sheets;
                format!("={}!{}*2", quote_sheet(&st.sheet_names[other as usize]), rand_ref(rng))
            } else {
                format!("={}*2", rand_ref(rng))
            }
        }
        6 | 7 => {
            if st.defined.is_empty() {
                format!("={}&\"x\"", rand_ref(rng))
            } else {
                let d = rng.pick(&st.defined).0.clone();
                format!("=SUM({})+1", d)
            }
        }
        8 => "=SEQUENCE(2,2)".to_string(),
        9 => if col >= 4 { "=A1:A3*2".to_string() } else { "=E1:E3*2".to_string() },
        10 => format!("=IF({}>1,\"y\",\"n\")", rand_ref(rng)),
        11 => "=1/0".to_string(),
        12 => format!("={}&\"-\"&{}", rand_ref(rng), rand_ref(rng)),
        13 => format!("=SUM({0}:{0})", col_name(rng.range(1, COLS) as i32)),
        14 => if col >= 3 { "=TRANSPOSE(A1:B3)".to_string() } else { "=TRANSPOSE(E1:F3)".to_string() },
        _ => format!("=$A$1+{}", rand_ref(rng)),
    }
}

pub fn gen_input(rng: &mut Rng, st: &St, sheet: u32, row: i32, col: i32) -> String {
    const PLAIN: &[&str] = &[
        "1", "2", "3", "42", "2.5", "-3", "10%", "$5", "1/2/2020", "1e3", "'quoted", "true", "FALSE", "hello", "world",
        "multi\nline", "https://example.com", "www.ironcalc.com", "", "", "#N/A", "12:30", "1,000", "  padded ",
        "a\nb\nc",
    ];
    // inputs that imply no format, link or quote prefix (used by the "plain" history profile)
    const NO_FORMAT: &[&str] = &["1", "2", "3", "42", "2.5", "-3", "true", "FALSE", "hello", "world", "", "#N/A", "  padded ", "7"];
    if rng.chance(2, 5) {
        gen_formula(rng, st, sheet, row, col)
    } else if plain_inputs() {
        rng.pick(NO_FORMAT).to_string()
    } else {
        rng.pick(PLAIN).to_string()
    }
}

thread_local! {
    static PLAIN_INPUTS: std::cell::Cell<bool> = const { std::cell::Cell::new(false) };
}
/// History profile: with `true`, typed inputs never imply a number format / link / quote prefix. The
/// engine's most frequent undo defect (F01a: the implied format survives the undo) otherwise ends most
/// histories at their first typed `10%`, and everything behind it stays unexplored.
pub fn set_plain_inputs(v: bool) {
    PLAIN_INPUTS.with(|c| c.set(v));
}
pub fn plain_inputs() -> bool {
    PLAIN_INPUTS.with(|c| c.get())
}

pub fn gen_style_edit(rng: &mut Rng) -> (String, String) {
    const EDITS: &[(&str, &[&str])] = &[
        ("font.b", &["true", "false"]),
        ("font.i", &["true", "false"]),
        ("font.u", &["true"]),
        ("font.strike", &["true"]),
        ("font.size", &["8", "14", "3"]),
        ("font.size_delta", &["1", "-1", "2", "-2"]),
        ("num_fmt", &["0.00", "#,##0%", "yyyy-mm-dd", "general", "$#,##0.00"]),
        ("fill.color", &["#FF0000", "#00FF00", ""]),
        ("font.color", &["#0000FF", "[4, 0.5]"]),
        ("alignment.horizontal", &["center", "left", "right"]),
        ("alignment.vertical", &["top", "center"]),
        ("alignment.wrap_text", &["true", "false"]),
        ("alignment", &[""]),
    ];
    let (p, vs) = rng.pick(EDITS);
    (p.to_string(), rng.pick(vs).to_string())
}

pub fn gen_spec(rng: &mut Rng) -> StyleSpec {
    StyleSpec {
        b: rng.chance(1, 2),
        i: rng.chance(1, 4),
        u: rng.chance(1, 6),
        sz: *rng.pick(&[12, 12, 10, 16]),
        num_fmt: rng.pick(&["general", "general", "0.00", "#,##0%"]).to_string(),
        fill: rng.pick(&["", "", "#FFFF00", "#00FFFF"]).to_string(),
        color: rng.pick(&["", "", "#FF00FF"]).to_string(),
        halign: rng.below(4) as u32,
    }
}

fn styled_area(rng: &mut Rng, sheet: u32) -> Ar {
    match rng.below(20) {
        0..=2 => Ar::new(sheet, 1, rng.range(1, COLS) as i32, rng.range(1, 2) as i32, LAST_ROW),
        3..=5 => Ar::new(sheet, rng.range(1, ROWS) as i32, 1, LAST_COLUMN, rng.range(1, 2) as i32),
        _ => small_area(rng, sheet),
    }
}

const SHEET_NAMES: &[&str] = &["Data", "My Sheet", "x-y", "Totals", "Año", "Sheet7"];
const DEF_NAMES: &[&str] = &["total", "rate", "MyRange", "x_1", "loc"];
const STYLE_NAMES: &[&str] = &["custom", "Heading", "money", "Good", "Percent", "Bad"];
const LOCALES: &[&str] = &["en", "en-GB", "de", "fr", "es"];
const TIMEZONES: &[&str] = &["UTC", "Europe/Berlin", "America/New_York", "Asia/Tokyo"];
const LANGS: &[&str] = &["en", "es", "fr", "de", "it"];
const BORDER_TYPES: &[&str] = &["All", "Inner", "Outer", "Top", "Right", "Bottom", "Left", "CenterH", "CenterV", "None"];
const BORDER_STYLES: &[&str] = &["thin", "medium", "thick", "double", "dotted"];

fn cf_range(rng: &mut Rng) -> String {
    let (r1, c1) = rc(rng);
    format!("{}:{}", a1(r1, c1), a1(r1 + rng.range(0, 3) as i32, c1 + rng.range(0, 2) as i32))
}

fn def_formula(rng: &mut Rng, st: &St) -> String {
    let s = sheet_of(rng, st);
    let (r, c) = rc(rng);
    let name = quote_sheet(&st.sheet_names[s as usize]);
    if rng.chance(1, 2) {
        format!("{}!${}${}", name, col_name(c), r)
    } else {
        format!("{}!${}${}:${}${}", name, col_name(c), r, col_name(c + 1), r + 2)
    }
}

/// A mostly valid op for the current state (it may still fail: e.g. a name that already exists).

/// Target rectangles that stand in a given RELATION to the array anchored at (`ar`, `ac`) of size
/// `w` x `h`: `contains` (the whole range, possibly one cell more), `partial` (a proper part that
/// includes the anchor), `anchor-only`, `spill-only` (the last cell), `touch` (adjacent, disjoint).
fn array_targets(ar: i32, ac: i32, w: i32, h: i32) -> Vec<(&'static str, (i32, i32, i32, i32))> {
    // (r0, c0, r1, c1) inclusive
    let mut v = vec![
        ("contains", (ar, ac, ar + h - 1, ac + w - 1)),
        ("contains", (ar, ac, ar + h, ac + w - 1)),
        ("anchor-only", (ar, ac, ar, ac)),
        ("spill-only", (ar + h - 1, ac + w - 1, ar + h - 1, ac + w - 1)),
        ("touch", (ar + h, ac, ar + h, ac + w - 1)),
    ];
    if h > 1 {
        v.push(("partial", (ar, ac, ar + h - 2, ac + w - 1)));
        v.push(("spill-only", (ar + 1, ac, ar + h - 1, ac + w - 1)));
    }
    if w > 1 {
        v.push(("partial", (ar, ac, ar + h - 1, ac + w - 2)));
        v.push(("spill-only", (ar, ac + 1, ar + h - 1, ac + w - 1)));
    }
    v
}

/// Every operation that writes into / clears a rectangle, aimed at the target `t` (inclusive
/// corners): autofill from the four sides (source band `gap` cells away from the target so that
/// ordinary cells are filled before the array is reached), clears, copy/cut paste, csv paste.
fn ops_onto_target(sheet: u32, t: (i32, i32, i32, i32), gap: i32) -> Vec<Op> {
    let (r0, c0, r1, c1) = t;
    let (th, tw) = (r1 - r0 + 1, c1 - c0 + 1);
    let mut v = vec![];
    // fill down: source rows above the target
    if r0 - gap - 1 >= 1 {
        let sh = if r0 - gap - 2 >= 1 { 2 } else { 1 };
        v.push(Op::AutoFillRows { area: Ar::new(sheet, r0 - gap - sh, c0, tw, sh), to_row: r1 });
    }
    // fill up: source rows below the target
    v.push(Op::AutoFillRows { area: Ar::new(sheet, r1 + gap + 1, c0, tw, 2), to_row: r0 });
    // fill right: source columns left of the target
    if c0 - gap - 1 >= 1 {
        let sw = if c0 - gap - 2 >= 1 { 2 } else { 1 };
        v.push(Op::AutoFillColumns { area: Ar::new(sheet, r0, c0 - gap - sw, sw, th), to_col: c1 });
    }
    // fill left: source columns right of the target
    v.push(Op::AutoFillColumns { area: Ar::new(sheet, r0, c1 + gap + 1, 2, th), to_col: c0 });
    v.push(Op::RangeClearContents { area: Ar::new(sheet, r0, c0, tw, th) });
    v.push(Op::RangeClearAll { area: Ar::new(sheet, r0, c0, tw, th) });
    // paste a block of the target's size taken from the rows below everything
    for cut in [false, true] {
        v.push(Op::Paste { src_sheet: sheet, r1: 12, c1: 1, r2: 12 + th - 1, c2: tw, dst_sheet: sheet, dst_row: r0, dst_col: c0, cut });
    }
    let line: Vec<&str> = (0..tw).map(|_| "7").collect();
    let csv: Vec<String> = (0..th).map(|_| line.join("\t")).collect();
    v.push(Op::PasteCsv { sheet, row: r0, col: c0, csv: csv.join("\n") });
    v
}

/// A random operation aimed at one of the arrays of the state (CSE or dynamic, 1-D or 2-D), in a random
/// relation to it.
fn gen_array_op(rng: &mut Rng, st: &St) -> Op {
    let (sheet, ar, ac, w, h, _cse) = *rng.pick(&st.arrays);
    let targets = array_targets(ar, ac, w, h);
    let (_, t) = *rng.pick(&targets);
    let ops = ops_onto_target(sheet, t, rng.below(3) as i32);
    // autofill is the first-class citizen here: 4 of the first entries are fills
    let fills: Vec<&Op> = ops.iter().filter(|o| matches!(o, Op::AutoFillRows { .. } | Op::AutoFillColumns { .. })).collect();
    if rng.chance(2, 3) && !fills.is_empty() {
        (*rng.pick(&fills)).clone()
    } else {
        rng.pick(&ops).clone()
    }
}

/// Operations whose effective arguments the engine recomputes from the state (moves skip hidden rows
/// / columns, inserts and deletes shift the hidden flags, fills run across them), aimed at a hidden or
/// zero-size row / column `h`: landing zone containing it, several of them, adjacent to it, the hidden
/// one itself being moved; both directions.
fn gen_hidden_op(rng: &mut Rng, st: &St) -> Op {
    let rows = !st.hidden_rows.is_empty() && (st.hidden_cols.is_empty() || rng.chance(1, 2));
    if rows {
        let (sheet, h) = *rng.pick(&st.hidden_rows);
        match rng.below(10) {
            0 => Op::MoveRows { sheet, row: (h - 1).max(1), count: 1, delta: rng.range(1, 3) as i32 },
            1 => Op::MoveRows { sheet, row: (h - 2).max(1), count: rng.range(1, 2) as i32, delta: rng.range(1, 3) as i32 },
            2 => Op::MoveRows { sheet, row: h + 1, count: 1, delta: -(rng.range(1, 3) as i32).min(h) },
            3 => Op::MoveRows { sheet, row: h + 2, count: rng.range(1, 2) as i32, delta: -(rng.range(1, 3) as i32).min(h + 1) },
            4 => Op::MoveRows { sheet, row: h, count: 1, delta: if rng.chance(1, 2) { rng.range(1, 2) as i32 } else { -(1.min(h - 1)) } },
            5 => Op::InsertRows { sheet, row: (h + rng.range(-1, 1) as i32).max(1), count: rng.range(1, 2) as i32 },
            6 => Op::DeleteRows { sheet, row: (h + rng.range(-1, 1) as i32).max(1), count: rng.range(1, 2) as i32 },
            7 => Op::AutoFillRows { area: Ar::new(sheet, (h - 2).max(1), rng.range(1, 3) as i32, rng.range(1, 2) as i32, 1), to_row: h + rng.range(0, 2) as i32 },
            8 => Op::SetRowsHeight { sheet, start: (h - 1).max(1), end: h + 1, height: *rng.pick(&[40.0, 0.0, 25.0]) },
            _ => Op::SetUserInput { sheet, row: h, col: rng.range(1, 3) as i32, value: rng.pick(&["7", "=ROW()*10", "two\nlines"]).to_string() },
        }
    } else {
        let (sheet, h) = *rng.pick(&st.hidden_cols);
        match rng.below(9) {
            0 => Op::MoveColumns { sheet, col: (h - 1).max(1), count: 1, delta: rng.range(1, 3) as i32 },
            1 => Op::MoveColumns { sheet, col: (h - 2).max(1), count: rng.range(1, 2) as i32, delta: rng.range(1, 3) as i32 },
            2 => Op::MoveColumns { sheet, col: h + 1, count: 1, delta: -(rng.range(1, 3) as i32).min(h) },
            3 => Op::MoveColumns { sheet, col: h + 2, count: rng.range(1, 2) as i32, delta: -(rng.range(1, 3) as i32).min(h + 1) },
            4 => Op::MoveColumns { sheet, col: h, count: 1, delta: if rng.chance(1, 2) { rng.range(1, 2) as i32 } else { -(1.min(h - 1)) } },
            5 => Op::InsertColumns { sheet, col: (h + rng.range(-1, 1) as i32).max(1), count: rng.range(1, 2) as i32 },
            6 => Op::DeleteColumns { sheet, col: (h + rng.range(-1, 1) as i32).max(1), count: rng.range(1, 2) as i32 },
            7 => Op::AutoFillColumns { area: Ar::new(sheet, rng.range(1, 3) as i32, (h - 2).max(1), 1, rng.range(1, 2) as i32), to_col: h + rng.range(0, 2) as i32 },
            _ => Op::SetColumnsWidth { sheet, start: (h - 1).max(1), end: h + 1, width: *rng.pick(&[40.0, 0.0, 90.0]) },
        }
    }
}

pub fn gen_valid_op(rng: &mut Rng, st: &St) -> Op {
    if (!st.hidden_rows.is_empty() || !st.hidden_cols.is_empty()) && rng.chance(14, 100) {
        return gen_hidden_op(rng, st);
    }
    if !st.arrays.is_empty() && rng.chance(14, 100) {
        return gen_array_op(rng, st);
    }
    let sheet = sheet_of(rng, st);
    let w = rng.below(1000);
    let pick_cf = |rng: &mut Rng, st: &St| -> Option<(u32, u32)> {
        let with: Vec<u32> = (0..st.n_sheets).filter(|s| st.cf[*s as usize] > 0).collect();
        if with.is_empty() {
            None
        } else {
            let s = *rng.pick(&with);
            Some((s, rng.below(st.cf[s as usize] as u64) as u32))
        }
    };
    match w {
        0..=219 => {
            let (row, col) = rc(rng);
            Op::SetUserInput { sheet, row, col, value: gen_input(rng, st, sheet, row, col) }
        }
        220..=234 => {
            let a = small_area(rng, sheet);
            let to_row = if rng.chance(2, 3) { a.row + a.height - 1 + rng.range(1, 4) as i32 } else { (a.row - rng.range(1, 3) as i32).max(1) };
            Op::AutoFillRows { area: a, to_row }
        }
        235..=249 => {
            let a = small_area(rng, sheet);
            let to_col = if rng.chance(2, 3) { a.col + a.width - 1 + rng.range(1, 4) as i32 } else { (a.col - rng.range(1, 3) as i32).max(1) };
            Op::AutoFillColumns { area: a, to_col }
        }
        250..=274 => {
            // anchors in columns A..C (at most two wide), sources in E:F: never self-overlapping
            let (row, _) = rc(rng);
            let (width, height) = *rng.pick(&[(1, 1), (1, 2), (2, 1), (2, 2), (1, 3), (3, 1), (2, 2), (1, 2), (2, 1)]);
            let col = rng.range(1, (4 - width) as i64) as i32;
            let f = match (width, height) {
                (1, 3) => rng.pick(&["=E1:E3*2", "=E1:E3"]).to_string(),
                (3, 1) => rng.pick(&["=E1:G1*2", "=E1:G1"]).to_string(),
                _ => rng.pick(&["=E1:F2*2", "=SEQUENCE(2,2)", "=E1:E2", "=1+1", "=SUM(E1:E3)", "=E1:F2&\"!\""]).to_string(),
            };
            Op::SetUserArrayFormula { sheet, row, col, width, height, formula: f }
        }
        275..=299 => Op::RangeClearContents { area: small_area(rng, sheet) },
        300..=324 => Op::RangeClearAll { area: small_area(rng, sheet) },
        325..=344 => Op::RangeClearFormatting { area: styled_area(rng, sheet) },
        345..=434 => {
            let (path, value) = gen_style_edit(rng);
            Op::UpdateRangeStyle { area: styled_area(rng, sheet), path, value }
        }
        435..=449 => Op::OnPasteStyles { height: rng.range(1, 2) as u32, width: rng.range(1, 2) as u32, a: gen_spec(rng), b: gen_spec(rng) },
        450..=479 => Op::SetAreaWithBorder {
            area: styled_area(rng, sheet),
            btype: rng.pick(BORDER_TYPES).to_string(),
            style: rng.pick(BORDER_STYLES).to_string(),
            color: rng.pick(&["#000000", "#FF5566"]).to_string(),
        },
        480..=519 => {
            let custom: Vec<&String> = st.named_styles.iter().filter(|n| STYLE_NAMES.contains(&n.as_str())).collect();
            match rng.below(4) {
                0 => Op::CreateNamedStyle { name: rng.pick(STYLE_NAMES).to_string(), spec: gen_spec(rng), includes: if rng.chance(1, 2) { 63 } else { rng.below(64) as u32 } },
                1 if !custom.is_empty() => Op::DeleteNamedStyle { name: (*rng.pick(&custom)).clone() },
                2 if !custom.is_empty() => {
                    let name = (*rng.pick(&custom)).clone();
                    let new_name = if rng.chance(1, 2) { name.clone() } else { rng.pick(STYLE_NAMES).to_string() };
                    Op::UpdateNamedStyle { name, new_name, spec: gen_spec(rng), includes: 63 }
                }
                _ => {
                    let name = if !st.named_styles.is_empty() && rng.chance(2, 3) { rng.pick(&st.named_styles).clone() } else { rng.pick(STYLE_NAMES).to_string() };
                    Op::ApplyNamedStyle { name }
                }
            }
        }
        520..=544 => Op::InsertRows { sheet, row: rng.range(1, ROWS) as i32, count: rng.range(1, 2) as i32 },
        545..=569 => Op::InsertColumns { sheet, col: rng.range(1, COLS) as i32, count: rng.range(1, 2) as i32 },
        570..=599 => Op::DeleteRows { sheet, row: rng.range(1, ROWS) as i32, count: rng.range(1, 2) as i32 },
        600..=624 => Op::DeleteColumns { sheet, col: rng.range(1, COLS) as i32, count: rng.range(1, 2) as i32 },
        625..=639 => {
            let row = rng.range(1, ROWS) as i32;
            let delta = if row > 2 && rng.chance(1, 2) { -(rng.range(1, (row - 1).min(3) as i64) as i32) } else { rng.range(1, 3) as i32 };
            Op::MoveRows { sheet, row, count: 1, delta }
        }
        640..=654 => {
            let col = rng.range(1, COLS) as i32;
            let delta = if col > 2 && rng.chance(1, 2) { -(rng.range(1, (col - 1).min(3) as i64) as i32) } else { rng.range(1, 3) as i32 };
            Op::MoveColumns { sheet, col, count: 1, delta }
        }
        655..=674 => {
            let start = rng.range(1, COLS) as i32;
            Op::SetColumnsWidth { sheet, start, end: start + rng.range(0, 2) as i32, width: *rng.pick(&[30.0, 90.0, 120.0, 200.5, 0.0]) }
        }
        675..=694 => {
            let start = rng.range(1, ROWS) as i32;
            Op::SetRowsHeight { sheet, start, end: start + rng.range(0, 2) as i32, height: *rng.pick(&[10.0, 25.0, 40.0, 55.5, 0.0]) }
        }
        695..=714 => {
            let start = rng.range(1, COLS) as i32;
            Op::SetColumnsHidden { sheet, start, end: start + rng.range(0, 1) as i32, hidden: rng.chance(2, 3) }
        }
        715..=734 => {
            let start = rng.range(1, ROWS) as i32;
            Op::SetRowsHidden { sheet, start, end: start + rng.range(0, 1) as i32, hidden: rng.chance(2, 3) }
        }
        735..=754 => {
            if st.n_sheets >= 3 {
                Op::DeleteSheet { sheet }
            } else {
                Op::NewSheet {}
            }
        }
        755..=769 => {
            if st.n_sheets >= 2 {
                Op::DeleteSheet { sheet }
            } else {
                Op::NewSheet {}
            }
        }
        770..=779 => {
            if st.n_sheets >= 3 {
                Op::DeleteSheet { sheet }
            } else {
                Op::DuplicateSheet { sheet }
            }
        }
        780..=794 => Op::RenameSheet { sheet, name: rng.pick(SHEET_NAMES).to_string() },
        795..=804 => Op::MoveSheet { sheet, to: sheet_of(rng, st) },
        805..=812 => Op::HideSheet { sheet },
        813..=820 => Op::UnhideSheet { sheet },
        821..=830 => Op::SetSheetColor { sheet, color: rng.pick(&["#DBBE29", "#112233", ""]).to_string() },
        831..=838 => Op::SetFrozenRows { sheet, count: rng.range(0, 3) as i32 },
        839..=845 => Op::SetFrozenColumns { sheet, count: rng.range(0, 3) as i32 },
        846..=853 => Op::SetShowGridLines { sheet, show: rng.chance(1, 2) },
        854..=893 => {
            let scope = if rng.chance(1, 3) { Some(sheet) } else { None };
            match rng.below(4) {
                0 | 1 => Op::NewDefinedName { name: rng.pick(DEF_NAMES).to_string(), scope, formula: def_formula(rng, st) },
                2 if !st.defined.is_empty() => {
                    let (name, scope) = rng.pick(&st.defined).clone();
                    Op::DeleteDefinedName { name, scope }
                }
                3 if !st.defined.is_empty() => {
                    let (name, scope) = rng.pick(&st.defined).clone();
                    let new_name = if rng.chance(1, 2) { name.clone() } else { rng.pick(DEF_NAMES).to_string() };
                    let new_scope = if rng.chance(2, 3) { scope } else if rng.chance(1, 2) { None } else { Some(sheet) };
                    Op::UpdateDefinedName { name, scope, new_name, new_scope, new_formula: def_formula(rng, st) }
                }
                _ => Op::NewDefinedName { name: rng.pick(DEF_NAMES).to_string(), scope, formula: def_formula(rng, st) },
            }
        }
        894..=918 => {
            if !st.links.is_empty() && rng.chance(1, 3) {
                let (sheet, row, col) = *rng.pick(&st.links);
                Op::DeleteCellLink { sheet, row, col }
            } else {
                let (row, col) = rc(rng);
                let external = rng.chance(2, 3);
                Op::SetCellLink {
                    sheet,
                    row,
                    col,
                    external,
                    target: if external { "https://ironcalc.com".into() } else { format!("{}!A3", quote_sheet(&st.sheet_names[0])) },
                    tooltip: if rng.chance(1, 3) { Some("tip".into()) } else { None },
                    label: if rng.chance(1, 2) { Some(rng.pick(&["click", "7", "here"]).to_string()) } else { None },
                }
            }
        }
        919..=958 => {
            let kind = rng.below(8) as u32;
            let formula = rng.pick(&["3", "=A1>2", "A$1", "x", "=SUM($A$1:$A$3)>4"]).to_string();
            let formula = if kind == 3 && !formula.starts_with('=') { "=A1>1".to_string() } else { formula };
            let color = rng.pick(&["#FF0000", "#00FF00", "#FFC000"]).to_string();
            match (rng.below(6), pick_cf(rng, st)) {
                (0, Some((s, i))) => Op::DeleteCf { sheet: s, index: i },
                (1, Some((s, i))) => Op::UpdateCf { sheet: s, index: i, range: cf_range(rng), kind, formula, color },
                (2, Some((s, i))) => Op::RaiseCf { sheet: s, index: i },
                (3, Some((s, i))) => Op::LowerCf { sheet: s, index: i },
                _ => Op::AddCf { sheet, range: cf_range(rng), kind, formula, color },
            }
        }
        959..=973 => {
            let (r1, c1) = rc(rng);
            let (dr, dc) = rc(rng);
            Op::Paste {
                src_sheet: sheet,
                r1,
                c1,
                r2: r1 + rng.range(0, 2) as i32,
                c2: c1 + rng.range(0, 1) as i32,
                dst_sheet: if rng.chance(1, 4) { sheet_of(rng, st) } else { sheet },
                dst_row: dr,
                dst_col: dc,
                cut: rng.chance(1, 2),
            }
        }
        974..=978 => {
            let (row, col) = rc(rng);
            Op::PasteCsv { sheet, row, col, csv: rng.pick(&["1\t2\n3\t4", "a\tb", "=A1+1\t10%\nhttps://x.org\t", "5"]).to_string() }
        }
        979..=983 => {
            let a = small_area(rng, sheet);
            let to_row = if rng.chance(3, 4) { a.row + a.height - 1 + rng.range(1, 3) as i32 } else { (a.row - rng.range(1, 2) as i32).max(1) };
            Op::AutoFillRows { area: a, to_row }
        }
        984..=987 => {
            let a = small_area(rng, sheet);
            let to_col = if rng.chance(3, 4) { a.col + a.width - 1 + rng.range(1, 3) as i32 } else { (a.col - rng.range(1, 2) as i32).max(1) };
            Op::AutoFillColumns { area: a, to_col }
        }
        988 => Op::SetLocale { locale: rng.pick(LOCALES).to_string() },
        989 => Op::SetTimezone { tz: rng.pick(TIMEZONES).to_string() },
        990 => Op::SetName { name: rng.pick(&["model", "book", "Report 1"]).to_string() },
        991 => Op::SetTheme { index: rng.below(3) as u32 },
        992 => Op::SetLanguage { lang: rng.pick(LANGS).to_string() },
        993..=994 => Op::SetSelectedSheet { sheet },
        995..=997 => {
            let (row, col) = rc(rng);
            Op::SetSelectedCell { row, col }
        }
        _ => {
            // a range whose top-left corner is the selected cell of the selected sheet (cannot know it here
            // without the model: select a cell first in most cases)
            let (row, col) = rc(rng);
            Op::SetSelectedCell { row, col }
        }
    }
}

// ------------------------------------------------------------------------------------------
// invalid-argument ops (the classes of C04)
// ------------------------------------------------------------------------------------------

/// One entry of the invalid-op table: ops that set the state up (valid ops, run before), the op
/// under test and its invalid-argument class.
#[derive(Clone, Debug)]
pub struct Invalid {
    pub setup: Vec<Op>,
    pub op: Op,
    pub class: &'static str,
}

fn inv(op: Op, class: &'static str) -> Invalid {
    Invalid { setup: vec![], op, class }
}
fn inv_s(setup: Vec<Op>, op: Op, class: &'static str) -> Invalid {
    Invalid { setup, op, class }
}

/// Every (op kind × invalid class) pair that makes sense in the state `st`. `pick(n)` chooses among `n`
/// equivalent valid parameters (return 0 for the deterministic table).
pub fn invalid_table_with(st: &St, pick: &mut dyn FnMut(u64) -> u64) -> Vec<Invalid> {
    let mut t: Vec<Invalid> = vec![];
    let s = pick(st.n_sheets.max(1) as u64) as u32; // a valid sheet
    let bad = st.n_sheets + 3; // a sheet that does not exist
    let r0 = 2 + pick(3) as i32;
    let c0 = 2 + pick(3) as i32;
    let plain = StyleSpec::plain();
    let sname = |i: u32| quote_sheet(&st.sheet_names[i as usize]);

    // ---- nonexistent sheet
    let b = "bad-sheet";
    t.push(inv(Op::SetUserInput { sheet: bad, row: 1, col: 1, value: "1".into() }, b));
    t.push(inv(Op::SetUserArrayFormula { sheet: bad, row: 1, col: 1, width: 2, height: 2, formula: "=A1:B2".into() }, b));
    t.push(inv(Op::RangeClearContents { area: Ar::new(bad, 1, 1, 2, 2) }, b));
    t.push(inv(Op::RangeClearAll { area: Ar::new(bad, 1, 1, 2, 2) }, b));
    t.push(inv(Op::RangeClearFormatting { area: Ar::new(bad, 1, 1, 2, 2) }, b));
    t.push(inv(Op::RangeClearFormatting { area: Ar::new(bad, 1, 2, 1, LAST_ROW) }, b));
    t.push(inv(Op::RangeClearFormatting { area: Ar::new(bad, 2, 1, LAST_COLUMN, 1) }, b));
    t.push(inv(Op::UpdateRangeStyle { area: Ar::new(bad, 1, 1, 2, 2), path: "font.b".into(), value: "true".into() }, b));
    t.push(inv(Op::UpdateRangeStyle { area: Ar::new(bad, 1, 2, 1, LAST_ROW), path: "font.b".into(), value: "true".into() }, b));
    t.push(inv(Op::UpdateRangeStyle { area: Ar::new(bad, 2, 1, LAST_COLUMN, 1), path: "font.b".into(), value: "true".into() }, b));
    t.push(inv(Op::SetAreaWithBorder { area: Ar::new(bad, 2, 2, 2, 2), btype: "All".into(), style: "thin".into(), color: "#000000".into() }, b));
    t.push(inv(Op::InsertRows { sheet: bad, row: 2, count: 1 }, b));
    t.push(inv(Op::InsertColumns { sheet: bad, col: 2, count: 1 }, b));
    t.push(inv(Op::DeleteRows { sheet: bad, row: 2, count: 1 }, b));
    t.push(inv(Op::DeleteColumns { sheet: bad, col: 2, count: 1 }, b));
    t.push(inv(Op::MoveRows { sheet: bad, row: 2, count: 1, delta: 1 }, b));
    t.push(inv(Op::MoveColumns { sheet: bad, col: 2, count: 1, delta: 1 }, b));
    t.push(inv(Op::SetColumnsWidth { sheet: bad, start: 2, end: 3, width: 50.0 }, b));
    t.push(inv(Op::SetRowsHeight { sheet: bad, start: 2, end: 3, height: 50.0 }, b));
    t.push(inv(Op::SetColumnsHidden { sheet: bad, start: 2, end: 3, hidden: true }, b));
    t.push(inv(Op::SetRowsHidden { sheet: bad, start: 2, end: 3, hidden: true }, b));
    t.push(inv(Op::DeleteSheet { sheet: bad }, b));
    t.push(inv(Op::DuplicateSheet { sheet: bad }, b));
    t.push(inv(Op::RenameSheet { sheet: bad, name: "Q".into() }, b));
    t.push(inv(Op::MoveSheet { sheet: bad, to: 0 }, b));
    t.push(inv(Op::MoveSheet { sheet: s, to: bad }, "bad-target"));
    t.push(inv(Op::HideSheet { sheet: bad }, b));
    t.push(inv(Op::UnhideSheet { sheet: bad }, b));
    t.push(inv(Op::SetSheetColor { sheet: bad, color: "#112233".into() }, b));
    t.push(inv(Op::SetFrozenRows { sheet: bad, count: 1 }, b));
    t.push(inv(Op::SetFrozenColumns { sheet: bad, count: 1 }, b));
    t.push(inv(Op::SetShowGridLines { sheet: bad, show: false }, b));
    t.push(inv(Op::SetCellLink { sheet: bad, row: 1, col: 1, external: true, target: "https://x.org".into(), tooltip: None, label: Some("x".into()) }, b));
    t.push(inv(Op::DeleteCellLink { sheet: bad, row: 1, col: 1 }, b));
    t.push(inv(Op::AddCf { sheet: bad, range: "A1:B2".into(), kind: 2, formula: "3".into(), color: "#FF0000".into() }, b));
    t.push(inv(Op::DeleteCf { sheet: bad, index: 0 }, b));
    t.push(inv(Op::UpdateCf { sheet: bad, index: 0, range: "A1:B2".into(), kind: 2, formula: "3".into(), color: "#FF0000".into() }, b));
    t.push(inv(Op::RaiseCf { sheet: bad, index: 0 }, b));
    t.push(inv(Op::LowerCf { sheet: bad, index: 0 }, b));
    t.push(inv(Op::PasteCsv { sheet: bad, row: 1, col: 1, csv: "1\t2".into() }, b));
    t.push(inv(Op::AutoFillRows { area: Ar::new(bad, 1, 1, 1, 2), to_row: 5 }, b));
    t.push(inv(Op::AutoFillColumns { area: Ar::new(bad, 1, 1, 2, 1), to_col: 5 }, b));
    t.push(inv(Op::SetSelectedSheet { sheet: bad }, b));
    t.push(inv(Op::NewDefinedName { name: "zz_scope".into(), scope: Some(bad), formula: format!("{}!$A$1", sname(0)) }, "name-bad-scope"));
    t.push(inv(Op::DeleteDefinedName { name: "zz_scope".into(), scope: Some(bad) }, "name-bad-scope"));

    // ---- coordinates off the grid
    let coords: [(i32, i32, &'static str); 5] =
        [(0, c0, "row-0"), (-1, c0, "row-neg"), (LAST_ROW + 1, c0, "row-over"), (r0, 0, "col-0"), (r0, LAST_COLUMN + 1, "col-over")];
    for (row, col, class) in coords {
        t.push(inv(Op::SetUserInput { sheet: s, row, col, value: "1".into() }, class));
        t.push(inv(Op::SetUserArrayFormula { sheet: s, row, col, width: 1, height: 1, formula: "=1+1".into() }, class));
        t.push(inv(Op::RangeClearContents { area: Ar::new(s, row, col, 1, 1) }, class));
        t.push(inv(Op::RangeClearAll { area: Ar::new(s, row, col, 1, 1) }, class));
        t.push(inv(Op::RangeClearFormatting { area: Ar::new(s, row, col, 1, 1) }, class));
        t.push(inv(Op::UpdateRangeStyle { area: Ar::new(s, row, col, 1, 1), path: "font.b".into(), value: "true".into() }, class));
        t.push(inv(Op::SetAreaWithBorder { area: Ar::new(s, row, col, 1, 1), btype: "All".into(), style: "thin".into(), color: "#000000".into() }, class));
        t.push(inv(Op::SetCellLink { sheet: s, row, col, external: true, target: "https://x.org".into(), tooltip: None, label: Some("x".into()) }, class));
        t.push(inv(Op::DeleteCellLink { sheet: s, row, col }, class));
        t.push(inv(Op::PasteCsv { sheet: s, row, col, csv: "1".into() }, class));
        t.push(inv(Op::AutoFillRows { area: Ar::new(s, row, col, 1, 1), to_row: 5 }, class));
        t.push(inv(Op::AutoFillColumns { area: Ar::new(s, row, col, 1, 1), to_col: 5 }, class));
        t.push(inv(Op::SetSelectedCell { row, col }, class));
    }
    for (row, class) in [(0, "row-0"), (-1, "row-neg"), (LAST_ROW + 1, "row-over")] {
        t.push(inv(Op::InsertRows { sheet: s, row, count: 1 }, class));
        t.push(inv(Op::DeleteRows { sheet: s, row, count: 1 }, class));
        t.push(inv(Op::MoveRows { sheet: s, row, count: 1, delta: 1 }, class));
        t.push(inv(Op::SetRowsHeight { sheet: s, start: row, end: row, height: 40.0 }, class));
        t.push(inv(Op::SetRowsHidden { sheet: s, start: row, end: row, hidden: true }, class));
        t.push(inv(Op::AutoFillRows { area: Ar::new(s, 1, 1, 1, 2), to_row: row }, class));
        t.push(inv(Op::UpdateRangeStyle { area: Ar::new(s, row, 1, LAST_COLUMN, 1), path: "font.b".into(), value: "true".into() }, class));
        t.push(inv(Op::RangeClearFormatting { area: Ar::new(s, row, 1, LAST_COLUMN, 1) }, class));
    }
    for (col, class) in [(0, "col-0"), (-1, "col-neg"), (LAST_COLUMN + 1, "col-over")] {
        t.push(inv(Op::InsertColumns { sheet: s, col, count: 1 }, class));
        t.push(inv(Op::DeleteColumns { sheet: s, col, count: 1 }, class));
        t.push(inv(Op::MoveColumns { sheet: s, col, count: 1, delta: 1 }, class));
        t.push(inv(Op::SetColumnsWidth { sheet: s, start: col, end: col, width: 40.0 }, class));
        t.push(inv(Op::SetColumnsHidden { sheet: s, start: col, end: col, hidden: true }, class));
        t.push(inv(Op::AutoFillColumns { area: Ar::new(s, 1, 1, 2, 1), to_col: col }, class));
        t.push(inv(Op::UpdateRangeStyle { area: Ar::new(s, 1, col, 1, LAST_ROW), path: "font.b".into(), value: "true".into() }, class));
        t.push(inv(Op::RangeClearFormatting { area: Ar::new(s, 1, col, 1, LAST_ROW) }, class));
    }
    t.push(inv(Op::MoveRows { sheet: s, row: 2, count: 1, delta: -5 }, "move-off-grid"));
    t.push(inv(Op::MoveRows { sheet: s, row: LAST_ROW - 1, count: 1, delta: 3 }, "move-off-grid"));
    t.push(inv(Op::MoveColumns { sheet: s, col: 2, count: 1, delta: -5 }, "move-off-grid"));
    t.push(inv(Op::MoveColumns { sheet: s, col: LAST_COLUMN - 1, count: 1, delta: 3 }, "move-off-grid"));

    // ---- ranges crossing the edge of the grid
    let cr = "range-cross-rows";
    t.push(inv(Op::UpdateRangeStyle { area: Ar::new(s, LAST_ROW, 3, 1, 2), path: "font.b".into(), value: "true".into() }, cr));
    t.push(inv(Op::RangeClearContents { area: Ar::new(s, LAST_ROW, 3, 1, 2) }, cr));
    t.push(inv(Op::RangeClearAll { area: Ar::new(s, LAST_ROW, 3, 1, 2) }, cr));
    t.push(inv_s(
        vec![Op::UpdateRangeStyle { area: Ar::new(s, LAST_ROW, 3, 1, 1), path: "font.i".into(), value: "true".into() }],
        Op::RangeClearFormatting { area: Ar::new(s, LAST_ROW, 3, 1, 2) },
        cr,
    ));
    t.push(inv(Op::SetAreaWithBorder { area: Ar::new(s, LAST_ROW, 3, 1, 2), btype: "All".into(), style: "thin".into(), color: "#000000".into() }, cr));
    t.push(inv(Op::SetRowsHeight { sheet: s, start: LAST_ROW - 1, end: LAST_ROW + 1, height: 40.0 }, cr));
    t.push(inv(Op::SetRowsHidden { sheet: s, start: LAST_ROW - 1, end: LAST_ROW + 1, hidden: true }, cr));
    t.push(inv(Op::SetUserArrayFormula { sheet: s, row: LAST_ROW, col: 3, width: 1, height: 2, formula: "=A1:A2".into() }, cr));
    t.push(inv(Op::DeleteRows { sheet: s, row: LAST_ROW, count: 2 }, cr));
    t.push(inv(Op::PasteCsv { sheet: s, row: LAST_ROW, col: 3, csv: "1\n2".into() }, cr));
    t.push(inv(Op::AutoFillColumns { area: Ar::new(s, LAST_ROW, 1, 1, 2), to_col: 4 }, cr));
    t.push(inv_s(vec![Op::SetSelectedSheet { sheet: s }, Op::SetSelectedCell { row: LAST_ROW, col: 3 }], Op::OnPasteStyles { height: 2, width: 1, a: plain.clone(), b: StyleSpec { b: true, ..plain.clone() } }, cr));
    t.push(inv_s(
        vec![Op::SetUserInput { sheet: s, row: 1, col: 5, value: "1".into() }, Op::SetUserInput { sheet: s, row: 2, col: 5, value: "2".into() }],
        Op::Paste { src_sheet: s, r1: 1, c1: 5, r2: 2, c2: 5, dst_sheet: s, dst_row: LAST_ROW, dst_col: 3, cut: false },
        cr,
    ));
    let cc = "range-cross-cols";
    t.push(inv(Op::UpdateRangeStyle { area: Ar::new(s, 3, LAST_COLUMN, 2, 1), path: "font.b".into(), value: "true".into() }, cc));
    t.push(inv(Op::RangeClearContents { area: Ar::new(s, 3, LAST_COLUMN, 2, 1) }, cc));
    t.push(inv(Op::RangeClearAll { area: Ar::new(s, 3, LAST_COLUMN, 2, 1) }, cc));
    t.push(inv_s(
        vec![Op::UpdateRangeStyle { area: Ar::new(s, 3, LAST_COLUMN, 1, 1), path: "font.i".into(), value: "true".into() }],
        Op::RangeClearFormatting { area: Ar::new(s, 3, LAST_COLUMN, 2, 1) },
        cc,
    ));
    t.push(inv(Op::SetAreaWithBorder { area: Ar::new(s, 3, LAST_COLUMN, 2, 1), btype: "All".into(), style: "thin".into(), color: "#000000".into() }, cc));
    t.push(inv(Op::SetColumnsWidth { sheet: s, start: LAST_COLUMN - 1, end: LAST_COLUMN + 1, width: 40.0 }, cc));
    t.push(inv(Op::SetColumnsHidden { sheet: s, start: LAST_COLUMN - 1, end: LAST_COLUMN + 1, hidden: true }, cc));
    t.push(inv(Op::SetUserArrayFormula { sheet: s, row: 3, col: LAST_COLUMN, width: 2, height: 1, formula: "=A1:B1".into() }, cc));
    t.push(inv(Op::DeleteColumns { sheet: s, col: LAST_COLUMN, count: 2 }, cc));
    t.push(inv(Op::PasteCsv { sheet: s, row: 3, col: LAST_COLUMN, csv: "1\t2".into() }, cc));
    t.push(inv(Op::AutoFillRows { area: Ar::new(s, 1, LAST_COLUMN, 2, 1), to_row: 4 }, cc));
    t.push(inv_s(vec![Op::SetSelectedSheet { sheet: s }, Op::SetSelectedCell { row: 3, col: LAST_COLUMN }], Op::OnPasteStyles { height: 1, width: 2, a: plain.clone(), b: StyleSpec { b: true, ..plain.clone() } }, cc));
    t.push(inv_s(
        vec![Op::SetUserInput { sheet: s, row: 1, col: 5, value: "1".into() }, Op::SetUserInput { sheet: s, row: 1, col: 6, value: "2".into() }],
        Op::Paste { src_sheet: s, r1: 1, c1: 5, r2: 1, c2: 6, dst_sheet: s, dst_row: 3, dst_col: LAST_COLUMN, cut: true },
        cc,
    ));

    // ---- negative sizes and counts
    t.push(inv(Op::SetColumnsWidth { sheet: s, start: c0, end: c0 + 1, width: -1.0 }, "neg-size"));
    t.push(inv(Op::SetRowsHeight { sheet: s, start: r0, end: r0 + 1, height: -1.0 }, "neg-size"));
    t.push(inv_s(vec![Op::SetColumnsWidth { sheet: s, start: c0, end: c0, width: 50.0 }], Op::SetColumnsWidth { sheet: s, start: c0, end: c0 + 1, width: -2.5 }, "neg-size"));
    t.push(inv(Op::SetUserArrayFormula { sheet: s, row: r0, col: c0, width: -1, height: 2, formula: "=A1:B2".into() }, "neg-size"));
    t.push(inv(Op::SetUserArrayFormula { sheet: s, row: r0, col: c0, width: 0, height: 0, formula: "=A1:B2".into() }, "neg-size"));
    t.push(inv(Op::AutoFillRows { area: Ar::new(s, r0, c0, -1, 1), to_row: r0 + 3 }, "neg-size"));
    t.push(inv(Op::AutoFillColumns { area: Ar::new(s, r0, c0, 1, 0), to_col: c0 + 3 }, "neg-size"));
    t.push(inv(Op::RangeClearContents { area: Ar::new(s, r0, c0, -1, 2) }, "neg-size"));
    t.push(inv(Op::UpdateRangeStyle { area: Ar::new(s, r0, c0, -1, 2), path: "font.b".into(), value: "true".into() }, "neg-size"));
    for count in [-1, 0] {
        t.push(inv(Op::InsertRows { sheet: s, row: r0, count }, "neg-count"));
        t.push(inv(Op::InsertColumns { sheet: s, col: c0, count }, "neg-count"));
        t.push(inv(Op::DeleteRows { sheet: s, row: r0, count }, "neg-count"));
        t.push(inv(Op::DeleteColumns { sheet: s, col: c0, count }, "neg-count"));
    }
    t.push(inv(Op::InsertRows { sheet: s, row: r0, count: LAST_ROW }, "count-too-large"));
    t.push(inv(Op::InsertColumns { sheet: s, col: c0, count: LAST_COLUMN }, "count-too-large"));
    t.push(inv(Op::SetFrozenRows { sheet: s, count: -1 }, "frozen-neg"));
    t.push(inv(Op::SetFrozenColumns { sheet: s, count: -1 }, "frozen-neg"));
    t.push(inv(Op::SetFrozenRows { sheet: s, count: LAST_ROW }, "frozen-too-large"));
    t.push(inv(Op::SetFrozenColumns { sheet: s, count: LAST_COLUMN }, "frozen-too-large"));

    // ---- invalid settings, style paths, style values, colours
    t.push(inv(Op::SetTimezone { tz: "Nowhere/Land".into() }, "bad-timezone"));
    t.push(inv(Op::SetLocale { locale: "xx-YY".into() }, "bad-locale"));
    t.push(inv(Op::SetLanguage { lang: "xx".into() }, "bad-language"));
    let shapes = [Ar::new(s, r0, c0, 2, 2), Ar::new(s, 1, c0, 1, LAST_ROW), Ar::new(s, r0, 1, LAST_COLUMN, 1)];
    for (i, area) in shapes.iter().enumerate() {
        // make sure there is something in the full row / full column to iterate over
        let setup = if i == 0 { vec![] } else { vec![Op::SetUserInput { sheet: s, row: r0, col: c0, value: "7".into() }] };
        t.push(inv_s(setup.clone(), Op::UpdateRangeStyle { area: *area, path: "font.bold".into(), value: "true".into() }, "bad-style-path"));
        t.push(inv_s(setup.clone(), Op::UpdateRangeStyle { area: *area, path: "font.b".into(), value: "yes".into() }, "bad-style-value"));
        t.push(inv_s(setup.clone(), Op::UpdateRangeStyle { area: *area, path: "font.size".into(), value: "0".into() }, "bad-style-value"));
        t.push(inv_s(setup.clone(), Op::UpdateRangeStyle { area: *area, path: "fill.color".into(), value: "red".into() }, "bad-color"));
    }
    t.push(inv(Op::UpdateRangeStyle { area: shapes[0], path: "font.size".into(), value: "abc".into() }, "bad-style-value"));
    t.push(inv(Op::UpdateRangeStyle { area: shapes[0], path: "alignment.horizontal".into(), value: "middle".into() }, "bad-style-value"));
    t.push(inv(Op::UpdateRangeStyle { area: shapes[0], path: "alignment".into(), value: "x".into() }, "bad-style-value"));
    t.push(inv(Op::UpdateRangeStyle { area: shapes[0], path: "font.color".into(), value: "#12345".into() }, "bad-color"));
    t.push(inv(Op::SetAreaWithBorder { area: shapes[0], btype: "All".into(), style: "wavy".into(), color: "#000000".into() }, "bad-border-style"));
    // font.size_delta that is fine for the first cell and underflows on a later one
    t.push(inv_s(
        vec![Op::UpdateRangeStyle { area: Ar::new(s, r0 + 1, c0, 1, 1), path: "font.size".into(), value: "3".into() }],
        Op::UpdateRangeStyle { area: Ar::new(s, r0, c0, 1, 2), path: "font.size_delta".into(), value: "-5".into() },
        "size-delta-underflow",
    ));
    t.push(inv_s(
        vec![
            Op::SetUserInput { sheet: s, row: r0, col: c0, value: "7".into() },
            Op::SetUserInput { sheet: s, row: r0 + 1, col: c0, value: "8".into() },
            Op::UpdateRangeStyle { area: Ar::new(s, r0 + 1, c0, 1, 1), path: "font.size".into(), value: "3".into() },
        ],
        Op::UpdateRangeStyle { area: Ar::new(s, 1, c0, 1, LAST_ROW), path: "font.size_delta".into(), value: "-5".into() },
        "size-delta-underflow",
    ));
    t.push(inv_s(
        vec![
            Op::SetUserInput { sheet: s, row: r0, col: c0, value: "7".into() },
            Op::SetUserInput { sheet: s, row: r0, col: c0 + 1, value: "8".into() },
            Op::UpdateRangeStyle { area: Ar::new(s, r0, c0 + 1, 1, 1), path: "font.size".into(), value: "3".into() },
        ],
        Op::UpdateRangeStyle { area: Ar::new(s, r0, 1, LAST_COLUMN, 1), path: "font.size_delta".into(), value: "-5".into() },
        "size-delta-underflow",
    ));

    // ---- sheet names
    if st.n_sheets > 1 {
        let other = (s + 1) % st.n_sheets;
        t.push(inv(Op::RenameSheet { sheet: s, name: st.sheet_names[other as usize].clone() }, "sheet-name-dup"));
        t.push(inv(Op::RenameSheet { sheet: s, name: st.sheet_names[other as usize].to_uppercase() }, "sheet-name-dup"));
    } else {
        t.push(inv_s(vec![Op::NewSheet {}], Op::RenameSheet { sheet: 0, name: "SHEET2".into() }, "sheet-name-dup"));
    }
    t.push(inv(Op::RenameSheet { sheet: s, name: String::new() }, "sheet-name-empty"));
    t.push(inv(Op::RenameSheet { sheet: s, name: "x".repeat(32) }, "sheet-name-long"));
    t.push(inv(Op::RenameSheet { sheet: s, name: "a[b".into() }, "sheet-name-bracket"));
    t.push(inv(Op::RenameSheet { sheet: s, name: "a:b".into() }, "sheet-name-bracket"));
    if st.n_sheets == 1 {
        t.push(inv(Op::DeleteSheet { sheet: 0 }, "delete-only-sheet"));
        t.push(inv(Op::HideSheet { sheet: 0 }, "hide-only-sheet"));
    } else {
        // hide everything but one sheet, then hide the last visible one
        let setup: Vec<Op> = (0..st.n_sheets).filter(|i| *i != s).map(|i| Op::HideSheet { sheet: i }).collect();
        t.push(inv_s(setup, Op::HideSheet { sheet: s }, "hide-only-sheet"));
    }

    // ---- defined names
    let target = format!("{}!$A$1", sname(0));
    let mk = Op::NewDefinedName { name: "dupname".into(), scope: None, formula: target.clone() };
    let mk2 = Op::NewDefinedName { name: "othername".into(), scope: None, formula: target.clone() };
    t.push(inv_s(vec![mk.clone()], Op::NewDefinedName { name: "dupname".into(), scope: None, formula: target.clone() }, "name-dup"));
    t.push(inv_s(vec![mk.clone()], Op::NewDefinedName { name: "DUPNAME".into(), scope: None, formula: target.clone() }, "name-dup"));
    for bad_name in ["1abc", "A1", "R", "has space", ""] {
        t.push(inv(Op::NewDefinedName { name: bad_name.into(), scope: None, formula: target.clone() }, "name-invalid"));
        t.push(inv_s(vec![mk.clone()], Op::UpdateDefinedName { name: "dupname".into(), scope: None, new_name: bad_name.into(), new_scope: None, new_formula: target.clone() }, "name-invalid"));
    }
    for bad_formula in ["=1+", "NoSuchSheet!$A$1", "hello world", ""] {
        t.push(inv(Op::NewDefinedName { name: "okname".into(), scope: None, formula: bad_formula.into() }, "name-bad-formula"));
        t.push(inv_s(vec![mk.clone()], Op::UpdateDefinedName { name: "dupname".into(), scope: None, new_name: "dupname".into(), new_scope: None, new_formula: bad_formula.into() }, "name-bad-formula"));
    }
    t.push(inv(Op::DeleteDefinedName { name: "nonexistent".into(), scope: None }, "name-unknown"));
    t.push(inv_s(vec![mk.clone()], Op::DeleteDefinedName { name: "dupname".into(), scope: Some(s) }, "name-unknown"));
    t.push(inv(Op::UpdateDefinedName { name: "nonexistent".into(), scope: None, new_name: "n2".into(), new_scope: None, new_formula: target.clone() }, "name-unknown"));
    t.push(inv_s(vec![mk.clone(), mk2.clone()], Op::UpdateDefinedName { name: "dupname".into(), scope: None, new_name: "othername".into(), new_scope: None, new_formula: target.clone() }, "name-dup"));
    t.push(inv_s(vec![mk.clone()], Op::UpdateDefinedName { name: "dupname".into(), scope: None, new_name: "dupname".into(), new_scope: Some(bad), new_formula: target.clone() }, "name-bad-scope"));
    t.push(inv_s(vec![mk.clone()], Op::UpdateDefinedName { name: "dupname".into(), scope: Some(bad), new_name: "dupname".into(), new_scope: None, new_formula: target.clone() }, "name-bad-scope"));

    // ---- named styles
    let mks = Op::CreateNamedStyle { name: "dupstyle".into(), spec: StyleSpec { b: true, ..plain.clone() }, includes: 63 };
    let mks2 = Op::CreateNamedStyle { name: "otherstyle".into(), spec: StyleSpec { i: true, ..plain.clone() }, includes: 63 };
    t.push(inv_s(vec![mks.clone()], Op::CreateNamedStyle { name: "dupstyle".into(), spec: plain.clone(), includes: 63 }, "named-style-dup"));
    t.push(inv(Op::CreateNamedStyle { name: "normal".into(), spec: plain.clone(), includes: 63 }, "named-style-dup"));
    t.push(inv(Op::DeleteNamedStyle { name: "nope".into() }, "named-style-unknown"));
    t.push(inv(Op::UpdateNamedStyle { name: "nope".into(), new_name: "nope2".into(), spec: plain.clone(), includes: 63 }, "named-style-unknown"));
    t.push(inv(Op::ApplyNamedStyle { name: "nope".into() }, "named-style-unknown"));
    t.push(inv(Op::DeleteNamedStyle { name: "normal".into() }, "named-style-builtin"));
    t.push(inv(Op::UpdateNamedStyle { name: "normal".into(), new_name: "normal".into(), spec: StyleSpec { b: true, ..plain.clone() }, includes: 63 }, "named-style-builtin"));
    t.push(inv_s(vec![mks.clone(), mks2.clone()], Op::UpdateNamedStyle { name: "dupstyle".into(), new_name: "otherstyle".into(), spec: plain.clone(), includes: 63 }, "named-style-dup"));
    t.push(inv_s(vec![Op::SetSelectedSheet { sheet: s }, Op::SetSelectedCell { row: LAST_ROW, col: 3 }], Op::ApplyNamedStyle { name: "nope".into() }, "named-style-unknown"));

    // ---- conditional formatting
    t.push(inv(Op::DeleteCf { sheet: s, index: 99 }, "cf-index"));
    t.push(inv(Op::UpdateCf { sheet: s, index: 99, range: "A1:B2".into(), kind: 2, formula: "3".into(), color: "#FF0000".into() }, "cf-index"));
    t.push(inv(Op::RaiseCf { sheet: s, index: 99 }, "cf-index"));
    t.push(inv(Op::LowerCf { sheet: s, index: 99 }, "cf-index"));
    let mkcf = Op::AddCf { sheet: s, range: "A1:B2".into(), kind: 2, formula: "3".into(), color: "#FF0000".into() };
    t.push(inv(Op::AddCf { sheet: s, range: "not a range".into(), kind: 2, formula: "3".into(), color: "#FF0000".into() }, "cf-bad-range"));
    t.push(inv(Op::AddCf { sheet: s, range: String::new(), kind: 0, formula: "3".into(), color: "#FF0000".into() }, "cf-bad-range"));
    t.push(inv_s(vec![mkcf.clone()], Op::UpdateCf { sheet: s, index: 0, range: "zzz!".into(), kind: 2, formula: "3".into(), color: "#FF0000".into() }, "cf-bad-range"));
    t.push(inv(Op::AddCf { sheet: s, range: "A1:B2".into(), kind: 3, formula: "=1+".into(), color: "#FF0000".into() }, "cf-bad-formula"));
    t.push(inv_s(vec![mkcf.clone()], Op::UpdateCf { sheet: s, index: 0, range: "A1:B2".into(), kind: 3, formula: "=SUM(".into(), color: "#FF0000".into() }, "cf-bad-formula"));

    // ---- data pushed off the grid
    t.push(inv_s(vec![Op::SetUserInput { sheet: s, row: LAST_ROW, col: 1, value: "x".into() }], Op::InsertRows { sheet: s, row: 1, count: 1 }, "push-off-grid"));
    t.push(inv_s(vec![Op::SetUserInput { sheet: s, row: 1, col: LAST_COLUMN, value: "y".into() }], Op::InsertColumns { sheet: s, col: 1, count: 1 }, "push-off-grid"));
    t.push(inv_s(vec![Op::SetUserInput { sheet: s, row: LAST_ROW - 1, col: 1, value: "x".into() }], Op::InsertRows { sheet: s, row: 3, count: 2 }, "push-off-grid"));

    // ---- edits that split an array formula
    let (ar, ac) = (r0 + 1, c0); // anchor of a 2x2 CSE array
    let cse = vec![
        Op::SetUserInput { sheet: s, row: 1, col: 1, value: "1".into() },
        Op::SetUserArrayFormula { sheet: s, row: ar, col: ac, width: 2, height: 2, formula: "=A1:B2*2".into() },
    ];
    let sp = "split-array";
    t.push(inv_s(cse.clone(), Op::DeleteRows { sheet: s, row: ar + 1, count: 1 }, sp));
    t.push(inv_s(cse.clone(), Op::DeleteRows { sheet: s, row: ar, count: 1 }, sp));
    t.push(inv_s(cse.clone(), Op::InsertRows { sheet: s, row: ar + 1, count: 1 }, sp));
    t.push(inv_s(cse.clone(), Op::DeleteColumns { sheet: s, col: ac + 1, count: 1 }, sp));
    t.push(inv_s(cse.clone(), Op::InsertColumns { sheet: s, col: ac + 1, count: 1 }, sp));
    t.push(inv_s(cse.clone(), Op::MoveRows { sheet: s, row: ar + 1, count: 1, delta: 3 }, sp));
    t.push(inv_s(cse.clone(), Op::MoveColumns { sheet: s, col: ac + 1, count: 1, delta: 3 }, sp));
    t.push(inv_s(cse.clone(), Op::MoveRows { sheet: s, row: 1, count: 1, delta: ar }, sp));
    t.push(inv_s(cse.clone(), Op::SetUserInput { sheet: s, row: ar + 1, col: ac + 1, value: "5".into() }, sp));
    t.push(inv_s(cse.clone(), Op::SetUserInput { sheet: s, row: ar, col: ac + 1, value: String::new() }, sp));
    t.push(inv_s(cse.clone(), Op::RangeClearContents { area: Ar::new(s, ar + 1, ac + 1, 1, 1) }, sp));
    t.push(inv_s(cse.clone(), Op::RangeClearContents { area: Ar::new(s, ar - 1, ac, 1, 2) }, sp));
    t.push(inv_s(cse.clone(), Op::RangeClearAll { area: Ar::new(s, ar + 1, ac, 2, 1) }, sp));
    t.push(inv_s(cse.clone(), Op::PasteCsv { sheet: s, row: ar + 1, col: ac + 1, csv: "9".into() }, sp));
    t.push(inv_s(cse.clone(), Op::PasteCsv { sheet: s, row: ar - 1, col: ac, csv: "9\n8".into() }, sp));
    t.push(inv_s(cse.clone(), Op::SetUserArrayFormula { sheet: s, row: ar + 1, col: ac + 1, width: 2, height: 2, formula: "=A1:B2".into() }, sp));
    t.push(inv_s(cse.clone(), Op::AutoFillRows { area: Ar::new(s, 1, ac, 1, 1), to_row: ar }, sp));
    t.push(inv_s(cse.clone(), Op::AutoFillColumns { area: Ar::new(s, ar, 1, 1, 1), to_col: ac }, sp));
    t.push(inv_s(cse.clone(), Op::Paste { src_sheet: s, r1: 1, c1: 1, r2: 1, c2: 1, dst_sheet: s, dst_row: ar + 1, dst_col: ac + 1, cut: false }, sp));
    t.push(inv_s(cse.clone(), Op::Paste { src_sheet: s, r1: ar, c1: ac, r2: ar, c2: ac + 1, dst_sheet: s, dst_row: ar + 4, dst_col: ac, cut: true }, sp));
    t.push(inv_s(cse.clone(), Op::SetCellLink { sheet: s, row: ar + 1, col: ac + 1, external: true, target: "https://x.org".into(), tooltip: None, label: Some("lbl".into()) }, sp));

    // ---- every rectangle-writing operation x every relation to an array x array shape x kind:
    // whatever the engine decides (accept or reject), a rejected call must change nothing
    let (ar, ac) = (7, 6);
    for (w, h) in [(1, 3), (3, 1), (2, 2), (1, 2), (2, 3)] {
        for dynamic in [false, true] {
            // source values for the fills and the paste block; array source far to the right
            let mut setup = vec![];
            for i in 0..3 {
                setup.push(Op::SetUserInput { sheet: s, row: 1 + i, col: 15, value: format!("{}", 10 * (i + 1)) });
                setup.push(Op::SetUserInput { sheet: s, row: 1, col: 15 + i, value: format!("{}", 10 * (i + 1)) });
            }
            let f = format!("={}:{}*1", a1(1, 15), a1(h, 15 + w - 1));
            if dynamic {
                setup.push(Op::SetUserInput { sheet: s, row: ar, col: ac, value: f });
            } else {
                setup.push(Op::SetUserArrayFormula { sheet: s, row: ar, col: ac, width: w, height: h, formula: f });
            }
            for (rel, tg) in array_targets(ar, ac, w, h) {
                let class: &'static str = match (rel, dynamic) {
                    ("contains", false) => "cse-array-contained",
                    ("partial", false) => "cse-array-partial",
                    ("anchor-only", false) => "cse-array-anchor-only",
                    ("spill-only", false) => "cse-array-spill-only",
                    ("touch", false) => "cse-array-touch",
                    ("contains", true) => "dyn-array-contained",
                    ("partial", true) => "dyn-array-partial",
                    ("anchor-only", true) => "dyn-array-anchor-only",
                    ("spill-only", true) => "dyn-array-spill-only",
                    _ => "dyn-array-touch",
                };
                for gap in [0, 2] {
                    for op in ops_onto_target(s, tg, gap) {
                        // neighbours of the target get values so that fills have something to write before the array
                        let mut su = setup.clone();
                        if let Op::AutoFillRows { area, .. } | Op::AutoFillColumns { area, .. } = &op {
                            for r in area.row..area.row + area.height {
                                for c in area.col..area.col + area.width {
                                    if !(r >= ar && r < ar + h && c >= ac && c < ac + w) {
                                        su.push(Op::SetUserInput { sheet: s, row: r, col: c, value: format!("{}", r + c) });
                                    }
                                }
                            }
                        }
                        if let Op::PasteCsv { row, col, .. } = &op {
                            // paste_csv_string re-selects the pasted range and fails (after recording: F04n)
                            // unless the selected cell is a corner of it; select the corner first so that the
                            // interplay with the array is what is tested
                            su.push(Op::SetSelectedSheet { sheet: s });
                            su.push(Op::SetSelectedCell { row: *row, col: *col });
                        }
                        t.push(inv_s(su, op, class));
                    }
                }
            }
        }
    }
    t
}

/// The deterministic table for the current state of `m`.
pub fn invalid_table(m: &UserModel<'_>) -> Vec<Invalid> {
    invalid_table_with(&summarize(m), &mut |_| 0)
}

/// A random entry of the table (parameters varied with `rng`).
pub fn gen_invalid(rng: &mut Rng, m: &UserModel<'_>) -> Invalid {
    let st = summarize(m);
    let mut r2 = rng.fork();
    let t = invalid_table_with(&st, &mut |n| r2.below(n.max(1)));
    t[rng.below(t.len() as u64) as usize].clone()
}

/// The class under which `op` is listed in the table for this state (`unclassified` if it is not).
pub fn classify_invalid(m: &UserModel<'_>, op: &Op) -> &'static str {
    let st = summarize(m);
    for s in 0..st.n_sheets.max(1) as u64 {
        let t = invalid_table_with(&st, &mut |n| s.min(n.saturating_sub(1)));
        if let Some(e) = t.iter().find(|e| &e.op == op) {
            return e.class;
        }
    }
    "unclassified"
}

/// STATE-AWARE generator: mostly valid ops for the state of `m`; with probability `invalid_bias` % an
/// invalid-argument op (an entry of `invalid_table`; its setup ops are *not* emitted).
pub fn gen_op(rng: &mut Rng, m: &UserModel<'_>, invalid_bias: u32) -> Op {
    if invalid_bias > 0 && rng.below(100) < invalid_bias as u64 {
        return gen_invalid(rng, m).op;
    }
    let st = summarize(m);
    if rng.chance(1, 20) {
        // view ops: on_paste_styles / on_apply_named_style / paste act on the selection
        return match rng.below(20) {
            0..=4 => Op::SetSelectedSheet { sheet: sheet_of(rng, &st) },
            5..=11 => {
                let (row, col) = rc(rng);
                Op::SetSelectedCell { row, col }
            }
            _ => {
                let (_, r, c) = m.get_selected_cell();
                Op::SetSelectedRange { r1: r, c1: c, r2: r + rng.range(0, 2) as i32, c2: c + rng.range(0, 2) as i32 }
            }
        };
    }
    let op = gen_valid_op(rng, &st);
    if matches!(op, Op::OnPasteStyles { .. } | Op::ApplyNamedStyle { .. }) && selection_cells(m) > 64 {
        // the engine selected a whole row / column (after hiding): select a cell again first
        let (row, col) = rc(rng);
        return Op::SetSelectedCell { row, col };
    }
    op
}
