//! C24 — xlsx export then import preserves the workbook.
//!  * `c24-codec`   : `escape_xml` / `decode_xlsx_escapes` / the XML parser's text decoding, each compared
//!                    with the Lean model (`Io/XlsxEscape.lean`) on adversarial strings, and the end-to-end
//!                    path string → cell of a real Model → `save_xlsx_to_writer` → `load_from_xlsx_bytes` →
//!                    cell text (oracle: the text comes back unchanged; the model predicts the outcome).
//!  * `c24-book`    : generated workbooks → export → import → evaluate → snapshot equality (oracle only).
use crate::prng::Rng;
use crate::proto::{hex, unhex};
use crate::run::{never, Ctx, ImplOut, Suite, Tier};
use ironcalc::export::save_xlsx_to_writer;
use ironcalc::import::load_from_xlsx_bytes;
use ironcalc_base::Model;
use std::io::Cursor;
use std::panic::{catch_unwind, AssertUnwindSafe};

// ---------------------------------------------------------------------------------------------
// string generator
// ---------------------------------------------------------------------------------------------

const HEXD: &[char] = &['0', '1', '4', '5', '9', 'a', 'f', 'A', 'D', 'F'];

fn gen_char(r: &mut Rng) -> char {
    match r.below(16) {
        0 | 1 => char::from_u32(r.below(0x20) as u32).unwrap(), // every C0 control incl. \t \n \r
        2 => *r.pick(&['<', '>', '"', '\'', '&', ';', '#']),
        3 | 4 => '_',
        5 => 'x',
        6 | 7 => *r.pick(HEXD),
        8 => *r.pick(&[' ', 'a', 'Z', 'g', 'G', 'X', '\u{7f}', '\u{80}', '\u{85}', '\u{a0}']),
        9 => *r.pick(&[
            '\u{d7ff}', '\u{e000}', '\u{fffd}', '\u{fffe}', '\u{ffff}', '\u{10000}', '\u{10ffff}', '\u{fdd0}',
            '\u{2028}', '\u{feff}', '\u{1fffe}',
        ]),
        10 => *r.pick(&['é', 'ß', '日', '本', '📈', '\u{301}', '\u{200d}']),
        11 => *r.pick(&['&', 'l', 't', 'g', 'a', 'm', 'p', 'q', 'u', 'o', 's', ';']),
        _ => {
            // any scalar value
            loop {
                let v = r.below(0x110000) as u32;
                if let Some(c) = char::from_u32(v) {
                    return c;
                }
            }
        }
    }
}

/// a `_xHHHH_`-shaped fragment, possibly broken in one position, possibly followed by a control
fn gen_pattern(r: &mut Rng, out: &mut String) {
    let mut frag: Vec<char> = vec!['_', 'x'];
    match r.below(6) {
        0 => frag.extend("005F".chars()),
        1 => frag.extend("005f".chars()),
        2 => frag.extend(format!("{:04X}", r.below(0x20)).chars()),
        3 => frag.extend(format!("{:04x}", 0xD7F0 + r.below(0x900)).chars()), // around the surrogates
        4 => frag.extend(format!("{:04X}", r.below(0x10000)).chars()),
        _ => {
            for _ in 0..4 {
                frag.push(*r.pick(HEXD));
            }
        }
    }
    match r.below(8) {
        0 => frag.push(char::from_u32(r.below(0x20) as u32).unwrap()),
        1 => frag.push(*r.pick(&['\u{fffe}', '\u{ffff}', 'é', 'x'])),
        2 => {}
        _ => frag.push('_'),
    }
    if r.chance(1, 5) {
        // break one position
        let i = r.below(frag.len() as u64) as usize;
        frag[i] = gen_char(r);
    }
    if r.chance(1, 8) {
        let i = r.below(frag.len() as u64) as usize;
        frag.remove(i);
    }
    out.extend(frag);
}

pub fn gen_string(r: &mut Rng, max_len: u64) -> String {
    let mut s = String::new();
    let n = r.below(max_len + 1);
    while (s.chars().count() as u64) < n {
        if r.chance(1, 4) {
            gen_pattern(r, &mut s);
        } else {
            s.push(gen_char(r));
        }
    }
    s
}

fn corpus() -> Vec<String> {
    let mut v: Vec<String> = vec![
        "".into(),
        "_".into(),
        "_x".into(),
        "_x0041_".into(),
        "_x005F_".into(),
        "_x005F_x0041_".into(),
        "_x0041\u{1}".into(), // F24a: look-alike completed by the escape of the next character
        "_x0041\u{1f}_".into(),
        "_x0041\u{ffff}".into(),
        "_x004\u{1}".into(),
        "__x0041_".into(),
        "_x_x0041_".into(),
        "_x0041_x0041_".into(),
        "_xD800_".into(),
        "_xdfff_".into(),
        "_xFFFF_".into(),
        "_xé12_".into(),
        "\u{fffe}".into(), // F24b
        "\u{ffff}".into(),
        "a\u{ffff}b".into(),
        "\r\n".into(),
        "\r".into(),
        "a\rb\nc\r\nd".into(),
        "\t".into(),
        " lead and trail ".into(),
        "  ".into(),
        "<>&\"'".into(),
        "&amp;".into(),
        "&#x1;".into(),
        "]]>".into(),
        "<![CDATA[x]]>".into(),
        "\u{0}".into(),
        "\u{b}\u{c}\u{e}".into(),
        "\u{7f}\u{80}\u{85}\u{9f}".into(),
        "\u{10ffff}\u{10000}".into(),
    ];
    for c in 0..0x20u32 {
        v.push(format!("a{}b", char::from_u32(c).unwrap()));
    }
    v.push("_x0041_".repeat(300));
    v.push("ab_\u{1}".repeat(500));
    v
}

fn gen_codec(ctx: &Ctx, sink: &mut dyn FnMut(String)) {
    let mut r = Rng::new(ctx.seed ^ 0xC24);
    for s in corpus() {
        for op in ["esc", "dec", "rt", "xmltext"] {
            // the XML-text model covers text without markup: `<` / `&` only as the exporter writes them
            if op == "xmltext" && (s.contains('<') || s.contains('&')) {
                continue;
            }
            sink(format!("c24 {op} {}", hex(&s)));
        }
        let e = ironcalc::verif::escape_xml(&s);
        sink(format!("c24 dec {}", hex(&e)));
        sink(format!("c24 xmltext {}", hex(&e)));
    }
    let (n, n_rt) = if ctx.tier == Tier::Thorough { (150_000, 3_000) } else { (12_000, 150) };
    for i in 0..n {
        let s = gen_string(&mut r, if i % 50 == 0 { 400 } else { 24 });
        match i % 4 {
            0 => sink(format!("c24 esc {}", hex(&s))),
            1 => sink(format!("c24 dec {}", hex(&s))),
            2 => {
                // decode what the real exporter wrote, and the parser on it
                let e = ironcalc::verif::escape_xml(&s);
                sink(format!("c24 dec {}", hex(&e)));
                sink(format!("c24 xmltext {}", hex(&e)));
            }
            _ => {
                // the parser on raw text without markup characters
                let t: String = s.chars().filter(|c| *c != '<' && *c != '&').collect();
                sink(format!("c24 xmltext {}", hex(&t)));
            }
        }
    }
    for _ in 0..n_rt {
        let s = gen_string(&mut r, 16);
        sink(format!("c24 rt {}", hex(&s)));
    }
}

/// what `node.text()` gives for `<t>{s}</t>` with the XML parser the importer uses
fn xml_text(s: &str) -> Option<String> {
    let doc = format!("<t>{s}</t>");
    match roxmltree::Document::parse(&doc) {
        Ok(d) => {
            let root = d.root_element();
            // the importer reads `n.text()`: the first text child
            if root.children().filter(|n| n.is_element()).count() > 0 {
                return None; // markup inside: outside the modelled fragment
            }
            Some(root.text().unwrap_or("").to_string())
        }
        Err(_) => None,
    }
}

/// string → cell → xlsx bytes → workbook → cell text
pub fn roundtrip_cell_text(s: &str) -> Result<String, String> {
    let mut m = Model::new_empty("c24", "en", "UTC", "en").map_err(|e| format!("new:{e}"))?;
    m.update_cell_with_text(0, 1, 1, s).map_err(|e| format!("set:{e}"))?;
    m.evaluate();
    let bytes = save_xlsx_to_writer(&m, Cursor::new(Vec::new())).map_err(|e| format!("export:{e}"))?.into_inner();
    let wb = load_from_xlsx_bytes(&bytes, "c24", "en", "UTC").map_err(|_| "import-error".to_string())?;
    let m2 = Model::from_workbook(wb, "en").map_err(|e| format!("from_workbook:{e}"))?;
    match m2.get_cell_value_by_index(0, 1, 1) {
        Ok(ironcalc_base::cell::CellValue::String(t)) => Ok(t),
        Ok(ironcalc_base::cell::CellValue::None) => Ok(String::new()),
        other => Err(format!("value:{other:?}")),
    }
}

fn eval_codec(req: &str) -> ImplOut {
    let f: Vec<&str> = req.split(' ').collect();
    let s = match unhex(f[2]) {
        Some(s) => s,
        None => return ImplOut::new("bad-request".into()),
    };
    match f[1] {
        "esc" => {
            let e = ironcalc::verif::escape_xml(&s);
            let mut out = ImplOut::new(hex(&e)).tag("esc");
            if e == s {
                out = out.trivial();
            }
            // oracle (codec level): parser + decoder give the string back
            match xml_text(&e).map(|t| ironcalc::verif::decode_xlsx_escapes(&t)) {
                Some(t) if t == s => {}
                Some(t) => out = out.fail(&codec_sig(&s, false), &format!("{s:?} -> {e:?} -> {t:?}")),
                None => out = out.fail(&codec_sig(&s, true), &format!("{s:?} -> {e:?} -> not well-formed XML")),
            }
            out
        }
        "dec" => {
            let d = ironcalc::verif::decode_xlsx_escapes(&s);
            let out = ImplOut::new(hex(&d)).tag("dec");
            if d == s {
                out.trivial()
            } else {
                out
            }
        }
        "xmltext" => match xml_text(&s) {
            Some(t) => {
                let out = ImplOut::new(format!("ok {}", hex(&t))).tag("xmltext:ok");
                if t == s {
                    out.trivial()
                } else {
                    out
                }
            }
            None => ImplOut::new("err".into()).tag("xmltext:err"),
        },
        "rt" => {
            let res = catch_unwind(AssertUnwindSafe(|| roundtrip_cell_text(&s)));
            match res {
                Ok(Ok(t)) if t == s => ImplOut::new("ok".into()).tag("rt:ok"),
                Ok(Ok(t)) => ImplOut::new(format!("lost {}", hex(&t)))
                    .tag("rt:lost")
                    .fail(&codec_sig(&s, false), &format!("cell text {s:?} came back as {t:?}")),
                Ok(Err(e)) if e == "import-error" => ImplOut::new("err".into())
                    .tag("rt:import-error")
                    .fail(&codec_sig(&s, true), &format!("cell text {s:?}: the exported file does not import")),
                Ok(Err(e)) => ImplOut::new(format!("other {e}")).tag("rt:other").fail("c24:string:other", &e),
                Err(_) => ImplOut::new("panic".into()).tag("rt:panic").fail("c24:string:panic", &format!("{s:?}")),
            }
        }
        _ => ImplOut::new("bad-request".into()),
    }
}

/// classify a string loss by the feature of the source that explains it
fn codec_sig(s: &str, import_failed: bool) -> String {
    let cs: Vec<char> = s.chars().collect();
    let nonchar = cs.iter().any(|c| *c == '\u{fffe}' || *c == '\u{ffff}');
    let ctl = |c: char| matches!(c as u32, 0..=8 | 0xB | 0xC | 0xE..=0x1F);
    let lookalike = cs.windows(7).any(|w| {
        w[0] == '_' && w[1] == 'x' && w[2..6].iter().all(|c| c.is_ascii_hexdigit()) && (ctl(w[6]) || w[6] == '\u{fffe}' || w[6] == '\u{ffff}')
    });
    if import_failed && nonchar {
        "c24:string:nonchar-makes-file-unreadable".into()
    } else if lookalike {
        "c24:string:lookalike-before-control".into()
    } else if import_failed {
        "c24:string:file-unreadable".into()
    } else {
        "c24:string:changed".into()
    }
}

// ---------------------------------------------------------------------------------------------
// whole workbooks: export → import → evaluate → snapshot equality (oracle only)
// ---------------------------------------------------------------------------------------------

fn gen_book(ctx: &Ctx, sink: &mut dyn FnMut(String)) {
    let n = if ctx.tier == Tier::Thorough { 8_000 } else { 200 };
    // the fixed workbook in which every arm of the exporter's cell writer occurs
    sink("c24 book arms".to_string());
    for i in 0..n {
        sink(format!("c24 book {}", ctx.seed.wrapping_mul(1_000_000) + i));
    }
}

/// key → fields of one snapshot line
fn split_line(l: &str) -> (String, Vec<(String, String)>) {
    let mut it = l.split('\u{1f}');
    let key = it.next().unwrap_or("").to_string();
    let fields = it
        .map(|f| match f.split_once('=') {
            Some((k, v)) => (k.to_string(), v.to_string()),
            None => ("value".to_string(), f.to_string()),
        })
        .collect();
    (key, fields)
}

type Snap = std::collections::BTreeMap<String, Vec<(String, String)>>;

/// Compare two snapshots. `phase` is `lost` (right after export+import) or `after-edit` (after the same edit was
/// applied to both workbooks); `already` holds the (key, field) pairs that already differed in an earlier phase
/// and are not reported again. Returns the number of differing fields.
fn diff_snaps(
    ma: &Snap,
    mb: &Snap,
    phase: &str,
    seed: &str,
    already: &mut std::collections::BTreeSet<(String, String)>,
    seen: &mut std::collections::BTreeSet<String>,
    at_cells: &mut std::collections::BTreeSet<String>,
    fails: &mut Vec<(String, String)>,
) -> usize {
    let what = if phase == "lost" { "after export+import" } else { "after export+import and the same edit on both sides" };
    let mut n = 0;
    for (k, fa) in ma {
        let aspect = k.split(':').next().unwrap_or("");
        match mb.get(k) {
            None => {
                if !already.insert((k.clone(), "<key>".into())) {
                    continue;
                }
                n += 1;
                let sig = format!("c24:{phase}:{aspect}:missing");
                if seen.insert(sig.clone()) {
                    fails.push((sig, format!("seed {seed}: {k} {fa:?} is gone {what}")));
                }
            }
            Some(fb) => {
                // F24g: the importer inserted the implicit-intersection operator into this cell's formula; every
                // other difference of the same cell (now or after the edit) is attributed to that
                if aspect == "cell" {
                    if let (Some((_, ca)), Some((_, cb))) = (fa.first(), fb.first()) {
                        if ca != cb && cb.contains('@') && cb.replace('@', "") == ca.replace('@', "") {
                            at_cells.insert(k.clone());
                        }
                    }
                }
                for (i, (name, va)) in fa.iter().enumerate() {
                    let vb = fb.get(i).map(|x| x.1.as_str()).unwrap_or("<none>");
                    if va != vb {
                        if !already.insert((k.clone(), name.clone())) {
                            continue;
                        }
                        n += 1;
                        let mut sig = format!("c24:{phase}:{aspect}:{name}");
                        if at_cells.contains(k) {
                            sig.push_str(":at-sign-added");
                        }
                        if aspect == "name" && va.replacen('=', "", 1) == vb {
                            // "=LAMBDA(..)" stored with its '=' comes back without it
                            sig.push_str(":leading-equals");
                        }
                        if seen.insert(sig.clone()) {
                            fails.push((sig, format!("seed {seed}: {k} {name}: {va} became {vb} {what}")));
                        }
                    }
                }
            }
        }
    }
    for (k, fb) in mb {
        if !ma.contains_key(k) {
            if !already.insert((k.clone(), "<key>".into())) {
                continue;
            }
            n += 1;
            let aspect = k.split(':').next().unwrap_or("");
            let sig = format!("c24:{phase}:{aspect}:extra");
            if seen.insert(sig.clone()) {
                fails.push((sig, format!("seed {seed}: {k} {fb:?} appeared {what}")));
            }
        }
    }
    n
}

fn eval_book(req: &str) -> ImplOut {
    let f: Vec<&str> = req.split(' ').collect();
    let seed = f.get(2).copied().unwrap_or("1").to_string();
    let res = catch_unwind(AssertUnwindSafe(|| {
        let mut m = if seed == "arms" {
            super::bookgen::gen_arms_model()
        } else {
            super::bookgen::gen_model(seed.parse().unwrap_or(1), 1)
        };
        let arms = super::bookgen::writer_arms(&m);
        let a = super::bookgen::snapshot(&m);
        let bytes = match save_xlsx_to_writer(&m, Cursor::new(Vec::new())) {
            Ok(c) => c.into_inner(),
            Err(e) => return Err(("c24:export-error".to_string(), format!("{e:?}"))),
        };
        let wb = match load_from_xlsx_bytes(&bytes, "book", "en", "UTC") {
            Ok(wb) => wb,
            Err(e) => return Err(("c24:exported-file-does-not-import".to_string(), format!("{e:?}"))),
        };
        let mut m2 = match Model::from_workbook(wb, "en") {
            Ok(m) => m,
            Err(e) => return Err(("c24:exported-file-does-not-load".to_string(), e)),
        };
        m2.evaluate();
        let b = super::bookgen::snapshot(&m2);
        // behavioural comparison: the same edit on both sides (the arrays change size)
        super::bookgen::apply_edit(&mut m);
        super::bookgen::apply_edit(&mut m2);
        let a2 = super::bookgen::snapshot(&m);
        let b2 = super::bookgen::snapshot(&m2);
        if std::env::var("C24_DUMP").is_ok() {
            for (tag, snap) in [("A", &a), ("B", &b), ("A'", &a2), ("B'", &b2)] {
                for l in snap.iter().filter(|l| l.starts_with("cell:")) {
                    eprintln!("{tag} {}", l.replace('\u{1f}', " "));
                }
            }
        }
        Ok((a, b, a2, b2, arms))
    }));
    match res {
        Err(_) => ImplOut::new("panic".into()).fail("c24:panic", &format!("seed {seed}")),
        Ok(Err((sig, d))) => ImplOut::new("failed".into()).fail(&sig, &format!("seed {seed}: {d}")),
        Ok(Ok((a, b, a2, b2, arms))) => {
            let mut out = ImplOut::new("done".into());
            for arm in &arms {
                out = out.tag(arm);
            }
            if seed == "arms" {
                for arm in super::bookgen::ALL_ARMS {
                    if !arms.iter().any(|x| x == arm) {
                        out = out.tag(&format!("arm-not-produced-by-the-fixed-workbook:{arm}"));
                    }
                }
            }
            // cells on a reference cycle have no value that is a function of the workbook (it depends on the
            // evaluation history: property C05/C07's domain); such workbooks are compared without their cells
            let circular = [&a, &b, &a2, &b2].iter().any(|s| s.iter().any(|l| l.starts_with("cell:") && l.contains("#CIRC!")));
            if circular {
                out = out.tag("circular:cells-not-compared");
            }
            // a spill cell whose anchor is not an array formula is a stale spill left by the evaluator in the
            // ORIGINAL workbook (property C31's subject); the file cannot express it, so such workbooks are
            // compared without their cells as well
            let orphan = [&a, &a2].iter().any(|s| s.iter().any(|l| l.starts_with("cell:") && l.contains("array=orphan-child")));
            if orphan {
                out = out.tag("stale-spill-in-original:cells-not-compared");
            }
            let skip_cells = circular || orphan;
            let to_map = |v: &Vec<String>| -> Snap {
                v.iter().map(|l| split_line(l)).filter(|(k, _)| !(skip_cells && k.starts_with("cell:"))).collect()
            };
            let (ma, mb, ma2, mb2) = (to_map(&a), to_map(&b), to_map(&a2), to_map(&b2));
            for k in ma.keys() {
                out = out.tag(k.split(':').next().unwrap_or(""));
            }
            for (_, fields) in ma.iter().filter(|(k, _)| k.starts_with("cell:")) {
                if let Some((_, v)) = fields.iter().find(|(n, _)| n == "array") {
                    out = out.tag(&format!("array:{}", v.split('(').next().unwrap_or("")));
                }
            }
            let mut already = std::collections::BTreeSet::new();
            let mut seen = std::collections::BTreeSet::new();
            let mut fails = vec![];
            let mut at_cells = std::collections::BTreeSet::new();
            let n1 = diff_snaps(&ma, &mb, "lost", &seed, &mut already, &mut seen, &mut at_cells, &mut fails);
            let n2 = diff_snaps(&ma2, &mb2, "after-edit", &seed, &mut already, &mut seen, &mut at_cells, &mut fails);
            for (sig, d) in fails {
                out = out.fail(&sig, &d);
            }
            out.ans = if n1 + n2 == 0 { "same".into() } else { format!("diff {n1} after-edit {n2}") };
            out
        }
    }
}

pub fn suites() -> Vec<Suite> {
    vec![super::c24cell::suite(), Suite {
        name: "c24-book",
        rule: "distinct generated workbooks exported by save_xlsx_to_writer, imported by load_from_xlsx_bytes + Model::from_workbook, evaluated and compared by canonical snapshot",
        modelled: false,
        gen: gen_book,
        eval: eval_book,
        exhaustive: never,
    },
    Suite {
        name: "c24-codec",
        rule: "distinct request lines on which the codec does something (escape/decode output differs from the input, or an end-to-end round trip through a real xlsx file)",
        modelled: true,
        gen: gen_codec,
        eval: eval_codec,
        exhaustive: never,
    }]
}
