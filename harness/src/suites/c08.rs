//! C08 — no cell ever stores a non-finite number.
//!  * `c08-sweep` (oracle only): EVERY built-in function (enumerated through the hook
//!    `ironcalc_base::verif::Function::into_iter()`) and every operator × argument tuples from an
//!    extreme pool × shapes {literal, cell reference, 2×2 range, array literal} × entry modes
//!    {set_user_input (scalar or dynamic by static analysis), CSE 1×1, CSE 2×2}; after `evaluate`
//!    EVERY cell of the workbook is scanned for a non-finite number.
//!  * `c08-store` (modelled): array-literal arithmetic `={a,b;c,d} op k` entered plain (dynamic),
//!    as CSE w×h, with blockers and at the sheet edge; the cells written by
//!    `Model::set_cells_with_result` are compared with the Lean model `Eval/Store.lean`.
//!  * `c08-typed` (modelled): typed numeric text with huge exponents through `set_user_input`.
use crate::prng::Rng;
use crate::run::{never, Ctx, ImplOut, Suite, Tier};
use ironcalc_base::language::get_language;
use ironcalc_base::types::{Cell, FormulaValue, SpillValue};
use ironcalc_base::verif::Function;
use ironcalc_base::Model;
use std::panic::{catch_unwind, AssertUnwindSafe};

/// the extreme pool: (formula literal, typed cell input, array-literal element)
const POOL: &[(&str, &str, &str)] = &[
    ("1E+308", "1E+308", "1E+308"),
    ("-1E+308", "-1E+308", "-1E+308"),
    ("5E-324", "5E-324", "5E-324"),
    ("-5E-324", "-5E-324", "-5E-324"),
    ("0", "0", "0"),
    ("-0", "-0", "-0"),
    ("1", "1", "1"),
    ("-1", "-1", "-1"),
    ("1E+15", "1E+15", "1E+15"),
    ("", "", "0"), // empty argument / empty cell
    ("#DIV/0!", "#DIV/0!", "#DIV/0!"),
    ("TRUE", "TRUE", "TRUE"),
    ("\"abc\"", "abc", "\"abc\""),
    ("\"1e999\"", "'1e999", "\"1e999\""),
    // moderate values so that bodies are reached (FACT(170), EXP(710), POWER(…))
    ("2", "2", "2"),
    ("0.5", "0.5", "0.5"),
    ("710", "710", "710"),
    ("171", "171", "171"),
    ("1E+154", "1E+154", "1E+154"),
    ("\"inf\"", "'inf", "\"inf\""),
    ("\"nan\"", "'nan", "\"nan\""),
];

const OPS: &[&str] = &["+", "-", "*", "/", "^", "&", "=", "<", ">", "<=", ">=", "<>", "u-", "u%"];

/// functions whose argument is an allocation size / iteration count: with 1E+15 they would try to
/// build astronomically large results (time/memory, not finiteness). They are still swept, but
/// never with the pool entries ≥ 1E+15 (see `notes/C08.md`).
const SIZE_SENSITIVE: &[&str] = &[
    "SEQUENCE", "REPT", "RANDARRAY", "MAKEARRAY", "EXPAND", "MUNIT", "TAKE", "DROP", "WRAPROWS", "WRAPCOLS",
    "CHOOSEROWS", "CHOOSECOLS", "TEXTJOIN", "REPLACE", "SUBSTITUTE", "BASE", "DEC2BIN", "COMBIN", "COMBINA",
    "PERMUT", "PERMUTATIONA", "FACT", "FACTDOUBLE", "MULTINOMIAL", "SERIESSUM", "BINOM.DIST.RANGE",
];

fn english_name(f: &Function) -> String {
    f.to_localized_name(get_language("en").unwrap())
}

fn all_function_names() -> Vec<String> {
    Function::into_iter().map(|f| english_name(&f)).collect()
}

// layout of the pool on sheet 0: singles in AA(i+1); 2x2 blocks in AC:AD rows 2i+1..2i+2
fn single_ref(i: usize) -> String {
    format!("$AA${}", i + 1)
}
fn block_ref(i: usize) -> String {
    format!("$AC${}:$AD${}", 2 * i + 1, 2 * i + 2)
}
fn array_lit(i: usize) -> String {
    let n = POOL.len();
    format!("{{{},{};{},{}}}", POOL[i].2, POOL[(i + 1) % n].2, POOL[(i + 6) % n].2, POOL[i].2)
}

fn fill_pool(m: &mut Model) {
    let n = POOL.len();
    for i in 0..n {
        let _ = m.set_user_input(0, i as i32 + 1, 27, POOL[i].1.to_string());
        let r = 2 * i as i32 + 1;
        let _ = m.set_user_input(0, r, 29, POOL[i].1.to_string());
        let _ = m.set_user_input(0, r, 30, POOL[(i + 1) % n].1.to_string());
        let _ = m.set_user_input(0, r + 1, 29, POOL[(i + 6) % n].1.to_string());
        let _ = m.set_user_input(0, r + 1, 30, POOL[i].1.to_string());
    }
}

/// shape codes: l literal, r single reference, b 2x2 block reference, a array literal
fn arg_text(shape: char, i: usize) -> String {
    match shape {
        'l' => POOL[i].0.to_string(),
        'r' => single_ref(i),
        'b' => block_ref(i),
        _ => array_lit(i),
    }
}

fn formula_text(name: &str, args: &[(char, usize)]) -> String {
    let a: Vec<String> = args.iter().map(|(s, i)| arg_text(*s, *i)).collect();
    if let Some(op) = name.strip_prefix("op:") {
        let l = if a.is_empty() || a[0].is_empty() { "0".to_string() } else { a[0].clone() };
        let r = if a.len() < 2 || a[1].is_empty() { "0".to_string() } else { a[1].clone() };
        return match op {
            "u-" => format!("=-{l}"),
            "u%" => format!("={l}%"),
            _ => format!("={l}{op}{r}"),
        };
    }
    format!("={}({})", name, a.join(","))
}

/// scan EVERY cell of the workbook; returns (sheet,row,col,kind) of non-finite numbers
fn scan_nonfinite(m: &Model) -> Vec<(usize, i32, i32, &'static str, f64)> {
    let mut bad = vec![];
    for (si, ws) in m.workbook.worksheets.iter().enumerate() {
        for (r, row) in &ws.sheet_data {
            for (c, cell) in row {
                let hit = match cell {
                    Cell::NumberCell { v, .. } if !v.is_finite() => Some(("number-cell", *v)),
                    Cell::CellFormula { v: FormulaValue::Number(v), .. } if !v.is_finite() => Some(("formula", *v)),
                    Cell::ArrayFormula { v: FormulaValue::Number(v), kind, .. } if !v.is_finite() => Some((
                        if matches!(kind, ironcalc_base::types::ArrayKind::Cse) { "cse-anchor" } else { "dynamic-anchor" },
                        *v,
                    )),
                    Cell::SpillCell { v: SpillValue::Number(v), .. } if !v.is_finite() => Some(("spill", *v)),
                    _ => None,
                };
                if let Some((k, v)) = hit {
                    bad.push((si, *r, *c, k, v));
                }
            }
        }
    }
    bad.sort_by(|a, b| (a.0, a.1, a.2).cmp(&(b.0, b.1, b.2)));
    bad
}

fn parse_args(s: &str) -> Vec<(char, usize)> {
    if s == "-" {
        return vec![];
    }
    s.split(',')
        .map(|t| {
            let sh = t.chars().next().unwrap();
            (sh, t[1..].parse::<usize>().unwrap())
        })
        .collect()
}

/// `c08 fn <NAME> <args>` with args = comma list of <shape><poolindex>, `-` = no argument
fn eval_sweep(req: &str) -> ImplOut {
    let f: Vec<&str> = req.split(' ').collect();
    let name = f[2];
    let args = parse_args(f[3]);
    let text = formula_text(name, &args);
    let text2 = text.clone();
    // watchdog: a body that loops for ever (e.g. FACT on a huge argument, see notes/C08.md) must not
    // stall the sweep; the worker thread is abandoned and the case tagged (time, not finiteness)
    let (tx, rx) = std::sync::mpsc::channel();
    std::thread::spawn(move || {
        let text = text2;
        let res = catch_unwind(AssertUnwindSafe(|| {
        let mut m = Model::new_empty("c08", "en", "UTC", "en").unwrap();
        fill_pool(&mut m);
        // plain (scalar, or dynamic when static analysis says so) at B2; CSE 1x1 at B8; CSE 2x2 at B12:C13;
        // a dependent of each anchor (the value handed to dependents in the same pass)
        let _ = m.set_user_input(0, 2, 2, text.clone());
        let _ = m.set_user_array_formula(0, 8, 2, 1, 1, &text);
        let _ = m.set_user_array_formula(0, 12, 2, 2, 2, &text);
        let _ = m.set_user_input(0, 2, 8, "=B2".to_string());
        let _ = m.set_user_input(0, 8, 8, "=B8".to_string());
        let _ = m.set_user_input(0, 12, 8, "=C13".to_string());
        m.evaluate();
        let bad = scan_nonfinite(&m);
        let kind = |r: i32, c: i32| -> String {
            match m.workbook.worksheets[0].sheet_data.get(&r).and_then(|x| x.get(&c)) {
                Some(Cell::CellFormula { v, .. }) => format!("scalar:{}", fv_kind(v)),
                Some(Cell::ArrayFormula { v, r, .. }) => format!("array{}x{}:{}", r.0, r.1, fv_kind(v)),
                _ => "other".into(),
            }
        };
        (bad, kind(2, 2), kind(12, 2))
        }));
        let _ = tx.send(res);
    });
    let res = match rx.recv_timeout(std::time::Duration::from_secs(WATCHDOG_SECS)) {
        Ok(r) => r,
        Err(_) => return ImplOut::new("timeout".into()).tag(&format!("timeout(hang, not C08):{name}")).trivial(),
    };
    match res {
        Ok((bad, k_plain, k_cse)) => {
            let mut out = ImplOut::new(format!("{k_plain} {k_cse}"));
            out.tags.push(format!("plain:{k_plain}"));
            out.tags.push(format!("cse2x2:{k_cse}"));
            out.nontrivial = !(k_plain.ends_with(":err") && k_cse.ends_with(":err"));
            for (_s, r, c, k, v) in bad {
                let path = match (r, c) {
                    (2, 2) => "plain-anchor".to_string(),
                    (8, 2) => "cse1x1-anchor".to_string(),
                    (12, 2) => "cse2x2-anchor".to_string(),
                    (12..=13, 2..=3) => "cse2x2-spill".to_string(),
                    (2..=7, 2..=7) => "dynamic-spill".to_string(),
                    (_, 8) => "dependent".to_string(),
                    (_, 27..=30) => "typed-pool".to_string(),
                    _ => format!("other-{k}"),
                };
                out.oracle.push((
                    format!("c08:nonfinite:{path}:{name}"),
                    format!("{text} -> {k} cell at row {r} col {c} holds {v}"),
                ));
            }
            out
        }
        Err(_) => ImplOut::new("panic".into()).tag("panic(C11's business)").trivial(),
    }
}

const WATCHDOG_SECS: u64 = 20;

fn fv_kind(v: &FormulaValue) -> &'static str {
    match v {
        FormulaValue::Unevaluated => "uneval",
        FormulaValue::Boolean(_) => "bool",
        FormulaValue::Number(_) => "num",
        FormulaValue::Text(_) => "text",
        FormulaValue::Error { .. } => "err",
    }
}

fn gen_sweep(ctx: &Ctx, sink: &mut dyn FnMut(String)) {
    let mut rng = Rng::new(ctx.seed ^ 0xC08);
    let tuples = if ctx.tier == Tier::Thorough { 120 } else { 16 };
    let mut names: Vec<String> = all_function_names();
    for op in OPS {
        names.push(format!("op:{op}"));
    }
    // regression corpus: the witnesses of F08a and neighbours (run first)
    for w in ["op:* a0,l6", "op:* a0,l16", "op:+ a0,a0", "op:^ a16,l16", "op:/ l6,a2", "SUM a0,a0", "POWER a16,l17"] {
        sink(format!("c08 fn {w}"));
    }
    let shapes = ['l', 'r', 'b', 'a'];
    for name in &names {
        let size_sensitive = SIZE_SENSITIVE.contains(&name.as_str());
        for t in 0..tuples {
            // arity 0..=4, weighted towards 1..3; first tuples are systematic: same value in all slots
            let arity = if t < 4 { t as usize } else { [1usize, 1, 2, 2, 2, 3, 3, 4][rng.below(8) as usize] };
            let mut args = vec![];
            for _ in 0..arity {
                let mut i = rng.below(POOL.len() as u64) as usize;
                // huge magnitudes (also the texts that cast to infinity) only where they cannot become
                // an iteration count / allocation size
                if size_sensitive && matches!(i, 0 | 1 | 8 | 13 | 18 | 19 | 20) {
                    i = [14usize, 16, 17][rng.below(3) as usize];
                }
                let sh = if size_sensitive { ['l', 'r'][rng.below(2) as usize] } else { shapes[rng.below(4) as usize] };
                args.push(format!("{sh}{i}"));
            }
            let a = if args.is_empty() { "-".to_string() } else { args.join(",") };
            sink(format!("c08 fn {name} {a}"));
        }
    }
}


// ---------------------------------------------------------------------------------------------
// c08-store: the cells written by set_cells_with_result, compared with Eval/Store.lean

const STORE_LITS: &[&str] = &["1E+308", "1", "0", "2.5", "3", "1E+300", "8E+307", "0.5"];

fn fv_enc(v: &FormulaValue) -> String {
    match v {
        FormulaValue::Unevaluated => "u".into(),
        FormulaValue::Boolean(b) => format!("b{}", *b as u8),
        FormulaValue::Number(n) => format!("n{:016x}", n.to_bits()),
        FormulaValue::Text(s) => format!("t{}", crate::proto::hex(s)),
        FormulaValue::Error { ei, .. } => format!("e{}", err_code(ei)),
    }
}
fn sv_enc(v: &SpillValue) -> String {
    match v {
        SpillValue::Boolean(b) => format!("b{}", *b as u8),
        SpillValue::Number(n) => format!("n{:016x}", n.to_bits()),
        SpillValue::Text(s) => format!("t{}", crate::proto::hex(s)),
        SpillValue::Error(ei) => format!("e{}", err_code(ei)),
    }
}
fn err_code(e: &ironcalc_base::expressions::token::Error) -> &'static str {
    use ironcalc_base::expressions::token::Error::*;
    match e {
        REF => "REF",
        NAME => "NAME",
        VALUE => "VALUE",
        DIV => "DIV",
        NA => "NA",
        NUM => "NUM",
        ERROR => "ERROR",
        NIMPL => "NIMPL",
        SPILL => "SPILL",
        CALC => "CALC",
        CIRC => "CIRC",
        NULL => "NULL",
    }
}

fn dump_sheet(m: &Model) -> String {
    let mut cells: Vec<(i32, i32, String)> = vec![];
    for (r, row) in &m.workbook.worksheets[0].sheet_data {
        for (c, cell) in row {
            let s = match cell {
                Cell::EmptyCell { .. } => "E".to_string(),
                Cell::BooleanCell { v, .. } => format!("B:{}", *v as u8),
                Cell::NumberCell { v, .. } => format!("N:{:016x}", v.to_bits()),
                Cell::ErrorCell { ei, .. } => format!("X:{}", err_code(ei)),
                Cell::SharedString { si, .. } => {
                    format!("S:{}", crate::proto::hex(&m.workbook.shared_strings[*si as usize]))
                }
                Cell::CellFormula { v, .. } => format!("F:{}", fv_enc(v)),
                Cell::ArrayFormula { r, kind, v, .. } => format!(
                    "A:{}:{}:{}:{}",
                    r.0,
                    r.1,
                    if matches!(kind, ironcalc_base::types::ArrayKind::Cse) { "c" } else { "d" },
                    fv_enc(v)
                ),
                Cell::SpillCell { a, v, .. } => format!("P:{}:{}:{}", a.0, a.1, sv_enc(v)),
            };
            cells.push((*r, *c, s));
        }
    }
    cells.sort();
    cells.iter().map(|(r, c, s)| format!("{r},{c}={s}")).collect::<Vec<_>>().join(" ")
}

/// `c08 store <row> <col> <mode> <w> <h> <brow> <bcol> <op> <klit> <rows> <cols> <lit…>`
/// (literals are indices into STORE_LITS; mode = plain | cse; blocker (0,0) = none)
fn eval_store(req: &str) -> ImplOut {
    let f: Vec<&str> = req.split(' ').collect();
    let p = |i: usize| f[i].parse::<i32>().unwrap_or(0);
    let (row, col, mode, w, h, brow, bcol, op) = (p(2), p(3), f[4], p(5), p(6), p(7), p(8), f[9]);
    let k = STORE_LITS[p(10) as usize % STORE_LITS.len()];
    let (rows, cols) = (p(11), p(12));
    let mut lits = vec![];
    for i in 0..(rows * cols) as usize {
        lits.push(STORE_LITS[f[13 + i].parse::<usize>().unwrap_or(0) % STORE_LITS.len()]);
    }
    let mut arr = String::from("{");
    for r in 0..rows {
        if r > 0 {
            arr.push(';');
        }
        for c in 0..cols {
            if c > 0 {
                arr.push(',');
            }
            arr.push_str(lits[(r * cols + c) as usize]);
        }
    }
    arr.push('}');
    let text = format!("={arr}{op}{k}");
    let res = catch_unwind(AssertUnwindSafe(|| {
        let mut m = Model::new_empty("c08", "en", "UTC", "en").unwrap();
        if brow > 0 {
            let _ = m.update_cell_with_number(0, brow, bcol, 7.0);
        }
        let entered = if mode == "cse" {
            m.set_user_array_formula(0, row, col, w, h, &text)
        } else {
            m.set_user_input(0, row, col, text.clone())
        };
        m.evaluate();
        (entered.is_ok(), dump_sheet(&m), scan_nonfinite(&m))
    }));
    match res {
        Ok((ok, dump, bad)) => {
            let mut out = ImplOut::new(format!("{} {dump}", ok as u8)).tag(&format!("store:{mode}"));
            if dump.contains("eSPILL") {
                out = out.tag("store:spill-error");
            }
            if dump.contains("eNUM") {
                out = out.tag("store:belt-hit");
            }
            for (_s, r, c, kind, v) in bad {
                out.oracle.push((format!("c08:nonfinite:store-{mode}-{kind}"), format!("{text} -> row {r} col {c} holds {v}")));
            }
            out
        }
        Err(_) => ImplOut::new("panic".into()).tag("panic(C11's business)").trivial(),
    }
}

fn gen_store(ctx: &Ctx, sink: &mut dyn FnMut(String)) {
    let mut rng = Rng::new(ctx.seed ^ 0x5708E);
    let n = if ctx.tier == Tier::Thorough { 20_000 } else { 1_500 };
    // corpus: F08a in all entry modes, blocked spill, sheet edges
    for w in [
        "2 2 plain 1 1 0 0 * 4 1 2 0 1",
        "2 2 cse 2 1 0 0 * 4 1 2 0 1",
        "2 2 cse 1 1 0 0 * 4 1 2 0 1",
        "2 2 cse 3 2 0 0 * 4 1 2 0 1",
        "2 2 plain 1 1 2 3 * 4 1 2 0 1",
        "1048576 2 plain 1 1 0 0 + 1 2 1 1 2",
        "2 16384 plain 1 1 0 0 + 1 1 2 1 2",
        "2 2 plain 1 1 0 0 / 2 2 2 0 1 2 3",
    ] {
        sink(format!("c08 store {w}"));
    }
    for _ in 0..n {
        let rows = rng.range(1, 3);
        let cols = rng.range(1, 3);
        let mode = if rng.chance(1, 2) { "plain" } else { "cse" };
        let (row, col) = match rng.below(12) {
            0 => (1_048_576, 2),
            1 => (2, 16_384),
            2 => (1_048_575, 16_383),
            _ => (rng.range(1, 4) as i32, rng.range(1, 4) as i32),
        };
        // CSE ranges are kept inside the sheet (set_user_array_formula refuses otherwise)
        let (w, h) = if mode == "cse" {
            let w = rng.range(1, 3).min(16_384 - col as i64 + 1);
            let h = rng.range(1, 3).min(1_048_576 - row as i64 + 1);
            (w, h)
        } else {
            (1, 1)
        };
        let (brow, bcol) = if rng.chance(1, 4) {
            (row + rng.range(0, 2) as i32, col + rng.range(0, 2) as i32)
        } else {
            (0, 0)
        };
        let (brow, bcol) = if (brow, bcol) == (row, col) || brow > 1_048_576 || bcol > 16_384 { (0, 0) } else { (brow, bcol) };
        let op = *rng.pick(&["*", "+", "/", "-"]);
        let k = rng.below(STORE_LITS.len() as u64);
        let mut req = format!("c08 store {row} {col} {mode} {w} {h} {brow} {bcol} {op} {k} {rows} {cols}");
        for _ in 0..rows * cols {
            req.push_str(&format!(" {}", rng.below(STORE_LITS.len() as u64)));
        }
        sink(req);
    }
}

// ---------------------------------------------------------------------------------------------
// c08-typed: numeric text typed into a cell

/// `c08 typed <hex text>` → `N:<bits>` | `T` | `B` | `X`
fn eval_typed(req: &str) -> ImplOut {
    let f: Vec<&str> = req.split(' ').collect();
    let text = crate::proto::unhex(f[2]).unwrap_or_default();
    let res = catch_unwind(AssertUnwindSafe(|| {
        let mut m = Model::new_empty("c08", "en", "UTC", "en").unwrap();
        let _ = m.set_user_input(0, 1, 1, text.clone());
        m.evaluate();
        let kind = match m.workbook.worksheets[0].sheet_data.get(&1).and_then(|x| x.get(&1)) {
            Some(Cell::NumberCell { v, .. }) => format!("N:{:016x}", v.to_bits()),
            Some(Cell::SharedString { .. }) => "T".to_string(),
            Some(Cell::BooleanCell { .. }) => "B".to_string(),
            Some(Cell::ErrorCell { .. }) => "X".to_string(),
            Some(_) => "other".to_string(),
            None => "none".to_string(),
        };
        (kind, scan_nonfinite(&m))
    }));
    match res {
        Ok((kind, bad)) => {
            let mut out = ImplOut::new(kind.clone()).tag(&format!("typed:{}", &kind[..1]));
            out.nontrivial = kind.starts_with('N');
            for (_s, r, c, k, v) in bad {
                out.oracle.push(("c08:nonfinite:typed-number".to_string(), format!("typed {text:?} -> {k} at row {r} col {c} holds {v}")));
            }
            out
        }
        Err(_) => ImplOut::new("panic".into()).tag("panic(C11's business)").trivial(),
    }
}

fn gen_typed(ctx: &Ctx, sink: &mut dyn FnMut(String)) {
    let mut rng = Rng::new(ctx.seed ^ 0x7e9ed);
    let n = if ctx.tier == Tier::Thorough { 30_000 } else { 2_500 };
    for w in [
        "1e999", "-1e999", "1E+309", "1.8e308", "1.7976931348623157e308", "1.7976931348623159e308", "1e308", "1e-999",
        "5e-324", "2e-324", "1e999%", "$1e999", "1e400", "9e999999999", "1e", "1e+", ".", "-", "+5", ".5", "5.", "1..2",
        "1e5", "1E5", "12", "0", "-0", "100%", "$3", "1.5e3", "1e-5", "e5", "1e5e", "inf", "nan", "infinity", "NaN", "-inf",
    ] {
        sink(format!("c08 typed {}", crate::proto::hex(w)));
    }
    for _ in 0..n {
        let mut s = String::new();
        match rng.below(6) {
            0 => s.push('-'),
            1 => s.push('+'),
            _ => {}
        }
        if rng.chance(1, 12) {
            s.push('$');
        }
        let nd = rng.range(0, 20);
        for i in 0..nd {
            let d = if i == 0 { rng.range(1, 9) } else { rng.range(0, 9) };
            s.push((b'0' + d as u8) as char);
        }
        if rng.chance(1, 2) {
            s.push('.');
            for _ in 0..rng.range(0, 20) {
                s.push((b'0' + rng.range(0, 9) as u8) as char);
            }
        }
        if rng.chance(4, 5) {
            s.push(if rng.chance(1, 2) { 'e' } else { 'E' });
            match rng.below(3) {
                0 => s.push('-'),
                1 => s.push('+'),
                _ => {}
            }
            let mag = match rng.below(6) {
                0 => rng.range(0, 30),
                1 => rng.range(290, 330),
                2 => rng.range(300, 312),
                3 => rng.range(320, 1000),
                4 => rng.range(1000, 100_000),
                _ => rng.range(0, 400),
            };
            if !rng.chance(1, 40) {
                s.push_str(&format!("{mag}"));
            }
        }
        if rng.chance(1, 12) {
            s.push('%');
        }
        sink(format!("c08 typed {}", crate::proto::hex(&s)));
    }
}

pub fn suites() -> Vec<Suite> {
    vec![Suite {
        name: "c08-sweep",
        rule: "every built-in function (Function::into_iter, 495) and every operator x argument tuples (arity 0..4) from the extreme pool (+-1e308, +-5e-324, 0, -0, +-1, 1e15, empty, error, TRUE, text, \"1e999\", \"inf\", \"nan\", 2, 0.5, 710, 171, 1e154) x shapes {literal, cell ref, 2x2 range, array literal}; each formula entered plain (scalar/dynamic), as CSE 1x1 and CSE 2x2, with dependents; after evaluate EVERY cell of the workbook is scanned for !is_finite(); non-trivial = some entry mode produced a non-error value",
        modelled: false,
        gen: gen_sweep,
        eval: eval_sweep,
        exhaustive: never,
    },
    Suite {
        name: "c08-store",
        rule: "array-literal arithmetic ={a,b;c,d} op k (elements/k from 1E+308, 8E+307, 1E+300, 3, 2.5, 1, 0.5, 0; op in * + / -; 1..3 x 1..3) entered plain (dynamic by static analysis) or as CSE w x h (1..3), anchor inside the sheet or at its last row/column, optional blocking number cell in the spill area; after evaluate the WHOLE sheet (every cell: kind, spill range, anchor, value bits / error) is compared with Eval/Store.lean::store on the element-wise IEEE result; non-trivial = every case",
        modelled: true,
        gen: gen_store,
        eval: eval_store,
        exhaustive: never,
    },
    Suite {
        name: "c08-typed",
        rule: "numeric text typed through set_user_input: sign, optional $, 0..20 integer digits, optional fraction, exponent magnitudes around 0, 300..312, 320..1000, 1e3..1e5, optional %, plus a corpus (1e999, 1.7976931348623159e308, inf, nan, malformed exponents); oracle: no non-finite number cell after evaluation (the recogniser itself is tied exactly by C19); non-trivial = a number was stored",
        modelled: false, // the recogniser is modelled exactly by C19 (Text/Number.lean); here only the finiteness oracle is judged
        gen: gen_typed,
        eval: eval_typed,
        exhaustive: never,
    }]
}
