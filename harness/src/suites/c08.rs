//! C08 — no cell ever stores a non-finite number.
//!  * `c08-sweep` (oracle only): EVERY built-in function (enumerated through the hook
//!    `ironcalc_base::verif::Function::into_iter()`) and every operator × argument tuples from an
//!    extreme pool × shapes {literal, cell reference, 2×2 range, array literal} × entry modes
//!    {set_user_input (scalar or dynamic by static analysis), CSE 1×1, CSE 2×2}; after `evaluate`
//!    EVERY cell of the workbook is scanned for a non-finite number.
//!  * `c08-store` (modelled): array-literal arithmetic `={a,b;c,d} op k` entered plain (dynamic),
//!    as CSE w×h, with blockers and at the sheet edge; the cells written by
//!    `Model::set_cells_with_result` are compared with the Lean model `Eval/Store.lean`.
//!  * `c08-typed` (modelled): typed numeric text with huge exponents through `set_user_input`.
use crate::prng::Rng;
use crate::run::{never, Ctx, ImplOut, Suite, Tier};
use ironcalc_base::language::get_language;
use ironcalc_base::types::{Cell, FormulaValue, SpillValue};
use ironcalc_base::verif::Function;
use ironcalc_base::Model;
use std::panic::{catch_unwind, AssertUnwindSafe};

/// the extreme pool: (formula literal, typed cell input, array-literal element)
const POOL: &[(&str, &str, &str)] = &[
    ("1E+308", "1E+308", "1E+308"),
    ("-1E+308", "-1E+308", "-1E+308"),
    ("5E-324", "5E-324", "5E-324"),
    ("-5E-324", "-5E-324", "-5E-324"),
    ("0", "0", "0"),
    ("-0", "-0", "-0"),
    ("1", "1", "1"),
    ("-1", "-1", "-1"),
    ("1E+15", "1E+15", "1E+15"),
    ("", "", "0"), // empty argument / empty cell
    ("#DIV/0!", "#DIV/0!", "#DIV/0!"),
    ("TRUE", "TRUE", "TRUE"),
    ("\"abc\"", "abc", "\"abc\""),
    ("\"1e999\"", "'1e999", "\"1e999\""),
    // moderate values so that bodies are reached (FACT(170), EXP(710), POWER(…))
    ("2", "2", "2"),
    ("0.5", "0.5", "0.5"),
    ("710", "710", "710"),
    ("171", "171", "171"),
    ("1E+154", "1E+154", "1E+154"),
    ("\"inf\"", "'inf", "\"inf\""),
    ("\"nan\"", "'nan", "\"nan\""),
];

const OPS: &[&str] = &["+", "-", "*", "/", "^", "&", "=", "<", ">", "<=", ">=", "<>", "u-", "u%"];

/// functions whose argument is an allocation size / iteration count: with 1E+15 they would try to
/// build astronomically large results (time/memory, not finiteness). They are still swept, but
/// never with the pool entries ≥ 1E+15 (see `notes/C08.md`).
const SIZE_SENSITIVE: &[&str] = &[
    "SEQUENCE", "REPT", "RANDARRAY", "MAKEARRAY", "EXPAND", "MUNIT", "TAKE", "DROP", "WRAPROWS", "WRAPCOLS",
    "CHOOSEROWS", "CHOOSECOLS", "TEXTJOIN", "REPLACE", "SUBSTITUTE", "BASE", "DEC2BIN", "COMBIN", "COMBINA",
    "PERMUT", "PERMUTATIONA", "FACT", "FACTDOUBLE", "MULTINOMIAL", "SERIESSUM", "BINOM.DIST.RANGE",
];

fn english_name(f: &Function) -> String {
    f.to_localized_name(get_language("en").unwrap())
}

fn all_function_names() -> Vec<String> {
    Function::into_iter().map(|f| english_name(&f)).collect()
}

// layout of the pool on sheet 0: singles in AA(i+1); 2x2 blocks in AC:AD rows 2i+1..2i+2
fn single_ref(i: usize) -> String {
    format!("$AA${}", i + 1)
}
fn block_ref(i: usize) -> String {
    format!("$AC${}:$AD${}", 2 * i + 1, 2 * i + 2)
}
fn array_lit(i: usize) -> String {
    let n = POOL.len();
    format!("{{{},{};{},{}}}", POOL[i].2, POOL[(i + 1) % n].2, POOL[(i + 6) % n].2, POOL[i].2)
}

fn fill_pool(m: &mut Model) {
    let n = POOL.len();
    for i in 0..n {
        let _ = m.set_user_input(0, i as i32 + 1, 27, POOL[i].1.to_string());
        let r = 2 * i as i32 + 1;
        let _ = m.set_user_input(0, r, 29, POOL[i].1.to_string());
        let _ = m.set_user_input(0, r, 30, POOL[(i + 1) % n].1.to_string());
        let _ = m.set_user_input(0, r + 1, 29, POOL[(i + 6) % n].1.to_string());
        let _ = m.set_user_input(0, r + 1, 30, POOL[i].1.to_string());
    }
}

/// shape codes: l literal, r single reference, b 2x2 block reference, a array literal
fn arg_text(shape: char, i: usize) -> String {
    match shape {
        'l' => POOL[i].0.to_string(),
        'r' => single_ref(i),
        'b' => block_ref(i),
        _ => array_lit(i),
    }
}

fn formula_text(name: &str, args: &[(char, usize)]) -> String {
    let a: Vec<String> = args.iter().map(|(s, i)| arg_text(*s, *i)).collect();
    if let Some(op) = name.strip_prefix("op:") {
        let l = if a.is_empty() || a[0].is_empty() { "0".to_string() } else { a[0].clone() };
        let r = if a.len() < 2 || a[1].is_empty() { "0".to_string() } else { a[1].clone() };
        return match op {
            "u-" => format!("=-{l}"),
            "u%" => format!("={l}%"),
            _ => format!("={l}{op}{r}"),
        };
    }
    format!("={}({})", name, a.join(","))
}

/// scan EVERY cell of the workbook; returns (sheet,row,col,kind) of non-finite numbers
fn scan_nonfinite(m: &Model) -> Vec<(usize, i32, i32, &'static str, f64)> {
    let mut bad = vec![];
    for (si, ws) in m.workbook.worksheets.iter().enumerate() {
        for (r, row) in &ws.sheet_data {
            for (c, cell) in row {
                let hit = match cell {
                    Cell::NumberCell { v, .. } if !v.is_finite() => Some(("number-cell", *v)),
                    Cell::CellFormula { v: FormulaValue::Number(v), .. } if !v.is_finite() => Some(("formula", *v)),
                    Cell::ArrayFormula { v: FormulaValue::Number(v), kind, .. } if !v.is_finite() => Some((
                        if matches!(kind, ironcalc_base::types::ArrayKind::Cse) { "cse-anchor" } else { "dynamic-anchor" },
                        *v,
                    )),
                    Cell::SpillCell { v: SpillValue::Number(v), .. } if !v.is_finite() => Some(("spill", *v)),
                    _ => None,
                };
                if let Some((k, v)) = hit {
                    bad.push((si, *r, *c, k, v));
                }
            }
        }
    }
    bad.sort_by(|a, b| (a.0, a.1, a.2).cmp(&(b.0, b.1, b.2)));
    bad
}

fn parse_args(s: &str) -> Vec<(char, usize)> {
    if s == "-" {
        return vec![];
    }
    s.split(',')
        .map(|t| {
            let sh = t.chars().next().unwrap();
            (sh, t[1..].parse::<usize>().unwrap())
        })
        .collect()
}

/// `c08 fn <NAME> <args>` with args = comma list of <shape><poolindex>, `-` = no argument
fn eval_sweep(req: &str) -> ImplOut {
    let f: Vec<&str> = req.split(' ').collect();
    let name = f[2];
    let args = parse_args(f[3]);
    let text = formula_text(name, &args);
    let res = catch_unwind(AssertUnwindSafe(|| {
        let mut m = Model::new_empty("c08", "en", "UTC", "en").unwrap();
        fill_pool(&mut m);
        // plain (scalar, or dynamic when static analysis says so) at B2; CSE 1x1 at B8; CSE 2x2 at B12:C13;
        // a dependent of each anchor (the value handed to dependents in the same pass)
        let _ = m.set_user_input(0, 2, 2, text.clone());
        let _ = m.set_user_array_formula(0, 8, 2, 1, 1, &text);
        let _ = m.set_user_array_formula(0, 12, 2, 2, 2, &text);
        let _ = m.set_user_input(0, 2, 8, "=B2".to_string());
        let _ = m.set_user_input(0, 8, 8, "=B8".to_string());
        let _ = m.set_user_input(0, 12, 8, "=C13".to_string());
        m.evaluate();
        let bad = scan_nonfinite(&m);
        let kind = |r: i32, c: i32| -> String {
            match m.workbook.worksheets[0].sheet_data.get(&r).and_then(|x| x.get(&c)) {
                Some(Cell::CellFormula { v, .. }) => format!("scalar:{}", fv_kind(v)),
                Some(Cell::ArrayFormula { v, r, .. }) => format!("array{}x{}:{}", r.0, r.1, fv_kind(v)),
                _ => "other".into(),
            }
        };
        (bad, kind(2, 2), kind(12, 2))
    }));
    match res {
        Ok((bad, k_plain, k_cse)) => {
            let mut out = ImplOut::new(format!("{k_plain} {k_cse}"));
            out.tags.push(format!("plain:{k_plain}"));
            out.tags.push(format!("cse2x2:{k_cse}"));
            out.nontrivial = !(k_plain.ends_with(":err") && k_cse.ends_with(":err"));
            for (_s, r, c, k, v) in bad {
                let path = match (r, c) {
                    (2, 2) => "plain-anchor".to_string(),
                    (8, 2) => "cse1x1-anchor".to_string(),
                    (12, 2) => "cse2x2-anchor".to_string(),
                    (12..=13, 2..=3) => "cse2x2-spill".to_string(),
                    (2..=7, 2..=7) => "dynamic-spill".to_string(),
                    (_, 8) => "dependent".to_string(),
                    (_, 27..=30) => "typed-pool".to_string(),
                    _ => format!("other-{k}"),
                };
                out.oracle.push((
                    format!("c08:nonfinite:{path}:{name}"),
                    format!("{text} -> {k} cell at row {r} col {c} holds {v}"),
                ));
            }
            out
        }
        Err(_) => ImplOut::new("panic".into()).tag("panic(C11's business)").trivial(),
    }
}

fn fv_kind(v: &FormulaValue) -> &'static str {
    match v {
        FormulaValue::Unevaluated => "uneval",
        FormulaValue::Boolean(_) => "bool",
        FormulaValue::Number(_) => "num",
        FormulaValue::Text(_) => "text",
        FormulaValue::Error { .. } => "err",
    }
}

fn gen_sweep(ctx: &Ctx, sink: &mut dyn FnMut(String)) {
    let mut rng = Rng::new(ctx.seed ^ 0xC08);
    let tuples = if ctx.tier == Tier::Thorough { 600 } else { 40 };
    let mut names: Vec<String> = all_function_names();
    for op in OPS {
        names.push(format!("op:{op}"));
    }
    // regression corpus: the witnesses of F08a and neighbours (run first)
    for w in ["op:* a0,l6", "op:* a0,l16", "op:+ a0,a0", "op:^ a16,l16", "op:/ l6,a2", "SUM a0,a0", "POWER a16,l17"] {
        sink(format!("c08 fn {w}"));
    }
    let shapes = ['l', 'r', 'b', 'a'];
    for name in &names {
        let size_sensitive = SIZE_SENSITIVE.contains(&name.as_str());
        for t in 0..tuples {
            // arity 0..=4, weighted towards 1..3; first tuples are systematic: same value in all slots
            let arity = if t < 4 { t as usize } else { [1usize, 1, 2, 2, 2, 3, 3, 4][rng.below(8) as usize] };
            let mut args = vec![];
            for _ in 0..arity {
                let mut i = rng.below(POOL.len() as u64) as usize;
                if size_sensitive && matches!(i, 0 | 1 | 8 | 18) {
                    i = 14;
                }
                let sh = shapes[rng.below(4) as usize];
                args.push(format!("{sh}{i}"));
            }
            let a = if args.is_empty() { "-".to_string() } else { args.join(",") };
            sink(format!("c08 fn {name} {a}"));
        }
    }
}

pub fn suites() -> Vec<Suite> {
    vec![Suite {
        name: "c08-sweep",
        rule: "every built-in function (Function::into_iter, 495) and every operator x argument tuples (arity 0..4) from the extreme pool (+-1e308, +-5e-324, 0, -0, +-1, 1e15, empty, error, TRUE, text, \"1e999\", \"inf\", \"nan\", 2, 0.5, 710, 171, 1e154) x shapes {literal, cell ref, 2x2 range, array literal}; each formula entered plain (scalar/dynamic), as CSE 1x1 and CSE 2x2, with dependents; after evaluate EVERY cell of the workbook is scanned for !is_finite(); non-trivial = some entry mode produced a non-error value",
        modelled: false,
        gen: gen_sweep,
        eval: eval_sweep,
        exhaustive: never,
    }]
}
