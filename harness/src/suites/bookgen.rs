//! Workbooks built through the public API from a seed (shared by C24 `c24-book` and C25), and the
//! canonical observable snapshot (DESIGN.md 2.2) restricted to what C24 lists.
use crate::prng::Rng;
use ironcalc_base::cf_types::{CfRuleInput, Cfvo, ColorScaleThreshold, TextOperator, ValueOperator};
use ironcalc_base::types::{
    Alignment, Border, BorderItem, BorderStyle, Color, Dxf, DxfFont, Fill, HorizontalAlignment, Link, SheetState,
    Style, VerticalAlignment,
};
use ironcalc_base::Model;
use std::fmt::Write;

pub const FORMULAS: &[&str] = &[
    "=1+2",
    "=A1+1",
    "=SUM(A1:B3)",
    "=$A$1*B$2-$C3",
    "=IF(A1>2,\"big\",\"small\")",
    "=A1&\" <&> \"&B1",
    "=\"_x0041_\"",
    "=-(2^2)",
    "=(1+2)*3",
    "=1/0",
    "=NA()",
    "=SQRT(-1)",
    "=TRUE",
    "=\"text\"",
    "=ROUND(2.5,0)",
    "=MAX(A1:A3,5)",
    "=SEQUENCE(2,2)",
    "=SEQUENCE(3)",
    "=A1:A2*2",
    "=SUM(SEQUENCE(3))",
    "=LET(x,2,x*3)",
    "=IFERROR(1/0,7)",
    "=Sheet1!A1",
    "=CONCAT(\"a\",\"b\")",
    "=1.5E+20",
    "=0.1+0.2",
    "={1,2;3,4}",
    "=A1%",
    "=1<>2",
    "=AND(TRUE,A1=1)",
    "=LEN(\"日本\")",
    "=myname+1",
    "=local",
    "=\"\"",
    "=REPT(\"x\",0)",
    "=IF(A1>0,\"\",1)",
];

/// Array-valued formulas whose FIRST (anchor) value is of every kind — boolean (FALSE/TRUE), number, text,
/// empty text, each error, blank/mixed — in several shapes (column, row, 2-D, 1×1), most of them sized by the
/// input cell A1 so that an edit of A1 resizes them; plus explicit `@`. Used both as dynamic (spilling) arrays
/// and as fixed-range CSE arrays.
pub const ARRAY_FORMULAS: &[&str] = &[
    "=SEQUENCE(A1)>1",
    "=SEQUENCE(A1)<9",
    "=SEQUENCE(A1)*2",
    "=SEQUENCE(A1)&\"x\"",
    "=IF(SEQUENCE(A1)>0,\"\",1)",
    "=1/(SEQUENCE(A1)-1)",
    "=IF(SEQUENCE(A1)>0,NA(),1)",
    "=SQRT(-SEQUENCE(A1))",
    "=SEQUENCE(A1)+\"a\"",
    "=SEQUENCE(1,A1)>1",
    "=SEQUENCE(1,A1)&\"\"",
    "=SEQUENCE(A1,2)=1",
    "=SEQUENCE(2,A1)/2",
    "=SEQUENCE(1)>0",
    "=SEQUENCE(1)",
    "=B1:B3",
    "=B1:C2=\"\"",
    "=ISNUMBER(B1:B3)",
    "=B1:B2&@A1:A2",
    "=A2:B2&@Sheet1!A1:B1",
    "=@B1:B3",
    "=SUM(@B1:B3)",
    "={TRUE,FALSE;1,\"x\"}",
    "={\"a\";\"b\"}",
];

const NUM_FMTS: &[&str] = &["general", "0.00", "#,##0", "0%", "yyyy-mm-dd", "0.00E+00", "$#,##0.00", "@", "[Red]0.0;[Blue]-0.0"];
const COLORS: &[&str] = &["#FF0000", "#00FF00", "#0000FF", "#123456", "#ABCDEF", "#000000", "#FFFFFF"];

fn gen_color(r: &mut Rng) -> Color {
    match r.below(5) {
        0 => Color::None,
        1 => Color::Theme(r.below(10) as i32, *r.pick(&[0.0, 0.5, -0.25, 0.39997558519241921])),
        _ => Color::Rgb(r.pick(COLORS).to_string()),
    }
}

fn gen_border_item(r: &mut Rng) -> Option<BorderItem> {
    if r.chance(1, 2) {
        return None;
    }
    let style = match r.below(8) {
        0 => BorderStyle::Thin,
        1 => BorderStyle::Medium,
        2 => BorderStyle::Thick,
        3 => BorderStyle::Double,
        4 => BorderStyle::SlantDashDot,
        5 => BorderStyle::MediumDashed,
        6 => BorderStyle::MediumDashDot,
        _ => BorderStyle::MediumDashDotDot,
    };
    Some(BorderItem { style, color: gen_color(r) })
}

pub fn gen_style(r: &mut Rng) -> Style {
    let mut s = Style::default();
    if r.chance(1, 2) {
        s.num_fmt = r.pick(NUM_FMTS).to_string();
    }
    if r.chance(1, 2) {
        s.fill = Fill { color: gen_color(r) };
    }
    if r.chance(1, 2) {
        s.font.b = r.chance(1, 2);
        s.font.i = r.chance(1, 2);
        s.font.u = r.chance(1, 2);
        s.font.strike = r.chance(1, 3);
        s.font.sz = *r.pick(&[8, 11, 13, 24]);
        s.font.color = gen_color(r);
        if r.chance(1, 3) {
            s.font.name = r.pick(&["Arial", "Inter", "Courier New", "A&B <font>"]).to_string();
        }
    }
    if r.chance(1, 3) {
        s.border = Border {
            diagonal_up: false,
            diagonal_down: false,
            left: gen_border_item(r),
            right: gen_border_item(r),
            top: gen_border_item(r),
            bottom: gen_border_item(r),
            diagonal: None,
        };
    }
    if r.chance(1, 3) {
        s.alignment = Some(Alignment {
            horizontal: match r.below(5) {
                0 => HorizontalAlignment::Center,
                1 => HorizontalAlignment::Left,
                2 => HorizontalAlignment::Right,
                3 => HorizontalAlignment::Justify,
                _ => HorizontalAlignment::General,
            },
            vertical: match r.below(4) {
                0 => VerticalAlignment::Top,
                1 => VerticalAlignment::Center,
                2 => VerticalAlignment::Justify,
                _ => VerticalAlignment::Bottom,
            },
            wrap_text: r.chance(1, 2),
        });
    }
    s
}

fn gen_dxf(r: &mut Rng) -> Dxf {
    Dxf {
        font: if r.chance(1, 2) {
            Some(DxfFont { b: Some(true), color: gen_color(r), ..Default::default() })
        } else {
            None
        },
        fill: if r.chance(2, 3) { Some(Fill { color: Color::Rgb(r.pick(COLORS).to_string()) }) } else { None },
        border: None,
        num_fmt: None,
        alignment: None,
    }
}

fn gen_text(r: &mut Rng) -> String {
    match r.below(8) {
        0 => super::c24::gen_string(r, 10),
        1 => "hello world".into(),
        2 => " padded ".into(),
        3 => "a<b>&\"c'".into(),
        4 => "line1\nline2\r\n".into(),
        5 => "_x0041_ \u{1}\u{ffff}".into(),
        6 => "日本語 📈".into(),
        _ => format!("t{}", r.below(5)),
    }
}

/// a fixed workbook that uses every construct the exporter can write (base of the C25 systematic mutants)
pub fn gen_rich_model() -> Model<'static> {
    let mut m = Model::new_empty("book", "en", "UTC", "en").expect("new_empty");
    let _ = m.add_sheet("Data 2");
    let _ = m.new_defined_name("myname", None, "Sheet1!$A$1");
    let _ = m.new_defined_name("local", Some(1), "Sheet1!$B$2:$B$3");
    let _ = m.set_user_input(0, 1, 1, "1".into());
    let _ = m.set_user_input(0, 2, 1, "2.5".into());
    let _ = m.update_cell_with_text(0, 1, 2, "a<b>&\"c' _x0041_ \u{1}");
    let _ = m.set_user_input(0, 2, 2, "TRUE".into());
    let _ = m.set_user_input(0, 3, 1, "=SUM(A1:A2)+myname".into());
    let _ = m.set_user_input(0, 3, 2, "=A1&\"x\"".into());
    let _ = m.set_user_input(0, 4, 1, "=1/0".into());
    let _ = m.set_user_input(0, 5, 1, "=SEQUENCE(2,2)".into());
    let _ = m.set_user_array_formula(0, 8, 1, 2, 2, "=A1:A2*2");
    let _ = m.set_user_input(0, 4, 3, "'007".into());
    let _ = m.set_user_input(1, 1, 1, "=Sheet1!A1+local".into());
    let mut r = Rng::new(7);
    for (row, col) in [(1, 1), (2, 2), (3, 1), (6, 4)] {
        let mut st = gen_style(&mut r);
        st.fill = Fill { color: Color::Rgb("#123456".into()) };
        st.font.color = Color::Theme(4, 0.5);
        st.border.left = Some(BorderItem { style: BorderStyle::Thin, color: Color::Rgb("#FF0000".into()) });
        st.alignment = Some(Alignment { horizontal: HorizontalAlignment::Center, vertical: VerticalAlignment::Top, wrap_text: true });
        st.num_fmt = "0.00".into();
        let _ = m.set_cell_style(0, row, col, &st);
    }
    let st = gen_style(&mut r);
    let _ = m.set_column_style(0, 3, &st);
    let _ = m.set_row_style(0, 7, &st);
    let _ = m.set_column_width(0, 2, 125.0);
    let _ = m.set_row_height(0, 2, 40.5);
    let _ = m.set_column_hidden(0, 5, true);
    let _ = m.set_row_hidden(0, 6, true);
    let _ = m.set_frozen_rows(0, 2);
    let _ = m.set_frozen_columns(0, 1);
    let _ = m.set_show_grid_lines(1, false);
    let _ = m.set_sheet_color(0, &Color::Rgb("#00FF00".into()));
    let _ = m.set_sheet_state(1, SheetState::Hidden);
    let _ = m.set_cell_link(0, 1, 1, Link::External { target: "https://example.com/?a=1&b=2".into(), tooltip: Some("tip".into()) });
    let _ = m.set_cell_link(0, 2, 1, Link::Internal { location: "Sheet1!A3".into(), tooltip: None });
    let dxf = || Dxf {
        font: Some(DxfFont { b: Some(true), color: Color::Rgb("#FF0000".into()), ..Default::default() }),
        fill: Some(Fill { color: Color::Rgb("#FFFF00".into()) }),
        border: None,
        num_fmt: None,
        alignment: None,
    };
    let rules = vec![
        CfRuleInput::CellIs { operator: ValueOperator::Between, formula: "1".into(), formula2: Some("A1+10".into()), format: dxf(), stop_if_true: true },
        CfRuleInput::Formula { formula: "=A1>B1".into(), format: dxf(), stop_if_true: false },
        CfRuleInput::Text { operator: TextOperator::Contains, value: "a<b".into(), format: dxf(), stop_if_true: false },
        CfRuleInput::ColorScale {
            thresholds: vec![
                ColorScaleThreshold { cfvo: Cfvo::Min, color: Color::Rgb("#FF0000".into()) },
                ColorScaleThreshold { cfvo: Cfvo::Percentile(50.0), color: Color::Rgb("#FFFF00".into()) },
                ColorScaleThreshold { cfvo: Cfvo::Max, color: Color::Rgb("#00FF00".into()) },
            ],
        },
        CfRuleInput::DuplicateValues { format: dxf(), stop_if_true: false },
        CfRuleInput::Top10 { rank: 3, percent: true, format: dxf(), stop_if_true: false },
        CfRuleInput::DataBar {
            min: None,
            max: Some(Cfvo::Number(10.0)),
            positive_color: Color::Rgb("#0000FF".into()),
            negative_color: Color::Rgb("#FF0000".into()),
            is_gradient: true,
            show_value: true,
        },
    ];
    for rule in rules {
        let _ = m.add_conditional_formatting(0, "A1:B5", rule);
    }
    m.evaluate();
    m
}

/// size: 0 = tiny (C25 tree suite), 1 = normal
pub fn gen_model(seed: u64, size: u32) -> Model<'static> {
    let mut r = Rng::new(seed ^ 0xB00C);
    let mut m = Model::new_empty("book", "en", "UTC", "en").expect("new_empty");
    let n_sheets = if size == 0 { 1 + r.below(2) } else { 1 + r.below(3) } as u32;
    for i in 1..n_sheets {
        let name = match r.below(5) {
            0 => format!("Data {i}"),
            1 => format!("a&b{i}"),
            2 => format!("日本{i}"),
            3 => format!("O'Neil{i}"),
            _ => format!("Sheet{}", i + 1),
        };
        if m.add_sheet(&name).is_err() {
            m.new_sheet();
        }
    }
    // names first, so that formulas using them parse
    let _ = m.new_defined_name("myname", None, "Sheet1!$A$1");
    if r.chance(1, 3) {
        let _ = m.new_defined_name("inc", None, "=LAMBDA(x,x+1)");
    }
    if r.chance(1, 2) {
        let _ = m.new_defined_name("local", Some(0), "Sheet1!$B$2:$B$3");
    }
    if n_sheets > 1 && r.chance(1, 2) {
        let _ = m.new_defined_name("local", Some(1), "Sheet1!$C$1");
    }
    let max_cells = if size == 0 { 6 } else { 25 };
    for sheet in 0..n_sheets {
        let n = 1 + r.below(max_cells);
        // every position is written at most once, and A1 (the size input) is reserved: overwriting an array
        // anchor is an editing history, whose effect on stale spill cells is property C31's subject, not C24's
        let mut used = std::collections::BTreeSet::new();
        used.insert((1, 1));
        for _ in 0..n {
            let row = 1 + r.below(8) as i32;
            let kind = r.below(13);
            // formulas live in columns D..F and refer to A..C, so that (almost) no workbook is circular:
            // the values of cells on a reference cycle depend on the evaluation history, not on the file
            let col = if kind >= 5 { 4 + r.below(3) as i32 } else { 1 + r.below(6) as i32 };
            if !used.insert((row, col)) {
                continue;
            }
            match kind {
                0 | 1 => {
                    let v = *r.pick(&["1", "2.5", "-3", "1e10", "0.1", "123456789.123", "50%", "2020-02-29", "TRUE", "FALSE", "#N/A", "#DIV/0!", "#VALUE!"]);
                    let _ = m.set_user_input(sheet, row, col, v.to_string());
                }
                2 | 3 => {
                    let t = gen_text(&mut r);
                    let _ = m.update_cell_with_text(sheet, row, col, &t);
                }
                4 => {
                    let _ = m.set_user_input(sheet, row, col, format!("'{}", r.below(100)));
                }
                5 | 6 => {
                    // fixed-range (CSE) array
                    let f = if r.chance(1, 4) {
                        *r.pick(&["=A1:A2+1", "=SUM(A1:B2)", "={1,2}*2", "=SEQUENCE(2)"])
                    } else {
                        *r.pick(ARRAY_FORMULAS)
                    };
                    let _ = m.set_user_array_formula(sheet, row, col, 1 + r.below(3) as i32, 1 + r.below(3) as i32, f);
                }
                7 | 8 | 9 => {
                    // dynamic (spilling) array
                    let f = *r.pick(ARRAY_FORMULAS);
                    let _ = m.set_user_input(sheet, row, col, f.to_string());
                }
                _ => {
                    let f = *r.pick(FORMULAS);
                    let _ = m.set_user_input(sheet, row, col, f.to_string());
                }
            }
            if r.chance(1, 3) {
                let st = gen_style(&mut r);
                let _ = m.set_cell_style(sheet, row, col, &st);
            }
        }
        // style-only (empty) cells
        for _ in 0..r.below(3) {
            let (row, col) = (1 + r.below(8) as i32, 1 + r.below(3) as i32);
            if used.insert((row, col)) {
                let st = gen_style(&mut r);
                let _ = m.set_cell_style(sheet, row, col, &st);
            }
        }
        // the input that sizes the arrays (edited again by `apply_edit` after the round trip)
        let _ = m.set_user_input(sheet, 1, 1, "3".to_string());
        if r.chance(1, 3) {
            let st = gen_style(&mut r);
            let _ = m.set_column_style(sheet, 1 + r.below(5) as i32, &st);
        }
        if r.chance(1, 3) {
            let st = gen_style(&mut r);
            let _ = m.set_row_style(sheet, 1 + r.below(5) as i32, &st);
        }
        for _ in 0..r.below(3) {
            let _ = m.set_column_width(sheet, 1 + r.below(8) as i32, *r.pick(&[10.0, 33.5, 125.0, 200.25, 64.0]));
        }
        for _ in 0..r.below(3) {
            let _ = m.set_row_height(sheet, 1 + r.below(8) as i32, *r.pick(&[10.0, 28.0, 40.5, 100.0]));
        }
        if r.chance(1, 4) {
            let _ = m.set_column_hidden(sheet, 1 + r.below(6) as i32, true);
        }
        if r.chance(1, 4) {
            let _ = m.set_row_hidden(sheet, 1 + r.below(6) as i32, true);
        }
        if r.chance(1, 3) {
            let _ = m.set_frozen_rows(sheet, r.below(4) as i32);
        }
        if r.chance(1, 3) {
            let _ = m.set_frozen_columns(sheet, r.below(4) as i32);
        }
        if r.chance(1, 3) {
            let _ = m.set_show_grid_lines(sheet, false);
        }
        if r.chance(1, 3) {
            let c = Color::Rgb(r.pick(COLORS).to_string());
            let _ = m.set_sheet_color(sheet, &c);
        }
        if sheet > 0 && r.chance(1, 3) {
            let _ = m.set_sheet_state(sheet, if r.chance(1, 2) { SheetState::Hidden } else { SheetState::VeryHidden });
        }
        for _ in 0..r.below(3) {
            let link = if r.chance(1, 2) {
                Link::External {
                    target: r.pick(&["https://example.com/?a=1&b=2", "mailto:x@y.z", "file.xlsx#Sheet1!A1"]).to_string(),
                    tooltip: if r.chance(1, 2) { Some("tip <1>".into()) } else { None },
                }
            } else {
                Link::Internal { location: "Sheet1!A3".into(), tooltip: if r.chance(1, 2) { Some("go".into()) } else { None } }
            };
            let _ = m.set_cell_link(sheet, 1 + r.below(8) as i32, 1 + r.below(6) as i32, link);
        }
        for _ in 0..r.below(3) {
            let rule = match r.below(7) {
                0 => CfRuleInput::CellIs {
                    operator: r.pick(&[ValueOperator::GreaterThan, ValueOperator::Equal, ValueOperator::LessThanOrEqual]).clone(),
                    formula: "5".into(),
                    formula2: None,
                    format: gen_dxf(&mut r),
                    stop_if_true: r.chance(1, 2),
                },
                1 => CfRuleInput::CellIs {
                    operator: ValueOperator::Between,
                    formula: "1".into(),
                    formula2: Some("A1+10".into()),
                    format: gen_dxf(&mut r),
                    stop_if_true: false,
                },
                2 => CfRuleInput::Formula { formula: "=A1>B1".into(), format: gen_dxf(&mut r), stop_if_true: false },
                3 => CfRuleInput::Text {
                    operator: TextOperator::Contains,
                    value: "a<b".into(),
                    format: gen_dxf(&mut r),
                    stop_if_true: false,
                },
                4 => CfRuleInput::ColorScale {
                    thresholds: vec![
                        ColorScaleThreshold { cfvo: Cfvo::Min, color: Color::Rgb("#FF0000".into()) },
                        ColorScaleThreshold { cfvo: Cfvo::Percentile(50.0), color: Color::Rgb("#FFFF00".into()) },
                        ColorScaleThreshold { cfvo: Cfvo::Max, color: Color::Rgb("#00FF00".into()) },
                    ],
                },
                5 => CfRuleInput::DuplicateValues { format: gen_dxf(&mut r), stop_if_true: false },
                _ => CfRuleInput::Top10 { rank: 3, percent: r.chance(1, 2), format: gen_dxf(&mut r), stop_if_true: false },
            };
            let _ = m.add_conditional_formatting(sheet, *r.pick(&["A1:B5", "C2", "A1:A3 C1:C3"]), rule);
        }
    }
    m.evaluate();
    m
}

fn color(c: &Color) -> String {
    match c {
        Color::None => "none".into(),
        Color::Rgb(s) => s.to_ascii_uppercase(),
        Color::Theme(i, t) => format!("theme({i},{:016x})", t.to_bits()),
    }
}

fn fnum(x: f64) -> String {
    format!("{:016x}", x.to_bits())
}

fn style(s: &Style) -> String {
    let b = |x: &Option<BorderItem>| match x {
        None => "-".to_string(),
        Some(i) => format!("{:?}/{}", i.style, color(&i.color)),
    };
    format!(
        "fmt={:?}\u{1f}fill={}\u{1f}font=[{} b{} i{} u{} s{} sz{} {}]\u{1f}border=[{} {} {} {} {}]\u{1f}align={}\u{1f}qp={}",
        s.num_fmt,
        color(&s.fill.color),
        s.font.name,
        s.font.b as u8,
        s.font.i as u8,
        s.font.u as u8,
        s.font.strike as u8,
        s.font.sz,
        color(&s.font.color),
        b(&s.border.left),
        b(&s.border.right),
        b(&s.border.top),
        b(&s.border.bottom),
        b(&s.border.diagonal),
        match &s.alignment {
            None => "-".to_string(),
            Some(a) => format!("{:?}/{:?}/{}", a.horizontal, a.vertical, a.wrap_text),
        },
        s.quote_prefix
    )
}

/// Canonical text snapshot, one aspect per line, each line prefixed by an aspect key
/// (`sheet:…`, `cell:…`, `style:…`, `col:…`, `row:…`, `view:…`, `name:…`, `link:…`, `cf:…`).
pub fn snapshot(m: &Model) -> Vec<String> {
    let mut out = vec![];
    let props = m.get_worksheets_properties();
    for (i, p) in props.iter().enumerate() {
        let sheet = i as u32;
        out.push(format!("sheet:{i}\u{1f}name={:?}\u{1f}state={}\u{1f}colour={}", p.name, p.state, color(&p.color)));
        let ws = match m.workbook.worksheet(sheet) {
            Ok(ws) => ws,
            Err(_) => continue,
        };
        out.push(format!(
            "view:{i}\u{1f}frozen_rows={}\u{1f}frozen_cols={}\u{1f}grid={}",
            ws.frozen_rows, ws.frozen_columns, ws.show_grid_lines
        ));
        // cells
        let mut cells: Vec<(i32, i32)> = vec![];
        for (row, data) in &ws.sheet_data {
            for col in data.keys() {
                cells.push((*row, *col));
            }
        }
        cells.sort();
        for (row, col) in cells {
            let content = m.get_localized_cell_content(sheet, row, col).unwrap_or_else(|e| format!("ERR {e}"));
            let value = format!("{:?}", m.get_cell_value_by_index(sheet, row, col));
            let ctype = format!("{:?}", m.get_cell_type(sheet, row, col));
            let text = m.get_formatted_cell_value(sheet, row, col).unwrap_or_else(|e| format!("ERR {e}"));
            let st = m.get_style_for_cell(sheet, row, col).map(|s| style(&s)).unwrap_or_else(|e| format!("ERR {e}"));
            let empty = content.is_empty() && value == "Ok(None)";
            let array = array_structure(m, sheet, row, col);
            if !empty || array != "single" {
                out.push(format!("cell:{i}:{row}:{col}\u{1f}content={content:?}\u{1f}value={value}\u{1f}type={ctype}\u{1f}text={text:?}\u{1f}array={array}"));
            }
            if !(empty && st == style(&Style::default())) {
                out.push(format!("style:{i}:{row}:{col}\u{1f}{st}"));
            }
        }
        // per-column / per-row attributes over the window the generator uses (+ margin)
        for col in 1..=12 {
            let w = m.get_column_width(sheet, col).map(fnum).unwrap_or_else(|e| e);
            let h = m.is_column_hidden(sheet, col).unwrap_or(false);
            let st = m.get_column_style(sheet, col).ok().flatten().map(|s| style(&s).replace('\u{1f}', " ")).unwrap_or_else(|| "-".into());
            out.push(format!("col:{i}:{col}\u{1f}width={w}\u{1f}hidden={h}\u{1f}style=[{st}]"));
        }
        for row in 1..=12 {
            let w = m.get_row_height(sheet, row).map(fnum).unwrap_or_else(|e| e);
            let h = m.is_row_hidden(sheet, row).unwrap_or(false);
            let st = m.get_row_style(sheet, row).ok().flatten().map(|s| style(&s).replace('\u{1f}', " ")).unwrap_or_else(|| "-".into());
            out.push(format!("row:{i}:{row}\u{1f}height={w}\u{1f}hidden={h}\u{1f}style=[{st}]"));
        }
        let mut links: Vec<String> = ws.links.iter().map(|((r, c), l)| format!("link:{i}:{r}:{c}\u{1f}link={l:?}")).collect();
        links.sort();
        out.extend(links);
        let mut cfs: Vec<(u32, String)> = vec![];
        for (k, cf) in ws.conditional_formatting.iter().enumerate() {
            let dxf = m.get_dxf_for_conditional_formatting(sheet, k);
            cfs.push((cf.priority, format!("range={:?}\u{1f}rule={}\u{1f}dxf={:?}", cf.range, cf_rule_text(&cf.cf_rule), dxf)));
        }
        // priorities are compared by order, not by number
        cfs.sort();
        for (k, (_, t)) in cfs.iter().enumerate() {
            out.push(format!("cf:{i}:{k}\u{1f}{t}"));
        }
    }
    let mut names: Vec<String> = m
        .get_defined_name_list()
        .into_iter()
        .map(|(n, scope, f)| format!("name:{n:?}:{scope:?}\u{1f}formula={f:?}"))
        .collect();
    names.sort();
    out.extend(names);
    out
}

/// the rule without its dxf index (indices are not observable; the decoded dxf is printed next to it)
fn cf_rule_text(r: &ironcalc_base::cf_types::CfRule) -> String {
    let mut s = format!("{r:?}");
    // strip `dxf_id: N`
    while let Some(p) = s.find("dxf_id: ") {
        let end = s[p..].find(|c: char| c == ',' || c == ' ' && false || c == '}').map(|e| p + e).unwrap_or(s.len());
        s.replace_range(p..end, "dxf");
    }
    let _ = write!(s, "");
    s
}

/// The array structure of a cell as `UserModel::get_cell_array_structure` reports it: `single`,
/// `dynamic-anchor(w,h)`, `cse-anchor(w,h)`, `dynamic-child(r,c,w,h)`, `cse-child(r,c,w,h)`.
pub fn array_structure(m: &Model, sheet: u32, row: i32, col: i32) -> String {
    use ironcalc_base::types::{ArrayKind, Cell};
    let ws = match m.workbook.worksheet(sheet) {
        Ok(ws) => ws,
        Err(_) => return "no-sheet".into(),
    };
    let kind = |k: &ArrayKind| if matches!(k, ArrayKind::Dynamic) { "dynamic" } else { "cse" };
    match ws.cell(row, col) {
        Some(Cell::ArrayFormula { r, kind: k, .. }) => format!("{}-anchor({},{})", kind(k), r.0, r.1),
        Some(Cell::SpillCell { a, .. }) => match ws.cell(a.0, a.1) {
            Some(Cell::ArrayFormula { r, kind: k, .. }) => format!("{}-child({},{},{},{})", kind(k), a.0, a.1, r.0, r.1),
            _ => format!("orphan-child({},{})", a.0, a.1),
        },
        _ => "single".into(),
    }
}

/// The arm of the exporter's cell writer (`get_worksheet_xml`: `Cell::*` × value variant) every cell takes.
pub fn writer_arms(m: &Model) -> Vec<String> {
    use ironcalc_base::types::{ArrayKind, Cell, FormulaValue, SpillValue};
    let fv = |v: &FormulaValue| match v {
        FormulaValue::Unevaluated => "Unevaluated",
        FormulaValue::Boolean(_) => "Boolean",
        FormulaValue::Number(_) => "Number",
        FormulaValue::Text(_) => "Text",
        FormulaValue::Error { .. } => "Error",
    };
    let mut out = vec![];
    for ws in &m.workbook.worksheets {
        for data in ws.sheet_data.values() {
            for cell in data.values() {
                out.push(match cell {
                    Cell::EmptyCell { .. } => "arm:EmptyCell".to_string(),
                    Cell::BooleanCell { .. } => "arm:BooleanCell".to_string(),
                    Cell::NumberCell { .. } => "arm:NumberCell".to_string(),
                    Cell::ErrorCell { .. } => "arm:ErrorCell".to_string(),
                    Cell::SharedString { .. } => "arm:SharedString".to_string(),
                    Cell::CellFormula { v, .. } => format!("arm:CellFormula/{}", fv(v)),
                    Cell::ArrayFormula { v, kind, .. } => format!(
                        "arm:ArrayFormula:{}/{}",
                        if matches!(kind, ArrayKind::Dynamic) { "Dynamic" } else { "Cse" },
                        fv(v)
                    ),
                    Cell::SpillCell { v, .. } => format!(
                        "arm:SpillCell/{}",
                        match v {
                            SpillValue::Boolean(_) => "Boolean",
                            SpillValue::Number(_) => "Number",
                            SpillValue::Text(_) => "Text",
                            SpillValue::Error(_) => "Error",
                        }
                    ),
                });
            }
        }
    }
    out
}

/// every arm of the cell writer that an evaluated workbook can reach
pub const ALL_ARMS: &[&str] = &[
    "arm:EmptyCell", "arm:BooleanCell", "arm:NumberCell", "arm:ErrorCell", "arm:SharedString",
    "arm:CellFormula/Boolean", "arm:CellFormula/Number", "arm:CellFormula/Text", "arm:CellFormula/Error",
    "arm:ArrayFormula:Dynamic/Boolean", "arm:ArrayFormula:Dynamic/Number", "arm:ArrayFormula:Dynamic/Text",
    "arm:ArrayFormula:Dynamic/Error", "arm:ArrayFormula:Cse/Boolean", "arm:ArrayFormula:Cse/Number",
    "arm:ArrayFormula:Cse/Text", "arm:ArrayFormula:Cse/Error",
    "arm:SpillCell/Boolean", "arm:SpillCell/Number", "arm:SpillCell/Text", "arm:SpillCell/Error",
];

/// The same small edit applied to the original and to the re-imported workbook: the input that sizes the arrays
/// grows (every `SEQUENCE(A1…)` array changes shape) and two inputs the arrays read change kind.
pub fn apply_edit(m: &mut Model) {
    let n = m.workbook.worksheets.len() as u32;
    for sheet in 0..n {
        let _ = m.set_user_input(sheet, 1, 1, "4".to_string());
        let _ = m.set_user_input(sheet, 2, 2, "TRUE".to_string());
        let _ = m.set_user_input(sheet, 3, 2, "=1/0".to_string());
    }
    m.evaluate();
}

/// A fixed workbook in which every arm of the exporter's cell writer occurs (dynamic and CSE arrays whose anchor
/// is a boolean, a number, a text and an error, with spill cells of every kind; formula cells of every value kind;
/// every literal cell kind; a style-only cell).
pub fn gen_arms_model() -> Model<'static> {
    let mut m = Model::new_empty("book", "en", "UTC", "en").expect("new_empty");
    let _ = m.set_user_input(0, 1, 1, "3".to_string());
    let _ = m.set_user_input(0, 2, 1, "TRUE".to_string());
    let _ = m.set_user_input(0, 3, 1, "#N/A".to_string());
    let _ = m.update_cell_with_text(0, 4, 1, "text");
    let _ = m.set_cell_style(0, 5, 1, &gen_style(&mut Rng::new(3)));
    for (i, f) in ["=A1>1", "=A1*2", "=A1&\"x\"", "=1/0", "=\"\""].iter().enumerate() {
        let _ = m.set_user_input(0, 1 + i as i32, 2, f.to_string());
    }
    // dynamic arrays in row 1 of every second column from D on, each spilling down/right
    let dynamic = [
        "=SEQUENCE(A1)>1",
        "=SEQUENCE(A1)*2",
        "=SEQUENCE(A1)&\"x\"",
        "=1/(SEQUENCE(A1)-1)",
        "=IF(SEQUENCE(A1)>1,NA(),TRUE)",
        "={1,\"t\";TRUE,2}",
        "=IF(SEQUENCE(A1)>0,\"\",1)",
    ];
    for (i, f) in dynamic.iter().enumerate() {
        let _ = m.set_user_input(0, 1, 4 + 3 * i as i32, f.to_string());
    }
    // the same as fixed-range arrays from row 10 on
    for (i, f) in dynamic.iter().enumerate() {
        let _ = m.set_user_array_formula(0, 10, 4 + 3 * i as i32, 2, 3, f);
    }
    m.evaluate();
    m
}
