//! C33 — cell-attached metadata (hyperlinks, conditional-format ranges and rule formulas) follows its cells.
//!  * `c33-structure`: sheets dense in links and conditional formats (single cells, ranges, multi-area sqrefs;
//!     Formula and CellIs rules with relative/absolute/cross-sheet references and ranges), one row/column
//!     insert / delete / block move through `Model` or `UserModel`;
//!  * `c33-paste`    : the same sheets, cut or copy of a rectangle through `UserModel::copy_to_clipboard` /
//!     `paste_from_clipboard`;
//!  * `c33-clear`    : `range_clear_contents` / `set_user_input("")` and undo.
//! The implementation's links and conditional formats after the action are compared with the model
//! (Driver/C33.lean) and judged by the property text (metadata = σ-image; rule formulas rewritten as cell
//! formulas are).
use super::c12::{atom_fields, atom_text, atom_text_as, fill, is_full_cols, is_full_rows, last, parse_atom, spec_sigma, Atom, Pt};
use crate::prng::Rng;
use crate::proto::{hex, unhex};
use crate::run::{never, Ctx, ImplOut, Suite, Tier};
use ironcalc_base::cf_types::{CfRule, CfRuleInput, ValueOperator};
use ironcalc_base::expressions::parser::stringify::to_localized_string;
use ironcalc_base::expressions::parser::Parser;
use ironcalc_base::expressions::types::{Area, CellReferenceRC};
use ironcalc_base::expressions::utils::number_to_column;
use ironcalc_base::language::get_language;
use ironcalc_base::locale::get_locale;
use ironcalc_base::types::{Dxf, Link};
use ironcalc_base::{ClipboardData, Model, UserModel};
use std::collections::{BTreeMap, HashMap};

// ---------------------------------------------------------------------------------------------- items

#[derive(Clone, Debug, PartialEq)]
struct Part {
    single: bool,
    r1: i64,
    c1: i64,
    r2: i64,
    c2: i64,
}

#[derive(Clone, Debug)]
struct Cf {
    parts: Vec<Part>,
    /// (template, atoms); one formula = Formula rule, two = CellIs Between
    formulas: Vec<(String, Vec<Atom>)>,
}

fn part_field(p: &Part) -> String {
    if p.single {
        format!("{}.{}", p.r1, p.c1)
    } else {
        format!("{}.{}.{}.{}", p.r1, p.c1, p.r2, p.c2)
    }
}

fn parse_part(s: &str) -> Option<Part> {
    let v: Vec<i64> = s.split('.').map(|x| x.parse().ok()).collect::<Option<Vec<_>>>()?;
    match v.len() {
        2 => Some(Part { single: true, r1: v[0], c1: v[1], r2: v[0], c2: v[1] }),
        4 => Some(Part { single: false, r1: v[0], c1: v[1], r2: v[2], c2: v[3] }),
        _ => None,
    }
}

fn col(c: i64) -> String {
    number_to_column(c as i32).unwrap_or_else(|| "?".into())
}

fn part_text(p: &Part) -> String {
    if p.single {
        format!("{}{}", col(p.c1), p.r1)
    } else {
        format!("{}{}:{}{}", col(p.c1), p.r1, col(p.c2), p.r2)
    }
}

fn sqref_text(parts: &[Part], sep: &str) -> String {
    parts.iter().map(part_text).collect::<Vec<_>>().join(sep)
}

fn cf_item(cf: &Cf) -> String {
    let parts = cf.parts.iter().map(part_field).collect::<Vec<_>>().join("+");
    let fs: Vec<String> = cf
        .formulas
        .iter()
        .map(|(tpl, atoms)| {
            let a = if atoms.is_empty() { "-".to_string() } else { atoms.iter().map(|a| atom_fields(a, "/")).collect::<Vec<_>>().join(";") };
            format!("{}~{a}", hex(tpl))
        })
        .collect();
    format!("F:{parts},{}", fs.join(","))
}

fn parse_cf(body: &str) -> Option<Cf> {
    let f: Vec<&str> = body.split(',').collect();
    let parts = f[0].split('+').map(parse_part).collect::<Option<Vec<_>>>()?;
    let mut formulas = vec![];
    for x in &f[1..] {
        let (tpl, atoms) = x.split_once('~')?;
        let atoms = if atoms == "-" {
            vec![]
        } else {
            atoms.split(';').map(|a| parse_atom(&a.split('/').collect::<Vec<_>>())).collect::<Option<Vec<_>>>()?
        };
        formulas.push((unhex(tpl)?, atoms));
    }
    Some(Cf { parts, formulas })
}

fn formula_text(tpl: &str, atoms: &[Atom]) -> String {
    format!("={}", fill(tpl, &atoms.iter().map(atom_text).collect::<Vec<_>>()))
}

// ---------------------------------------------------------------------------------------------- engine

struct State {
    links: BTreeMap<(i32, i32), String>,
    cfs: Vec<(String, Vec<String>)>, // (sqref with '+', canonical formulas)
}

fn anchor_of(range: &str) -> Option<(i32, i32)> {
    let first = range.split_whitespace().next()?.to_uppercase();
    let c = first.split(':').next()?.to_string();
    let r = ironcalc_base::expressions::utils::parse_reference_a1(&c)?;
    Some((r.row, r.column))
}

/// canonical spelling of a rule formula: parsed by the real parser at the anchor of the range and printed again
/// (the engine stores the displaced text as printed; the parser normalises inverted corners when it reads it)
fn canon(formula: &str, range: &str) -> String {
    let Some((r, c)) = anchor_of(range) else { return format!("?{formula}") };
    let locale = get_locale("en").unwrap();
    let language = get_language("en").unwrap();
    let mut parser = Parser::new(vec!["Sheet1".into(), "Sheet2".into()], vec![], HashMap::new(), locale, language);
    let ctx = CellReferenceRC { sheet: "Sheet1".into(), row: r, column: c };
    let body = formula.trim().strip_prefix('=').unwrap_or(formula.trim());
    let node = parser.parse(body, &ctx);
    format!("={}", to_localized_string(&node, &ctx, locale, language))
}

fn read_state(m: &Model) -> State {
    let ws = &m.workbook.worksheets[0];
    let mut links = BTreeMap::new();
    for ((r, c), l) in &ws.links {
        let id = match l {
            Link::External { target, .. } => target.strip_prefix("http://l").and_then(|t| t.strip_suffix(".example")).map(|t| t.to_string()).unwrap_or_else(|| format!("?{}", hex(target))),
            Link::Internal { location, .. } => format!("?i{}", hex(location)),
        };
        links.insert((*r, *c), id);
    }
    let mut cfs = vec![];
    for cf in &ws.conditional_formatting {
        let fs: Vec<String> = match &cf.cf_rule {
            CfRule::Formula { formula, .. } => vec![canon(formula, &cf.range)],
            CfRule::CellIs { formula, formula2, .. } => {
                let mut v = vec![canon(formula, &cf.range)];
                if let Some(f2) = formula2 {
                    v.push(canon(f2, &cf.range));
                }
                v
            }
            _ => vec![],
        };
        cfs.push((cf.range.split_whitespace().collect::<Vec<_>>().join("+"), fs));
    }
    State { links, cfs }
}

fn state_text(s: &State) -> String {
    let mut out: Vec<String> = s.cfs.iter().map(|(r, fs)| format!("F:{r},{}", fs.iter().map(|f| hex(f)).collect::<Vec<_>>().join(","))).collect();
    for ((r, c), id) in &s.links {
        out.push(format!("L:{r},{c},{id}"));
    }
    out.join(" ")
}

fn build(links: &[(i32, i32, String)], cfs: &[Cf]) -> Result<Model<'static>, String> {
    let mut m = Model::new_empty("c33", "en", "UTC", "en")?;
    m.new_sheet();
    // some content in the window and one far cell so that the sheet dimension covers every rectangle used
    for r in 1..=14 {
        for c in 1..=8 {
            if (r + 2 * c) % 3 == 0 {
                m.set_user_input(0, r, c, format!("{}", r * 10 + c))?;
            }
        }
    }
    m.set_user_input(0, 60, 30, "1".into())?;
    for (r, c, id) in links {
        m.workbook.worksheets[0].links.insert((*r, *c), Link::External { target: format!("http://l{id}.example"), tooltip: None });
    }
    let dxf = Dxf { font: None, fill: None, border: None, num_fmt: None, alignment: None };
    for cf in cfs {
        let range = sqref_text(&cf.parts, " ");
        let rule = if cf.formulas.len() == 2 {
            CfRuleInput::CellIs {
                operator: ValueOperator::Between,
                formula: formula_text(&cf.formulas[0].0, &cf.formulas[0].1),
                formula2: Some(formula_text(&cf.formulas[1].0, &cf.formulas[1].1)),
                format: dxf.clone(),
                stop_if_true: false,
            }
        } else {
            CfRuleInput::Formula { formula: formula_text(&cf.formulas[0].0, &cf.formulas[0].1), format: dxf.clone(), stop_if_true: false }
        };
        m.add_conditional_formatting(0, &range, rule)?;
    }
    m.evaluate();
    Ok(m)
}

fn clipboard_of(m: &UserModel) -> Result<(ClipboardData, u32, (i32, i32, i32, i32)), String> {
    let cb = m.copy_to_clipboard()?;
    let v = serde_json::to_value(&cb).map_err(|e| e.to_string())?;
    let data: ClipboardData = serde_json::from_value(v["data"].clone()).map_err(|e| e.to_string())?;
    let sheet = v["sheet"].as_u64().unwrap_or(0) as u32;
    let r = &v["range"];
    let range = (r[0].as_i64().unwrap() as i32, r[1].as_i64().unwrap() as i32, r[2].as_i64().unwrap() as i32, r[3].as_i64().unwrap() as i32);
    Ok((data, sheet, range))
}

// ---------------------------------------------------------------------------------------------- the property

/// where a cell goes under the action (None = deleted)
fn spec_cell(kind: &str, ax: &str, p: &[i64; 6], r: i64, c: i64) -> Option<(i64, i64)> {
    match kind {
        "ins" | "del" | "mov" => {
            let (n, d) = if kind == "mov" { (p[1], p[2]) } else { (p[1], 0) };
            if kind == "mov" && (n <= 0 || d == 0) {
                return Some((r, c));
            }
            if ax == "r" {
                spec_sigma(kind, p[0], n, d, r).map(|x| (x, c))
            } else {
                spec_sigma(kind, p[0], n, d, c).map(|y| (r, y))
            }
        }
        _ => Some((r, c)),
    }
}

fn in_rect(r: i64, c: i64, r1: i64, c1: i64, r2: i64, c2: i64) -> bool {
    r >= r1 && r <= r2 && c >= c1 && c <= c2
}

/// what the property says an atom of a rule formula becomes (None = not determined by the property)
fn spec_atom(kind: &str, ax: &str, p: &[i64; 6], atom: &Atom) -> Option<String> {
    let on_sheet = |s: u32| s == 0;
    match kind {
        "ins" | "del" | "mov" => {
            let map_pt = |q: &Pt| -> Option<Option<Pt>> {
                match spec_cell(kind, ax, p, q.r, q.c) {
                    None => Some(None),
                    Some((r, c)) => {
                        if r > super::c12::LAST_ROW || c > super::c12::LAST_COLUMN {
                            Some(None)
                        } else if r < 1 || c < 1 {
                            None
                        } else {
                            Some(Some(Pt { ra: q.ra, r, ca: q.ca, c }))
                        }
                    }
                }
            };
            match atom {
                Atom::Ref { sheet, named, p: q } => {
                    if !on_sheet(*sheet) {
                        return Some(atom_text(atom));
                    }
                    match map_pt(q)? {
                        None => Some("#REF!".into()),
                        Some(q2) => Some(atom_text(&Atom::Ref { sheet: *sheet, named: *named, p: q2 })),
                    }
                }
                Atom::Rng { sheet, named, a, b } => {
                    if !on_sheet(*sheet) {
                        return Some(atom_text(atom));
                    }
                    let full = if ax == "r" { is_full_rows(a, b) } else { is_full_cols(a, b) };
                    if full {
                        return Some(atom_text(atom));
                    }
                    if kind == "mov" {
                        let (pos, n, d) = (p[0], p[1], p[2]);
                        let coord = |q: &Pt| if ax == "r" { q.r } else { q.c };
                        let (lo, hi) = (coord(a).min(coord(b)), coord(a).max(coord(b)));
                        let (blo, bhi) = if d > 0 { (pos + n, pos + n + d - 1) } else { (pos + d, pos - 1) };
                        let inside = |l: i64, h: i64| lo >= l && hi <= h;
                        let disjoint = |l: i64, h: i64| hi < l || lo > h;
                        if !(inside(pos, pos + n - 1) || inside(blo, bhi) || (disjoint(pos, pos + n - 1) && disjoint(blo, bhi))) {
                            return None;
                        }
                    }
                    match (map_pt(a)?, map_pt(b)?) {
                        (Some(qa), Some(qb)) => {
                            let fr = is_full_rows(a, b);
                            Some(atom_text_as(&Atom::Rng { sheet: *sheet, named: *named, a: qa, b: qb }, fr, is_full_cols(a, b) && !fr))
                        }
                        _ => None,
                    }
                }
            }
        }
        "cut" => {
            let (r1, c1, r2, c2, tr, tc) = (p[0], p[1], p[2], p[3], p[4], p[5]);
            let (dr, dc) = (tr - r1, tc - c1);
            let mv = |q: &Pt| Pt { ra: q.ra, r: q.r + dr, ca: q.ca, c: q.c + dc };
            match atom {
                Atom::Ref { sheet, named, p: q } => {
                    if on_sheet(*sheet) && in_rect(q.r, q.c, r1, c1, r2, c2) {
                        Some(atom_text(&Atom::Ref { sheet: *sheet, named: *named, p: mv(q) }))
                    } else {
                        Some(atom_text(atom))
                    }
                }
                Atom::Rng { sheet, named, a, b } => {
                    if on_sheet(*sheet) && in_rect(a.r, a.c, r1, c1, r2, c2) && in_rect(b.r, b.c, r1, c1, r2, c2) {
                        Some(atom_text(&Atom::Rng { sheet: *sheet, named: *named, a: mv(a), b: mv(b) }))
                    } else {
                        Some(atom_text(atom))
                    }
                }
            }
        }
        _ => Some(atom_text(atom)),
    }
}

/// a copied formula: relative coordinates are translated by the offset of the anchor, absolute ones stay
fn translate_atom(atom: &Atom, dr: i64, dc: i64) -> Option<String> {
    let mv = |q: &Pt| Pt { ra: q.ra, r: if q.ra { q.r } else { q.r + dr }, ca: q.ca, c: if q.ca { q.c } else { q.c + dc } };
    let ok = |q: &Pt| q.r >= 1 && q.c >= 1 && q.r <= super::c12::LAST_ROW && q.c <= super::c12::LAST_COLUMN;
    match atom {
        Atom::Ref { sheet, named, p } => {
            let q = mv(p);
            if !ok(&q) {
                return None;
            }
            Some(atom_text(&Atom::Ref { sheet: *sheet, named: *named, p: q }))
        }
        Atom::Rng { sheet, named, a, b } => {
            let (qa, qb) = (mv(a), mv(b));
            if !ok(&qa) || !ok(&qb) || qa.r > qb.r || qa.c > qb.c {
                return None;
            }
            Some(atom_text(&Atom::Rng { sheet: *sheet, named: *named, a: qa, b: qb }))
        }
    }
}

fn norm(p: &Part) -> (i64, i64, i64, i64) {
    (p.r1.min(p.r2), p.c1.min(p.c2), p.r1.max(p.r2), p.c1.max(p.c2))
}

fn parse_sqref_text(s: &str) -> Vec<Part> {
    s.split('+')
        .filter_map(|t| {
            let up = t.to_uppercase();
            let mut it = up.split(':');
            let a = ironcalc_base::expressions::utils::parse_reference_a1(it.next()?)?;
            match it.next() {
                None => Some(Part { single: true, r1: a.row as i64, c1: a.column as i64, r2: a.row as i64, c2: a.column as i64 }),
                Some(b) => {
                    let b = ironcalc_base::expressions::utils::parse_reference_a1(b)?;
                    Some(Part { single: false, r1: a.row as i64, c1: a.column as i64, r2: b.row as i64, c2: b.column as i64 })
                }
            }
        })
        .collect()
}

fn bbox_anchor(parts: &[Part]) -> Option<(i64, i64)> {
    let r = parts.iter().map(|p| p.r1.min(p.r2)).min()?;
    let c = parts.iter().map(|p| p.c1.min(p.c2)).min()?;
    Some((r, c))
}

// ---------------------------------------------------------------------------------------------- eval

fn eval(req: &str) -> ImplOut {
    let f: Vec<&str> = req.split(' ').collect();
    if f.len() < 11 || f[0] != "c33" || f[1] != "run" {
        return ImplOut::new("bad-request".into());
    }
    match std::panic::catch_unwind(|| eval_run(&f)) {
        Ok(o) => o,
        Err(_) => ImplOut::new("panic".into()).fail("c33:panic", req),
    }
}

fn eval_run(f: &[&str]) -> ImplOut {
    let (api, kind, ax) = (f[2], f[3], f[4]);
    let mut p = [0i64; 6];
    for i in 0..6 {
        p[i] = f[5 + i].parse().unwrap_or(0);
    }
    let mut links: Vec<(i32, i32, String)> = vec![];
    let mut cfs: Vec<Cf> = vec![];
    for it in &f[11..] {
        let Some((k, body)) = it.split_once(':') else { return ImplOut::new("bad-request".into()) };
        match k {
            "L" => {
                let x: Vec<&str> = body.split(',').collect();
                if x.len() != 3 {
                    return ImplOut::new("bad-request".into());
                }
                links.push((x[0].parse().unwrap_or(0), x[1].parse().unwrap_or(0), x[2].into()));
            }
            "F" => match parse_cf(body) {
                Some(c) => cfs.push(c),
                None => return ImplOut::new("bad-request".into()),
            },
            _ => return ImplOut::new("bad-request".into()),
        }
    }
    let model = match build(&links, &cfs) {
        Ok(m) => m,
        Err(e) => return ImplOut::new(format!("setup-error {e}")).tag("setup-error"),
    };
    let before = read_state(&model);
    // the workbook is what the request says
    for (i, cf) in cfs.iter().enumerate() {
        let want_range = sqref_text(&cf.parts, "+");
        let want_f: Vec<String> = cf.formulas.iter().map(|(t, a)| formula_text(t, a)).collect();
        match before.cfs.get(i) {
            Some((r, fs)) if *r == want_range && *fs == want_f => {}
            other => return ImplOut::new(format!("setup-mismatch cf {i}: want {want_range} {want_f:?} got {other:?}")).tag("setup-mismatch"),
        }
    }
    let (pi, ni, di) = (p[0] as i32, p[1] as i32, p[2] as i32);
    let after: Result<State, String> = if api == "m" {
        let mut m = model;
        let r = match (kind, ax) {
            ("ins", "r") => m.insert_rows(0, pi, ni),
            ("ins", _) => m.insert_columns(0, pi, ni),
            ("del", "r") => m.delete_rows(0, pi, ni),
            ("del", _) => m.delete_columns(0, pi, ni),
            ("mov", "r") => m.move_rows_action(0, pi, ni, di),
            ("mov", _) => m.move_columns_action(0, pi, ni, di),
            ("clear", _) => {
                if p[0] == p[2] && p[1] == p[3] {
                    m.set_user_input(0, p[0] as i32, p[1] as i32, String::new())
                } else {
                    m.range_clear_contents(&Area { sheet: 0, row: p[0] as i32, column: p[1] as i32, height: (p[2] - p[0] + 1) as i32, width: (p[3] - p[1] + 1) as i32 })
                }
            }
            _ => Err("unsupported".into()),
        };
        r.map(|_| read_state(&m))
    } else {
        let mut um = UserModel::from_model(model);
        let area = Area { sheet: 0, row: p[0] as i32, column: p[1] as i32, height: (p[2] - p[0] + 1) as i32, width: (p[3] - p[1] + 1) as i32 };
        let r: Result<(), String> = match (kind, ax) {
            ("ins", "r") => um.insert_rows(0, pi, ni),
            ("ins", _) => um.insert_columns(0, pi, ni),
            ("del", "r") => um.delete_rows(0, pi, ni),
            ("del", _) => um.delete_columns(0, pi, ni),
            ("mov", "r") => um.move_rows_action(0, pi, ni, di),
            ("mov", _) => um.move_columns_action(0, pi, ni, di),
            ("clear", _) => um.range_clear_contents(&area),
            ("clearundo", _) => um.range_clear_contents(&area).and_then(|_| um.undo()),
            ("delundo", "r") => um.delete_rows(0, pi, ni).and_then(|_| um.undo()),
            ("delundo", _) => um.delete_columns(0, pi, ni).and_then(|_| um.undo()),
            ("cut", _) | ("copy", _) => (|| {
                um.set_selected_sheet(0)?;
                um.set_selected_cell(p[0] as i32, p[1] as i32)?;
                um.set_selected_range(p[0] as i32, p[1] as i32, p[2] as i32, p[3] as i32)?;
                let (data, sheet, range) = clipboard_of(&um)?;
                if range != (p[0] as i32, p[1] as i32, p[2] as i32, p[3] as i32) {
                    return Err(format!("clipboard range {range:?}"));
                }
                um.set_selected_cell(p[4] as i32, p[5] as i32)?;
                um.paste_from_clipboard(sheet, range, &data, kind == "cut")
            })(),
            _ => Err("unsupported".into()),
        };
        r.map(|_| read_state(um.get_model()))
    };
    let after = match after {
        Ok(a) => a,
        Err(e) => return ImplOut::new("err".into()).tag(&format!("{kind}:err:{}", e.split(' ').next().unwrap_or(""))).trivial(),
    };
    let mut out = ImplOut::new(format!("ok {}", state_text(&after))).tag(&format!("{kind}:{ax}:{api}"));

    // ------------------------------------------------------------------ oracle: links
    let mut want_links: BTreeMap<(i32, i32), String> = BTreeMap::new();
    match kind {
        "ins" | "del" | "mov" => {
            for ((r, c), id) in &before.links {
                if let Some((r2, c2)) = spec_cell(kind, ax, &p, *r as i64, *c as i64) {
                    want_links.insert((r2 as i32, c2 as i32), id.clone());
                }
            }
        }
        "cut" | "copy" => {
            let (r1, c1, r2, c2, tr, tc) = (p[0], p[1], p[2], p[3], p[4], p[5]);
            let (dr, dc) = (tr - r1, tc - c1);
            let in_tgt = |r: i64, c: i64| in_rect(r, c, tr, tc, tr + (r2 - r1), tc + (c2 - c1));
            for ((r, c), id) in &before.links {
                let (r, c) = (*r as i64, *c as i64);
                let in_src = in_rect(r, c, r1, c1, r2, c2);
                if in_src {
                    want_links.insert(((r + dr) as i32, (c + dc) as i32), id.clone());
                }
                if !in_tgt(r, c) && !(kind == "cut" && in_src) {
                    want_links.insert((r as i32, c as i32), id.clone());
                }
            }
        }
        "clear" => {
            for ((r, c), id) in &before.links {
                if !in_rect(*r as i64, *c as i64, p[0], p[1], p[2], p[3]) {
                    want_links.insert((*r, *c), id.clone());
                }
            }
        }
        _ => want_links = before.links.clone(),
    }
    if want_links != after.links {
        let what = match kind {
            "clear" => "clear-removes-link",
            "clearundo" | "delundo" => "undo-restores-link",
            "cut" | "copy" => "links-follow:paste",
            _ => "links-follow",
        };
        out = out.fail(&format!("c33:{what}:{kind}"), &format!("links before {:?}; expected {:?}; found {:?}", before.links, want_links, after.links));
    }

    // ------------------------------------------------------------------ oracle: conditional formats
    let n_before = cfs.len();
    if kind == "delundo" {
        // the undo of a deletion brings every conditional format back (ranges, rules, order)
        if before.cfs != after.cfs {
            out = out.fail("c33:undo-restores-cf:delundo", &format!("{:?} -> {:?}", before.cfs, after.cfs));
        }
        return out;
    }
    if matches!(kind, "clear" | "clearundo") {
        if before.cfs != after.cfs {
            out = out.fail("c33:cf-changed-by-clear", &format!("{:?} -> {:?}", before.cfs, after.cfs));
        }
        return out;
    }
    // what the property says about each conditional format: `None` = all its cells are deleted (it goes away),
    // otherwise the rectangles of its parts (`None` = not determined) and the cell (before the edit) that becomes
    // the first corner of the range
    type Rect4 = (i64, i64, i64, i64);
    let survive = |x: i64, on_axis: bool| -> bool {
        if kind != "del" || !on_axis {
            return true;
        }
        !(x >= p[0] && x < p[0] + p[1])
    };
    let mut expected: Vec<(usize, Vec<Option<Rect4>>, (i64, i64))> = vec![];
    for (i, cf) in cfs.iter().enumerate() {
        let mut parts: Vec<Option<Rect4>> = vec![];
        let mut source: Option<(i64, i64)> = None;
        for pp in &cf.parts {
            match kind {
                "del" => {
                    // the image of the surviving cells (a rectangle again); nothing if none survives
                    let (r1, c1, r2, c2) = norm(pp);
                    let rows: Vec<i64> = (r1..=r2).filter(|x| survive(*x, ax == "r")).collect();
                    let cols: Vec<i64> = (c1..=c2).filter(|x| survive(*x, ax == "c")).collect();
                    if rows.is_empty() || cols.is_empty() {
                        continue;
                    }
                    let a = spec_cell(kind, ax, &p, rows[0], cols[0]);
                    let b = spec_cell(kind, ax, &p, *rows.last().unwrap(), *cols.last().unwrap());
                    if let (Some((a1, a2)), Some((b1, b2))) = (a, b) {
                        parts.push(Some((a1, a2, b1, b2)));
                    } else {
                        parts.push(None);
                    }
                    if source.is_none() {
                        // the first written corner if it survives, else the first surviving cell
                        let sr = if survive(pp.r1, ax == "r") { pp.r1 } else { rows[0] };
                        let sc = if survive(pp.c1, ax == "c") { pp.c1 } else { cols[0] };
                        source = Some((sr, sc));
                    }
                }
                "ins" | "mov" => {
                    let a = spec_cell(kind, ax, &p, pp.r1, pp.c1);
                    let b = spec_cell(kind, ax, &p, pp.r2, pp.c2);
                    match (a, b) {
                        (Some((r1, c1)), Some((r2, c2))) if c1 <= last("c") && c2 <= last("c") && r1 <= last("r") && r2 <= last("r") => {
                            parts.push(Some((r1.min(r2), c1.min(c2), r1.max(r2), c1.max(c2))))
                        }
                        _ => parts.push(None),
                    }
                    source.get_or_insert((pp.r1, pp.c1));
                }
                "cut" => {
                    let (r1, c1, r2, c2, tr, tc) = (p[0], p[1], p[2], p[3], p[4], p[5]);
                    if in_rect(pp.r1, pp.c1, r1, c1, r2, c2) && in_rect(pp.r2, pp.c2, r1, c1, r2, c2) {
                        parts.push(Some((pp.r1 + tr - r1, pp.c1 + tc - c1, pp.r2 + tr - r1, pp.c2 + tc - c1)));
                    } else {
                        parts.push(Some(norm(pp)));
                    }
                    source.get_or_insert((pp.r1, pp.c1));
                }
                _ => {
                    parts.push(Some(norm(pp)));
                    source.get_or_insert((pp.r1, pp.c1));
                }
            }
        }
        if let Some(src) = source {
            expected.push((i, parts, src));
        }
    }
    if after.cfs.len() < expected.len() {
        return out.fail("c33:cf-lost", &format!("{} conditional formats should remain, {} present: {:?}", expected.len(), after.cfs.len(), after.cfs));
    }
    if kind != "copy" && after.cfs.len() > expected.len() {
        out = out.fail(
            if kind == "del" { "c33:cf-range:deleted-range-still-there" } else { "c33:cf-extra" },
            &format!("{} conditional formats should remain, {} present: {:?}", expected.len(), after.cfs.len(), after.cfs),
        );
        return out;
    }
    for (k, (i, want_parts, src)) in expected.iter().enumerate() {
        let cf = &cfs[*i];
        let (range_after, forms_after) = &after.cfs[k];
        let parts_after = parse_sqref_text(range_after);
        if parts_after.len() != want_parts.len() {
            out = out.fail(&format!("c33:cf-range:{kind}"), &format!("cf {i}: {} -> {range_after}, {} parts expected", sqref_text(&cf.parts, "+"), want_parts.len()));
        } else {
            for (w, qa) in want_parts.iter().zip(parts_after.iter()) {
                if let Some(w) = w {
                    if norm(qa) != *w {
                        out = out.fail(&format!("c33:cf-range:{kind}"), &format!("cf {i} ({}) part should cover {:?}, is {}", sqref_text(&cf.parts, "+"), w, part_text(qa)));
                    }
                }
            }
        }
        // rule formulas: as the cell that becomes the first corner sees them (relative coordinates move with it),
        // then rewritten like a cell formula
        let anchor = (cf.parts[0].r1, cf.parts[0].c1);
        let (dr, dc) = (src.0 - anchor.0, src.1 - anchor.1);
        let reanchor = |a: &Atom| -> Atom {
            let mv = |q: &Pt| Pt { ra: q.ra, r: if q.ra { q.r } else { q.r + dr }, ca: q.ca, c: if q.ca { q.c } else { q.c + dc } };
            match a {
                Atom::Ref { sheet, named, p } => Atom::Ref { sheet: *sheet, named: *named, p: mv(p) },
                Atom::Rng { sheet, named, a, b } => Atom::Rng { sheet: *sheet, named: *named, a: mv(a), b: mv(b) },
            }
        };
        for (j, (tpl, atoms)) in cf.formulas.iter().enumerate() {
            let want: Option<Vec<String>> = atoms
                .iter()
                .map(|a| {
                    let a2 = reanchor(a);
                    let ok = |q: &Pt| q.r >= 1 && q.c >= 1 && q.r <= super::c12::LAST_ROW && q.c <= super::c12::LAST_COLUMN;
                    let inside = match &a2 {
                        Atom::Ref { p, .. } => ok(p),
                        Atom::Rng { a, b, .. } => ok(a) && ok(b) && a.r <= b.r && a.c <= b.c,
                    };
                    if inside {
                        spec_atom(kind, ax, &p, &a2)
                    } else {
                        None
                    }
                })
                .collect();
            if let (Some(w), Some(got)) = (want, forms_after.get(j)) {
                let w = format!("={}", fill(tpl, &w));
                if *got != w {
                    out = out.fail(&format!("c33:cf-formula:{kind}"), &format!("cf {i} on {} formula {} should be {w}, is {got}", sqref_text(&cf.parts, "+"), formula_text(tpl, atoms)));
                }
            }
        }
    }
    let n_before = expected.len();
    // copy: the new entries
    if kind == "copy" {
        let (r1, c1, r2, c2, tr, tc) = (p[0], p[1], p[2], p[3], p[4], p[5]);
        let mut k = n_before;
        for (i, cf) in cfs.iter().enumerate() {
            let mut want_parts: Vec<(i64, i64, i64, i64)> = vec![];
            for pp in &cf.parts {
                let (a, b, c, d) = norm(pp);
                let (ir1, ic1, ir2, ic2) = (a.max(r1), b.max(c1), c.min(r2), d.min(c2));
                if ir1 <= ir2 && ic1 <= ic2 {
                    want_parts.push((tr + ir1 - r1, tc + ic1 - c1, tr + ir2 - r1, tc + ic2 - c1));
                }
            }
            if want_parts.is_empty() {
                continue;
            }
            let Some((range_after, forms_after)) = after.cfs.get(k) else {
                out = out.fail("c33:cf-copy:missing", &format!("cf {i} overlaps the copied area but was not copied"));
                break;
            };
            k += 1;
            let got_parts: Vec<(i64, i64, i64, i64)> = parse_sqref_text(range_after).iter().map(norm).collect();
            if got_parts != want_parts {
                out = out.fail("c33:cf-copy:range", &format!("cf {i}: copied range should be {want_parts:?}, is {range_after}"));
                continue;
            }
            // the rule as the copied cells see it: relative references translated by the offset between the anchors
            let old_anchor = bbox_anchor(&cf.parts);
            let new_anchor = bbox_anchor(&parse_sqref_text(range_after));
            if let (Some((ar, ac)), Some((nr, nc))) = (old_anchor, new_anchor) {
                // the new anchor is the image of the cell (nr - dr, nc - dc) of the old range, which saw the rule
                // from the old anchor shifted by its own offset
                let (dr, dc) = (nr - ar, nc - ac);
                for (j, (tpl, atoms)) in cf.formulas.iter().enumerate() {
                    let want: Option<Vec<String>> = atoms.iter().map(|a| translate_atom(a, dr, dc)).collect();
                    if let (Some(w), Some(got)) = (want, forms_after.get(j)) {
                        let w = format!("={}", fill(tpl, &w));
                        if *got != w {
                            let verbatim = *got == formula_text(tpl, atoms);
                            let sig = if verbatim { "c33:cf-copy:rule-formula-not-translated" } else { "c33:cf-copy:rule-formula" };
                            out = out.fail(sig, &format!("cf {i} {} copied to {range_after}: formula {} should become {w}, is {got}", sqref_text(&cf.parts, "+"), formula_text(tpl, atoms)));
                        }
                    }
                }
            }
        }
        if after.cfs.len() != k {
            out = out.fail("c33:cf-copy:extra", &format!("{} conditional formats expected, {} present", k, after.cfs.len()));
        }
    }
    out
}

// ---------------------------------------------------------------------------------------------- generators

const TEMPLATES: &[(&str, &str)] = &[("{}>3", "r"), ("SUM({})>{}", "gr"), ("AND({}>0,{}<90)", "rr"), ("{}+{}>10", "rr"), ("COUNT({})>1", "g")];

fn gen_sheet(rng: &mut Rng) -> (Vec<(i32, i32, String)>, Vec<Cf>) {
    let mut links = vec![];
    let mut used = std::collections::BTreeSet::new();
    for i in 0..rng.range(4, 10) {
        let (r, c) = (rng.range(1, 14) as i32, rng.range(1, 8) as i32);
        if used.insert((r, c)) {
            links.push((r, c, format!("{}", i + 1)));
        }
    }
    let pt = |rng: &mut Rng| Pt { ra: rng.chance(1, 3), r: rng.range(1, 14), ca: rng.chance(1, 3), c: rng.range(1, 8) };
    let mut cfs = vec![];
    for _ in 0..rng.range(2, 4) {
        let mut parts = vec![];
        for _ in 0..rng.range(1, 3) {
            if rng.chance(1, 4) {
                let (r, c) = (rng.range(1, 14), rng.range(1, 8));
                parts.push(Part { single: true, r1: r, c1: c, r2: r, c2: c });
            } else {
                let (ra, rb, ca, cb) = (rng.range(1, 14), rng.range(1, 14), rng.range(1, 8), rng.range(1, 8));
                let p = Part { single: false, r1: ra.min(rb), c1: ca.min(cb), r2: ra.max(rb), c2: ca.max(cb) };
                if p.r1 == p.r2 && p.c1 == p.c2 {
                    parts.push(Part { single: true, ..p });
                } else {
                    parts.push(p);
                }
            }
        }
        let nform = if rng.chance(1, 4) { 2 } else { 1 };
        let mut formulas = vec![];
        for _ in 0..nform {
            let (tpl, shape) = *rng.pick(TEMPLATES);
            let mut atoms = vec![];
            for ch in shape.chars() {
                let other = rng.chance(1, 8);
                let (sheet, named) = if other { (1u32, true) } else { (0u32, rng.chance(1, 8)) };
                if ch == 'r' {
                    atoms.push(Atom::Ref { sheet, named, p: pt(rng) });
                } else {
                    let (a, b) = (pt(rng), pt(rng));
                    atoms.push(Atom::Rng {
                        sheet,
                        named,
                        a: Pt { ra: a.ra, r: a.r.min(b.r), ca: a.ca, c: a.c.min(b.c) },
                        b: Pt { ra: b.ra, r: a.r.max(b.r), ca: b.ca, c: a.c.max(b.c) },
                    });
                }
            }
            formulas.push((tpl.to_string(), atoms));
        }
        cfs.push(Cf { parts, formulas });
    }
    (links, cfs)
}

fn emit(sink: &mut dyn FnMut(String), api: &str, kind: &str, ax: &str, p: [i64; 6], links: &[(i32, i32, String)], cfs: &[Cf]) {
    let mut items: Vec<String> = links.iter().map(|(r, c, id)| format!("L:{r},{c},{id}")).collect();
    items.extend(cfs.iter().map(cf_item));
    sink(format!("c33 run {api} {kind} {ax} {} {} {} {} {} {} {}", p[0], p[1], p[2], p[3], p[4], p[5], items.join(" ")));
}

fn count(ctx: &Ctx, quick: usize, thorough: usize) -> usize {
    if ctx.tier == Tier::Quick {
        quick
    } else {
        thorough
    }
}

fn gen_structure(ctx: &Ctx, sink: &mut dyn FnMut(String)) {
    let mut top = Rng::new(ctx.seed ^ 0x33_7374);
    for case in 0..count(ctx, 400, 8000) {
        let mut rng = top.fork();
        let (links, cfs) = gen_sheet(&mut rng);
        let kind = ["ins", "del", "mov", "del", "delundo"][case % 5];
        let ax = if rng.chance(1, 2) { "r" } else { "c" };
        let api = if kind == "delundo" || rng.chance(1, 2) { "u" } else { "m" };
        let hi = if ax == "r" { 12 } else { 7 };
        let pos = rng.range(1, hi);
        let n = rng.range(1, 3);
        let mut d = 0;
        if kind == "mov" {
            d = if rng.chance(1, 2) { rng.range(1, 4) } else { -rng.range(1, 4) };
            if pos + d < 1 {
                d = rng.range(1, 4);
            }
        }
        emit(sink, api, kind, ax, [pos, n, d, 0, 0, 0], &links, &cfs);
    }
}

fn gen_paste(ctx: &Ctx, sink: &mut dyn FnMut(String)) {
    let mut top = Rng::new(ctx.seed ^ 0x33_7061);
    for case in 0..count(ctx, 300, 6000) {
        let mut rng = top.fork();
        let (links, cfs) = gen_sheet(&mut rng);
        let kind = if case % 2 == 0 { "cut" } else { "copy" };
        let (r1, c1) = (rng.range(1, 10), rng.range(1, 6));
        let (h, w) = (rng.range(1, 5), rng.range(1, 3));
        let (tr, tc) = (rng.range(1, 12), rng.range(1, 7));
        emit(sink, "u", kind, "r", [r1, c1, r1 + h - 1, c1 + w - 1, tr, tc], &links, &cfs);
    }
}

fn gen_clear(ctx: &Ctx, sink: &mut dyn FnMut(String)) {
    let mut top = Rng::new(ctx.seed ^ 0x33_636c);
    for case in 0..count(ctx, 200, 3000) {
        let mut rng = top.fork();
        let (links, cfs) = gen_sheet(&mut rng);
        let (kind, api) = match case % 4 {
            0 => ("clear", "m"),
            1 => ("clear", "u"),
            _ => ("clearundo", "u"),
        };
        // aim at a linked cell half of the time
        let (r1, c1) = if rng.chance(1, 2) && !links.is_empty() {
            let l = rng.pick(&links);
            (l.0 as i64, l.1 as i64)
        } else {
            (rng.range(1, 12), rng.range(1, 7))
        };
        let (h, w) = if rng.chance(1, 3) { (1, 1) } else { (rng.range(1, 5), rng.range(1, 4)) };
        emit(sink, api, kind, "r", [r1, c1, r1 + h - 1, c1 + w - 1, 0, 0], &links, &cfs);
    }
}

pub fn suites() -> Vec<Suite> {
    vec![
        Suite {
            name: "c33-structure",
            rule: "sheets with 4-9 links and 2-3 conditional formats (1-2 areas each: single cells and ranges; Formula and CellIs-between rules over 5 templates with relative/absolute/Sheet2 references and ranges), one insert / delete / block move of rows or columns through Model or UserModel; links and every CF range and rule formula vs the model and vs the sigma-image / formula-rewrite oracle; non-trivial = the action succeeded",
            modelled: true,
            gen: gen_structure,
            eval,
            exhaustive: never,
        },
        Suite {
            name: "c33-paste",
            rule: "the same sheets, cut or copy of a 1-5 x 1-3 rectangle to a random target through UserModel::copy_to_clipboard / paste_from_clipboard; links (moved / duplicated, target replaced), CF ranges (moved when inside the cut area; intersections duplicated on copy) and rule formulas vs the model and the oracle; non-trivial = the paste was applied",
            modelled: true,
            gen: gen_paste,
            eval,
            exhaustive: never,
        },
        Suite {
            name: "c33-clear",
            rule: "the same sheets, range_clear_contents / set_user_input(\"\") on an area (aimed at a linked cell half of the time) through Model and UserModel, and range_clear_contents + undo; links vs the model and the oracle (no link left in the area; undo restores all links); conditional formats untouched; non-trivial = every case",
            modelled: true,
            gen: gen_clear,
            eval,
            exhaustive: never,
        },
    ]
}
