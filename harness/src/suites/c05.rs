//! C05 — every formula value is consistent with its inputs; #CIRC! exactly on cycles.
//!  * `c05-wb`   : random workbooks over the modelled fragment (refs incl. cross-sheet, + - * /,
//!                 IF, IFERROR, ISERROR, SUM over a range), 1–3 sheets, chains up to 200, cycles of
//!                 every length ≤ 6 (plain, through IF, through IFERROR): the real `Model::evaluate`
//!                 values are compared with the Lean driver's; the consistency oracle and the
//!                 #CIRC! oracles run on the implementation.
//!  * `c05-rich` : the same shapes with functions outside the model (comparisons, &, MAX, MIN, AND,
//!                 OR, NOT, ABS, IFNA, COUNT, ISNUMBER, ISTEXT, defined names): oracle only.
//!
//! Request: `c05 wb <cells>` — see lean/Driver/C05.lean for the encoding. `c05 rich <cells>` uses the
//! same encoding plus `C<op><e><e>` (comparison, op in = < >), `A<e><e>` (&), `N<fn>.<e>…;` style
//! function calls `G<name>(<e>…)` and `M<idx>,` (defined name of cell idx).
use crate::prng::Rng;
use crate::proto::{hex, unhex};
use crate::run::{never, Ctx, ImplOut, Suite, Tier};
use ironcalc_base::expressions::token::Error;
use ironcalc_base::types::{Cell, FormulaValue};
use ironcalc_base::Model;
use std::collections::BTreeSet;

#[derive(Clone, Debug, PartialEq)]
pub enum V {
    Num(f64),
    Str(String),
    Bool(bool),
    Err(&'static str),
    Empty,
}

#[derive(Clone, Debug)]
pub enum E {
    Lit(V),
    Ref(usize),
    Bin(char, Box<E>, Box<E>),
    If(Box<E>, Box<E>, Box<E>),
    IfErr(Box<E>, Box<E>),
    IsErr(Box<E>),
    Sum(Vec<usize>),
    // outside the model (suite c05-rich)
    Cmp(char, Box<E>, Box<E>),
    Cat(Box<E>, Box<E>),
    Fun(String, Vec<E>),
    Rng(Vec<usize>),
    // the same with `$` markers: bit 0 = absolute column, bit 1 = absolute row (first corner),
    // bits 2, 3 = the same for the second corner of a range; a one-cell `SumF` is printed as a
    // bare reference argument (`SUM($B2)`), not as a range
    RefF(usize, u8),
    SumF(Vec<usize>, u8),
    RngF(Vec<usize>, u8),
    Name(usize),
}

#[derive(Clone, Debug)]
pub enum C {
    None,
    Plain(V),
    Formula(E),
}

#[derive(Clone, Debug)]
pub struct Wb {
    pub cells: Vec<((u32, i32, i32), C)>,
}

const ERRS: [&str; 12] = [
    "circ", "div", "value", "num", "na", "ref", "name", "error", "nimpl", "spill", "calc", "null",
];

pub fn err_name(e: &Error) -> &'static str {
    match e {
        Error::CIRC => "circ",
        Error::DIV => "div",
        Error::VALUE => "value",
        Error::NUM => "num",
        Error::NA => "na",
        Error::REF => "ref",
        Error::NAME => "name",
        Error::ERROR => "error",
        Error::NIMPL => "nimpl",
        Error::SPILL => "spill",
        Error::CALC => "calc",
        Error::NULL => "null",
    }
}

fn err_of_name(n: &str) -> Option<Error> {
    Some(match n {
        "circ" => Error::CIRC,
        "div" => Error::DIV,
        "value" => Error::VALUE,
        "num" => Error::NUM,
        "na" => Error::NA,
        "ref" => Error::REF,
        "name" => Error::NAME,
        "error" => Error::ERROR,
        "nimpl" => Error::NIMPL,
        "spill" => Error::SPILL,
        "calc" => Error::CALC,
        "null" => Error::NULL,
        _ => return None,
    })
}

pub fn err_text_pub(n: &str) -> &'static str {
    err_text(n)
}

fn err_text(n: &str) -> &'static str {
    match n {
        "circ" => "#CIRC!",
        "div" => "#DIV/0!",
        "value" => "#VALUE!",
        "num" => "#NUM!",
        "na" => "#N/A",
        "ref" => "#REF!",
        "name" => "#NAME?",
        "error" => "#ERROR!",
        "nimpl" => "#N/IMPL!",
        "spill" => "#SPILL!",
        "calc" => "#CALC!",
        _ => "#NULL!",
    }
}

// ---------- encoding ----------

pub fn enc_v(v: &V) -> String {
    match v {
        V::Num(f) => format!("n{:016x}", f.to_bits()),
        V::Str(s) => format!("s{}", hex(s)),
        V::Bool(true) => "bT".into(),
        V::Bool(false) => "bF".into(),
        V::Err(e) => format!("e{e}"),
        V::Empty => "z".into(),
    }
}

fn dec_v(s: &str) -> Option<V> {
    let (k, rest) = s.split_at(1);
    Some(match k {
        "n" => V::Num(f64::from_bits(u64::from_str_radix(rest, 16).ok()?)),
        "s" => V::Str(unhex(rest)?),
        "b" => V::Bool(rest == "T"),
        "e" => V::Err(ERRS.iter().find(|x| **x == rest)?),
        "z" => V::Empty,
        _ => return None,
    })
}

fn enc_e(e: &E, out: &mut String) {
    match e {
        E::Lit(v) => {
            out.push('L');
            out.push_str(&enc_v(v));
            out.push(',');
        }
        E::Ref(i) => out.push_str(&format!("R{i},")),
        E::RefF(i, f) => out.push_str(&format!("R{i}~{f},")),
        E::SumF(cs, f) => {
            out.push('S');
            out.push_str(&cs.iter().map(|c| c.to_string()).collect::<Vec<_>>().join("."));
            out.push_str(&format!("~{f},"));
        }
        E::RngF(cs, f) => {
            out.push('X');
            out.push_str(&cs.iter().map(|c| c.to_string()).collect::<Vec<_>>().join("."));
            out.push_str(&format!("~{f},"));
        }
        E::Bin(op, l, r) => {
            out.push('B');
            out.push(*op);
            enc_e(l, out);
            enc_e(r, out);
        }
        E::If(c, t, e) => {
            out.push('I');
            enc_e(c, out);
            enc_e(t, out);
            enc_e(e, out);
        }
        E::IfErr(a, b) => {
            out.push('E');
            enc_e(a, out);
            enc_e(b, out);
        }
        E::IsErr(a) => {
            out.push('Q');
            enc_e(a, out);
        }
        E::Sum(cs) => {
            out.push('S');
            out.push_str(&cs.iter().map(|c| c.to_string()).collect::<Vec<_>>().join("."));
            out.push(',');
        }
        E::Cmp(op, l, r) => {
            out.push('C');
            out.push(*op);
            enc_e(l, out);
            enc_e(r, out);
        }
        E::Cat(l, r) => {
            out.push('A');
            enc_e(l, out);
            enc_e(r, out);
        }
        E::Fun(name, args) => {
            out.push('G');
            out.push_str(name);
            out.push('(');
            for a in args {
                enc_e(a, out);
            }
            out.push(')');
        }
        E::Rng(cs) => {
            out.push('X');
            out.push_str(&cs.iter().map(|c| c.to_string()).collect::<Vec<_>>().join("."));
            out.push(',');
        }
        E::Name(i) => out.push_str(&format!("M{i},")),
    }
}

fn take_until<'a>(s: &'a [u8], pos: &mut usize, stop: u8) -> &'a str {
    let start = *pos;
    while *pos < s.len() && s[*pos] != stop {
        *pos += 1;
    }
    let r = std::str::from_utf8(&s[start..*pos]).unwrap_or("");
    *pos += 1;
    r
}

fn dec_e(s: &[u8], pos: &mut usize) -> Option<E> {
    let k = *s.get(*pos)?;
    *pos += 1;
    Some(match k {
        b'L' => E::Lit(dec_v(take_until(s, pos, b','))?),
        b'R' => {
            let t = take_until(s, pos, b',');
            match t.split_once('~') {
                Some((i, f)) => E::RefF(i.parse().ok()?, f.parse().ok()?),
                None => E::Ref(t.parse().ok()?),
            }
        }
        b'M' => E::Name(take_until(s, pos, b',').parse().ok()?),
        b'B' | b'C' => {
            let op = *s.get(*pos)? as char;
            *pos += 1;
            let l = dec_e(s, pos)?;
            let r = dec_e(s, pos)?;
            if k == b'B' {
                E::Bin(op, Box::new(l), Box::new(r))
            } else {
                E::Cmp(op, Box::new(l), Box::new(r))
            }
        }
        b'A' => {
            let l = dec_e(s, pos)?;
            let r = dec_e(s, pos)?;
            E::Cat(Box::new(l), Box::new(r))
        }
        b'I' => {
            let c = dec_e(s, pos)?;
            let t = dec_e(s, pos)?;
            let e = dec_e(s, pos)?;
            E::If(Box::new(c), Box::new(t), Box::new(e))
        }
        b'E' => {
            let a = dec_e(s, pos)?;
            let b = dec_e(s, pos)?;
            E::IfErr(Box::new(a), Box::new(b))
        }
        b'Q' => E::IsErr(Box::new(dec_e(s, pos)?)),
        b'S' | b'X' => {
            let t = take_until(s, pos, b',');
            let (body, flags) = match t.split_once('~') {
                Some((b, f)) => (b, Some(f.parse::<u8>().ok()?)),
                None => (t, None),
            };
            let cs: Option<Vec<usize>> = body.split('.').map(|x| x.parse().ok()).collect();
            match (k == b'S', flags) {
                (true, None) => E::Sum(cs?),
                (true, Some(f)) => E::SumF(cs?, f),
                (false, None) => E::Rng(cs?),
                (false, Some(f)) => E::RngF(cs?, f),
            }
        }
        b'G' => {
            let name = take_until(s, pos, b'(').to_string();
            let mut args = vec![];
            while *s.get(*pos)? != b')' {
                args.push(dec_e(s, pos)?);
            }
            *pos += 1;
            E::Fun(name, args)
        }
        _ => return None,
    })
}

pub fn enc_wb(wb: &Wb) -> String {
    let mut parts = vec![];
    for ((s, r, c), cell) in &wb.cells {
        let spec = match cell {
            C::None => "Z".to_string(),
            C::Plain(v) => format!("P{}", enc_v(v)),
            C::Formula(e) => {
                let mut o = String::from("F");
                enc_e(e, &mut o);
                o
            }
        };
        parts.push(format!("{s}.{r}.{c}:{spec}"));
    }
    parts.join("|")
}

pub fn dec_wb(field: &str) -> Option<Wb> {
    let mut cells = vec![];
    for ent in field.split('|') {
        let (pos, spec) = ent.split_once(':')?;
        let p: Vec<&str> = pos.split('.').collect();
        let key = (p.first()?.parse().ok()?, p.get(1)?.parse().ok()?, p.get(2)?.parse().ok()?);
        let cell = match spec.as_bytes().first()? {
            b'Z' => C::None,
            b'P' => C::Plain(dec_v(&spec[1..])?),
            b'F' => {
                let b = spec.as_bytes();
                let mut pos = 1;
                let e = dec_e(b, &mut pos)?;
                if pos != b.len() {
                    return None;
                }
                C::Formula(e)
            }
            _ => return None,
        };
        cells.push((key, cell));
    }
    Some(Wb { cells })
}

// ---------- rendering as formula text ----------

pub fn col_name(mut c: i32) -> String {
    let mut s = String::new();
    while c > 0 {
        let r = ((c - 1) % 26) as u8;
        s.insert(0, (b'A' + r) as char);
        c = (c - 1) / 26;
    }
    s
}

fn a1(wb: &Wb, from_sheet: u32, i: usize) -> String {
    let (s, r, c) = wb.cells[i].0;
    if s == from_sheet {
        format!("{}{}", col_name(c), r)
    } else {
        format!("Sheet{}!{}{}", s + 1, col_name(c), r)
    }
}

fn cell_text(c: i32, r: i32, f: u8) -> String {
    format!("{}{}{}{}", if f & 1 != 0 { "$" } else { "" }, col_name(c), if f & 2 != 0 { "$" } else { "" }, r)
}

fn a1f(wb: &Wb, from_sheet: u32, i: usize, f: u8) -> String {
    let (s, r, c) = wb.cells[i].0;
    if s == from_sheet {
        cell_text(c, r, f)
    } else {
        format!("Sheet{}!{}", s + 1, cell_text(c, r, f))
    }
}

fn range_text_f(wb: &Wb, from_sheet: u32, cs: &[usize], f: u8) -> String {
    if cs.len() == 1 {
        return a1f(wb, from_sheet, cs[0], f);
    }
    let first = wb.cells[cs[0]].0;
    let last = wb.cells[*cs.last().unwrap()].0;
    let body = format!("{}:{}", cell_text(first.2, first.1, f), cell_text(last.2, last.1, f >> 2));
    if first.0 == from_sheet {
        body
    } else {
        format!("Sheet{}!{}", first.0 + 1, body)
    }
}

fn range_text(wb: &Wb, from_sheet: u32, cs: &[usize]) -> String {
    let first = wb.cells[cs[0]].0;
    let last = wb.cells[*cs.last().unwrap()].0;
    let body = format!("{}{}:{}{}", col_name(first.2), first.1, col_name(last.2), last.1);
    if first.0 == from_sheet {
        body
    } else {
        format!("Sheet{}!{}", first.0 + 1, body)
    }
}

fn lit_text(v: &V) -> String {
    match v {
        V::Num(f) => format!("{f}"),
        V::Str(s) => format!("\"{s}\""),
        V::Bool(b) => if *b { "TRUE".into() } else { "FALSE".into() },
        V::Err(e) => err_text(e).to_string(),
        V::Empty => "\"\"".into(),
    }
}

pub fn render(wb: &Wb, sheet: u32, e: &E) -> String {
    match e {
        E::Lit(v) => lit_text(v),
        E::Ref(i) => a1(wb, sheet, *i),
        E::RefF(i, f) => a1f(wb, sheet, *i, *f),
        E::SumF(cs, f) => format!("SUM({})", range_text_f(wb, sheet, cs, *f)),
        E::RngF(cs, f) => range_text_f(wb, sheet, cs, *f),
        E::Bin(op, l, r) => format!("({}{}{})", render(wb, sheet, l), op, render(wb, sheet, r)),
        E::Cmp(op, l, r) => format!("({}{}{})", render(wb, sheet, l), op, render(wb, sheet, r)),
        E::Cat(l, r) => format!("({}&{})", render(wb, sheet, l), render(wb, sheet, r)),
        E::If(c, t, f) => format!("IF({},{},{})", render(wb, sheet, c), render(wb, sheet, t), render(wb, sheet, f)),
        E::IfErr(a, b) => format!("IFERROR({},{})", render(wb, sheet, a), render(wb, sheet, b)),
        E::IsErr(a) => format!("ISERROR({})", render(wb, sheet, a)),
        E::Sum(cs) => format!("SUM({})", range_text(wb, sheet, cs)),
        E::Rng(cs) => range_text(wb, sheet, cs),
        E::Fun(n, args) => format!("{}({})", n, args.iter().map(|a| render(wb, sheet, a)).collect::<Vec<_>>().join(",")),
        E::Name(i) => format!("nm{i}"),
    }
}

// ---------- dependency analysis (the harness's own, over its own AST) ----------

fn refs(e: &E, out: &mut Vec<usize>) {
    match e {
        E::Lit(_) => {}
        E::Ref(i) | E::RefF(i, _) | E::Name(i) => out.push(*i),
        E::Bin(_, l, r) | E::Cmp(_, l, r) | E::Cat(l, r) | E::IfErr(l, r) => {
            refs(l, out);
            refs(r, out);
        }
        E::If(c, t, f) => {
            refs(c, out);
            refs(t, out);
            refs(f, out);
        }
        E::IsErr(a) => refs(a, out),
        E::Sum(cs) | E::Rng(cs) | E::SumF(cs, _) | E::RngF(cs, _) => out.extend(cs.iter().copied()),
        E::Fun(_, args) => args.iter().for_each(|a| refs(a, out)),
    }
}

/// references that are read whatever the values are (lower bound of the dynamic dependencies)
fn always(e: &E, out: &mut Vec<usize>) {
    match e {
        E::Lit(_) => {}
        E::Ref(i) | E::RefF(i, _) => out.push(*i),
        E::Bin(_, l, r) => {
            always(l, out);
            if matches!(**l, E::Lit(V::Num(_)) | E::Lit(V::Bool(_))) {
                always(r, out);
            }
        }
        E::If(c, _, _) => always(c, out),
        E::IfErr(a, _) | E::IsErr(a) => always(a, out),
        E::Sum(cs) | E::SumF(cs, _) => out.push(cs[0]),
        _ => {}
    }
}

/// does the formula contain a function that does not propagate an error argument
fn traps(e: &E) -> bool {
    match e {
        E::IfErr(..) | E::IsErr(..) => true,
        E::Fun(n, args) => {
            matches!(n.as_str(), "ISNUMBER" | "ISTEXT" | "COUNT" | "ISERR" | "ISNA" | "ISBLANK" | "COUNTA")
                || args.iter().any(traps)
        }
        E::Bin(_, l, r) | E::Cmp(_, l, r) | E::Cat(l, r) => traps(l) || traps(r),
        E::If(c, t, f) => traps(c) || traps(t) || traps(f),
        _ => false,
    }
}

fn reach(adj: &[Vec<usize>], from: usize) -> Vec<bool> {
    let mut seen = vec![false; adj.len()];
    let mut stack: Vec<usize> = adj[from].clone();
    while let Some(x) = stack.pop() {
        if !seen[x] {
            seen[x] = true;
            stack.extend(adj[x].iter().copied());
        }
    }
    seen
}

// ---------- implementation side ----------

pub fn canon_formula_value(v: &FormulaValue) -> String {
    match v {
        FormulaValue::Unevaluated => "u".into(),
        FormulaValue::Boolean(true) => "bT".into(),
        FormulaValue::Boolean(false) => "bF".into(),
        FormulaValue::Number(f) => format!("n{:016x}", f.to_bits()),
        FormulaValue::Text(s) => format!("s{}", hex(s)),
        FormulaValue::Error { ei, .. } => format!("e{}", err_name(ei)),
    }
}

fn cell_formula_value(m: &Model, p: (u32, i32, i32)) -> Option<(FormulaValue, bool)> {
    match m.workbook.worksheets[p.0 as usize].sheet_data.get(&p.1)?.get(&p.2)? {
        Cell::CellFormula { v, .. } => Some((v.clone(), false)),
        Cell::ArrayFormula { v, .. } => Some((v.clone(), true)),
        _ => None,
    }
}

fn set_plain(m: &mut Model, p: (u32, i32, i32), v: &V) {
    match v {
        V::Num(f) => m.update_cell_with_number(p.0, p.1, p.2, *f).unwrap(),
        V::Str(s) => m.update_cell_with_text(p.0, p.1, p.2, s).unwrap(),
        V::Bool(b) => m.update_cell_with_bool(p.0, p.1, p.2, *b).unwrap(),
        V::Err(e) => {
            let ei = err_of_name(e).unwrap();
            m.workbook.worksheets[p.0 as usize]
                .sheet_data
                .entry(p.1)
                .or_default()
                .insert(p.2, Cell::ErrorCell { ei, s: 0 });
        }
        V::Empty => {}
    }
}

fn set_value(m: &mut Model, p: (u32, i32, i32), v: &FormulaValue) {
    match v {
        FormulaValue::Number(f) => m.update_cell_with_number(p.0, p.1, p.2, *f).unwrap(),
        FormulaValue::Text(s) => {
            m.workbook.worksheets[p.0 as usize].sheet_data.entry(p.1).or_default().remove(&p.2);
            m.update_cell_with_text(p.0, p.1, p.2, s).unwrap()
        }
        FormulaValue::Boolean(b) => m.update_cell_with_bool(p.0, p.1, p.2, *b).unwrap(),
        FormulaValue::Error { ei, .. } => {
            m.workbook.worksheets[p.0 as usize]
                .sheet_data
                .entry(p.1)
                .or_default()
                .insert(p.2, Cell::ErrorCell { ei: ei.clone(), s: 0 });
        }
        FormulaValue::Unevaluated => {}
    }
}

pub fn build(wb: &Wb) -> Model<'static> {
    let mut m = Model::new_empty("c05", "en", "UTC", "en").unwrap();
    let nsheets = wb.cells.iter().map(|c| c.0 .0).max().unwrap_or(0) + 1;
    for _ in 1..nsheets {
        m.new_sheet();
    }
    // defined names used by the rich suite
    let mut names = vec![];
    for (_, c) in &wb.cells {
        if let C::Formula(e) = c {
            collect_names(e, &mut names);
        }
    }
    names.sort();
    names.dedup();
    for i in names {
        let (s, r, c) = wb.cells[i].0;
        let _ = m.new_defined_name(&format!("nm{i}"), None, &format!("Sheet{}!${}${}", s + 1, col_name(c), r));
    }
    for (p, c) in &wb.cells {
        match c {
            C::None => {}
            C::Plain(v) => set_plain(&mut m, *p, v),
            C::Formula(e) => m.set_user_input(p.0, p.1, p.2, format!("={}", render(wb, p.0, e))).unwrap(),
        }
    }
    m
}

fn collect_names(e: &E, out: &mut Vec<usize>) {
    match e {
        E::Name(i) => out.push(*i),
        E::Bin(_, l, r) | E::Cmp(_, l, r) | E::Cat(l, r) | E::IfErr(l, r) => {
            collect_names(l, out);
            collect_names(r, out);
        }
        E::If(c, t, f) => {
            collect_names(c, out);
            collect_names(t, out);
            collect_names(f, out);
        }
        E::IsErr(a) => collect_names(a, out),
        E::Fun(_, args) => args.iter().for_each(|a| collect_names(a, out)),
        _ => {}
    }
}

fn eval_wb(req: &str) -> ImplOut {
    let f: Vec<&str> = req.split(' ').collect();
    let wb = match f.get(2).and_then(|x| dec_wb(x)) {
        Some(w) => w,
        None => return ImplOut::new("bad-cells".into()).trivial(),
    };
    let rich = f[1] == "rich";
    let mut m = build(&wb);
    m.evaluate();
    let n = wb.cells.len();
    let formulas: Vec<usize> = (0..n).filter(|i| matches!(wb.cells[*i].1, C::Formula(_))).collect();
    let mut vals: Vec<Option<FormulaValue>> = vec![None; n];
    let mut answers = vec![];
    let mut out = ImplOut::new(String::new());
    let mut any_array = false;
    for &i in &formulas {
        match cell_formula_value(&m, wb.cells[i].0) {
            Some((v, is_array)) => {
                any_array |= is_array;
                answers.push(canon_formula_value(&v));
                vals[i] = Some(v);
            }
            None => answers.push("missing".into()),
        }
    }
    out.ans = answers.join(";");
    if any_array && !rich {
        out = out.tag("kind:array-formula-in-modelled-suite");
    }
    // ---- graphs
    let mut adj_full = vec![vec![]; n];
    let mut adj_always = vec![vec![]; n];
    let mut trap = vec![false; n];
    for &i in &formulas {
        if let C::Formula(e) = &wb.cells[i].1 {
            refs(e, &mut adj_full[i]);
            always(e, &mut adj_always[i]);
            trap[i] = traps(e);
        }
    }
    let reach_full: Vec<Vec<bool>> = (0..n).map(|i| if adj_full[i].is_empty() { vec![false; n] } else { reach(&adj_full, i) }).collect();
    let on_cycle_full = |i: usize| reach_full[i][i];
    // is i in a strongly connected component (full graph) containing an error-trapping formula
    let scc_has_trap = |i: usize| -> bool {
        on_cycle_full(i) && (0..n).any(|j| trap[j] && reach_full[i][j] && reach_full[j][i])
    };
    let is_circ = |i: usize| matches!(&vals[i], Some(FormulaValue::Error { ei: Error::CIRC, .. }));
    // ---- consistency oracle: frozen copy, one formula at a time
    let mut fr = build(&wb);
    for &i in &formulas {
        if let Some(v) = &vals[i] {
            set_value(&mut fr, wb.cells[i].0, v);
        }
    }
    let mut n_cyc = 0;
    let mut n_circ = 0;
    for &i in &formulas {
        let p = wb.cells[i].0;
        let e = match &wb.cells[i].1 {
            C::Formula(e) => e,
            _ => continue,
        };
        let text = format!("={}", render(&wb, p.0, e));
        fr.set_user_input(p.0, p.1, p.2, text.clone()).unwrap();
        fr.evaluate();
        let again = cell_formula_value(&fr, p).map(|x| x.0);
        let same = match (&again, &vals[i]) {
            (Some(a), Some(b)) => canon_formula_value(a) == canon_formula_value(b),
            _ => false,
        };
        if !same {
            let sig = if scc_has_trap(i) { "c05:inconsistent:cycle-through-error-trap" } else { "c05:inconsistent" };
            out = out.fail(
                sig,
                &format!(
                    "cell {}!{}{} `{}` holds {} but its formula over the current values gives {}",
                    p.0 + 1, col_name(p.2), p.1, text,
                    vals[i].as_ref().map(canon_formula_value).unwrap_or_default(),
                    again.as_ref().map(canon_formula_value).unwrap_or_default()
                ),
            );
        }
        if let Some(v) = &vals[i] {
            set_value(&mut fr, p, v);
        }
        // ---- an aggregate applied to ONE cell that holds a number has an unarguable value
        let single = match e {
            E::SumF(cs, _) | E::Sum(cs) if cs.len() == 1 => Some(("SUM", cs[0])),
            E::Fun(name, args) if args.len() == 1 => match &args[0] {
                E::Ref(j) | E::RefF(j, _) => Some((name.as_str(), *j)),
                _ => None,
            },
            _ => None,
        };
        if let Some((name, j)) = single {
            if let C::Plain(V::Num(x)) = &wb.cells[j].1 {
                let want = match name {
                    "SUM" | "MAX" | "MIN" => Some(format!("n{:016x}", x.to_bits())),
                    "COUNT" => Some(format!("n{:016x}", 1f64.to_bits())),
                    "AND" | "OR" => Some(if *x != 0.0 { "bT".to_string() } else { "bF".to_string() }),
                    _ => None,
                };
                let got = vals[i].as_ref().map(canon_formula_value).unwrap_or_default();
                if let Some(w) = want {
                    if w != got {
                        out = out.fail("c05:aggregate-of-single-reference", &format!(
                            "cell {}!{}{} `{}` refers to one cell holding {} but shows {}", p.0 + 1, col_name(p.2), p.1, text, x, got));
                    }
                }
            }
        }
        // ---- (b) a formula that certainly depends on its own value shows #CIRC!
        let self_dep = !adj_always[i].is_empty() && reach(&adj_always, i)[i];
        if on_cycle_full(i) {
            n_cyc += 1;
        }
        if self_dep && !is_circ(i) {
            let sig = if scc_has_trap(i) { "c05:cycle-not-circ:cycle-through-error-trap" } else { "c05:cycle-not-circ" };
            out = out.fail(sig, &format!("cell {}!{}{} `{}` depends on itself but holds {}", p.0 + 1, col_name(p.2), p.1, text,
                vals[i].as_ref().map(canon_formula_value).unwrap_or_default()));
        }
        // ---- (c) #CIRC! only on a cycle or when reading a cell that shows it
        if is_circ(i) {
            n_circ += 1;
            let reads_circ = adj_full[i].iter().any(|&j| match &wb.cells[j].1 {
                C::Formula(_) => is_circ(j),
                C::Plain(V::Err("circ")) => true,
                _ => false,
            });
            if !on_cycle_full(i) && !reads_circ {
                out = out.fail("c05:circ-without-cycle", &format!("cell {}!{}{} `{}` shows #CIRC!", p.0 + 1, col_name(p.2), p.1, text));
            }
        }
    }
    out = out.tag(if n_cyc > 0 { "shape:has-cycle" } else { "shape:acyclic" });
    if n_circ > 0 {
        out = out.tag("value:some-circ");
    }
    if formulas.iter().any(|&i| trap[i] && on_cycle_full(i)) {
        out = out.tag("shape:trap-on-cycle");
    }
    out = out.tag(&format!("sheets:{}", wb.cells.iter().map(|c| c.0 .0).max().unwrap_or(0) + 1));
    out = out.tag(match formulas.len() {
        0..=5 => "formulas:0-5",
        6..=20 => "formulas:6-20",
        21..=60 => "formulas:21-60",
        _ => "formulas:61+",
    });
    out.nontrivial = !formulas.is_empty();
    out
}

// ---------- generators ----------

fn gen_plain(rng: &mut Rng) -> V {
    match rng.below(12) {
        0..=4 => V::Num(rng.range(-9, 20) as f64),
        5 => V::Num([0.5, 2.25, -1.5, 1e10, 0.1][rng.below(5) as usize]),
        6 => V::Num(0.0),
        7 => V::Str(["abc", "x y", "hello"][rng.below(3) as usize].to_string()),
        8 => V::Bool(rng.chance(1, 2)),
        9 => V::Err(["div", "na", "value"][rng.below(3) as usize]),
        _ => V::Num(rng.range(1, 5) as f64),
    }
}

fn gen_lit(rng: &mut Rng) -> V {
    match rng.below(10) {
        0..=6 => V::Num(rng.range(0, 9) as f64),
        7 => V::Num([0.5, 2.25, 100.0][rng.below(3) as usize]),
        8 => V::Bool(rng.chance(1, 2)),
        _ => V::Err(["div", "na"][rng.below(2) as usize]),
    }
}

fn gen_ref(rng: &mut Rng, n: usize) -> E {
    let i = rng.below(n as u64) as usize;
    if rng.chance(1, 2) {
        E::Ref(i)
    } else {
        E::RefF(i, rng.range(1, 3) as u8)
    }
}

/// a dense block of numbers with formulas that apply an aggregate directly to ONE cell, the
/// formula cell in line (same row or same column) with the cell it refers to or elsewhere, with
/// every combination of `$` markers: a reference that is resolved as anything wider than the one
/// cell picks up the neighbouring data or the formula cell itself
pub fn gen_strip(rng: &mut Rng, rich: bool) -> Wb {
    let rows = rng.range(3, 6) as i32;
    let cols = rng.range(4, 8) as i32;
    let sheet = 0u32;
    let mut cells: Vec<((u32, i32, i32), C)> = vec![];
    for r in 1..=rows {
        for c in 1..=cols {
            cells.push(((sheet, r, c), C::Plain(V::Num(rng.range(1, 9) as f64 * if rng.chance(1, 8) { 100.0 } else { 1.0 }))));
        }
    }
    let idx = |r: i32, c: i32| ((r - 1) * cols + (c - 1)) as usize;
    let n_formulas = rng.range(4, 10);
    let mut used = std::collections::BTreeSet::new();
    for k in 0..n_formulas {
        let fr = rng.range(1, rows as i64) as i32;
        let fc = rng.range(1, cols as i64) as i32;
        if !used.insert((fr, fc)) {
            continue;
        }
        // the referenced cell: same row (left or right), same column (above or below), or anywhere
        let (rr, rc) = match rng.below(5) {
            0 | 1 => (fr, rng.range(1, cols as i64) as i32),
            2 | 3 => (rng.range(1, rows as i64) as i32, fc),
            _ => (rng.range(1, rows as i64) as i32, rng.range(1, cols as i64) as i32),
        };
        if (rr, rc) == (fr, fc) || used.contains(&(rr, rc)) {
            used.remove(&(fr, fc));
            continue;
        }
        let flags = (k % 4) as u8;
        let target = idx(rr, rc);
        let core = if rich {
            let name = ["SUM", "MAX", "MIN", "COUNT", "AND", "OR"][rng.below(6) as usize];
            E::Fun(name.into(), vec![E::RefF(target, flags)])
        } else {
            E::SumF(vec![target], flags)
        };
        let e = match rng.below(4) {
            0 => E::Bin('+', Box::new(core), Box::new(E::Lit(V::Num(1.0)))),
            1 => E::IfErr(Box::new(core), Box::new(E::Lit(V::Num(-1.0)))),
            _ => core,
        };
        cells[idx(fr, fc)].1 = C::Formula(e);
    }
    Wb { cells }
}

fn gen_expr(rng: &mut Rng, n: usize, rects: &[Vec<usize>], depth: u32, rich: bool) -> E {
    let leaf = depth == 0 || rng.chance(1, 4);
    if leaf {
        return if rng.chance(3, 4) { gen_ref(rng, n) } else { E::Lit(gen_lit(rng)) };
    }
    let sub = |rng: &mut Rng| Box::new(gen_expr(rng, n, rects, depth - 1, rich));
    // operands of binary operators stay inside the modelled fragment: `(a&b)+c`, `a+(b=c)` … are
    // printed without their parentheses by the engine's own formula printer (findings F09*, property
    // C09) and would then be shared with a different formula of the same printed text
    let opnd = |rng: &mut Rng| Box::new(gen_expr(rng, n, rects, depth - 1, false));
    let k = rng.below(if rich { 16 } else { 10 });
    match k {
        0..=3 => {
            let op = ['+', '-', '*', '/'][rng.below(4) as usize];
            E::Bin(op, opnd(rng), opnd(rng))
        }
        4 | 5 => E::If(sub(rng), sub(rng), sub(rng)),
        6 | 7 => E::IfErr(sub(rng), sub(rng)),
        8 => E::IsErr(sub(rng)),
        9 => {
            // SUM of a bare single-cell reference (every `$` combination), of a range with `$`
            // markers, or of a plain range
            if rects.is_empty() || rng.chance(1, 3) {
                E::SumF(vec![rng.below(n as u64) as usize], rng.below(4) as u8)
            } else if rng.chance(1, 2) {
                E::SumF(rects[rng.below(rects.len() as u64) as usize].clone(), rng.below(16) as u8)
            } else {
                E::Sum(rects[rng.below(rects.len() as u64) as usize].clone())
            }
        }
        10 => E::Cmp(['=', '<', '>'][rng.below(3) as usize], opnd(rng), opnd(rng)),
        11 => E::Cat(opnd(rng), opnd(rng)),
        12 => {
            let name = ["AND", "OR"][rng.below(2) as usize];
            E::Fun(name.into(), vec![*sub(rng), *sub(rng)])
        }
        13 => {
            let name = ["NOT", "ABS", "ISNUMBER", "ISTEXT"][rng.below(4) as usize];
            E::Fun(name.into(), vec![*sub(rng)])
        }
        14 => {
            if rng.chance(1, 5) {
                E::Fun("IFNA".into(), vec![*sub(rng), *sub(rng)])
            } else if rects.is_empty() || rng.chance(1, 2) {
                // an aggregate applied DIRECTLY to a single-cell reference, every `$` combination
                let name = ["SUM", "MAX", "MIN", "COUNT", "AND", "OR"][rng.below(6) as usize];
                E::Fun(name.into(), vec![E::RefF(rng.below(n as u64) as usize, rng.below(4) as u8)])
            } else {
                let name = ["MAX", "MIN", "COUNT"][rng.below(3) as usize];
                E::Fun(name.into(), vec![E::RngF(rects[rng.below(rects.len() as u64) as usize].clone(), rng.below(16) as u8)])
            }
        }
        _ => E::Name(rng.below(n as u64) as usize),
    }
}

/// a random workbook: positions on a small grid per sheet (so that ranges overlap cells),
/// up to three rectangles (for SUM), plain cells of every class, formulas, injected cycles
pub fn gen_random(rng: &mut Rng, rich: bool) -> Wb {
    let nsheets = rng.range(1, 3) as u32;
    let target = rng.range(5, 60) as usize;
    let mut pos: BTreeSet<(u32, i32, i32)> = BTreeSet::new();
    let rows = rng.range(3, 9) as i32;
    let cols = rng.range(2, 7) as i32;
    let mut guard = 0;
    while pos.len() < target && guard < 1000 {
        guard += 1;
        pos.insert((rng.below(nsheets as u64) as u32, rng.range(1, rows as i64) as i32, rng.range(1, cols as i64) as i32));
    }
    // rectangles: every position inside gets an entry
    let mut rect_keys: Vec<Vec<(u32, i32, i32)>> = vec![];
    for _ in 0..rng.below(4) {
        let s = rng.below(nsheets as u64) as u32;
        let r1 = rng.range(1, rows as i64) as i32;
        let c1 = rng.range(1, cols as i64) as i32;
        let h = rng.range(1, 3) as i32;
        let w = rng.range(1, 3) as i32;
        let mut keys = vec![];
        for r in r1..r1 + h {
            for c in c1..c1 + w {
                keys.push((s, r, c));
            }
        }
        rect_keys.push(keys);
    }
    let original: BTreeSet<(u32, i32, i32)> = pos.clone();
    for k in rect_keys.iter().flatten() {
        pos.insert(*k);
    }
    let keys: Vec<(u32, i32, i32)> = pos.iter().copied().collect();
    let index = |k: &(u32, i32, i32)| keys.binary_search(k).unwrap();
    let rects: Vec<Vec<usize>> = rect_keys.iter().map(|ks| ks.iter().map(index).collect()).collect();
    let n = keys.len();
    let mut cells: Vec<((u32, i32, i32), C)> = keys
        .iter()
        .map(|k| {
            if !original.contains(k) || rng.chance(1, 12) {
                (*k, C::None)
            } else if rng.chance(2, 5) {
                (*k, C::Plain(gen_plain(rng)))
            } else {
                let d = rng.range(1, 3) as u32;
                (*k, C::Formula(gen_expr(rng, n, &rects, d, rich)))
            }
        })
        .collect();
    // injected cycles of every length 1..=6
    for _ in 0..rng.below(3) {
        let len = rng.range(1, 6) as usize;
        if n < len {
            continue;
        }
        let mut ring: Vec<usize> = vec![];
        while ring.len() < len {
            let c = rng.below(n as u64) as usize;
            if !ring.contains(&c) {
                ring.push(c);
            }
        }
        for j in 0..len {
            let next = ring[(j + 1) % len];
            let e = match rng.below(8) {
                0..=2 => E::Bin('+', Box::new(E::Ref(next)), Box::new(E::Lit(V::Num(1.0)))),
                3 => E::Ref(next),
                4 => E::If(Box::new(E::Lit(V::Bool(rng.chance(1, 2)))), Box::new(E::Ref(next)), Box::new(E::Lit(V::Num(3.0)))),
                5 => E::IfErr(Box::new(E::Ref(next)), Box::new(E::Lit(V::Num(5.0)))),
                6 => E::If(Box::new(E::IsErr(Box::new(E::Ref(next)))), Box::new(E::Lit(V::Num(1.0))), Box::new(E::Lit(V::Num(2.0)))),
                _ => E::Bin('*', Box::new(E::Lit(V::Num(2.0))), Box::new(E::Ref(next))),
            };
            cells[ring[j]].1 = C::Formula(e);
        }
    }
    Wb { cells }
}

/// a chain of `len` cells in one column, each one more than its neighbour, evaluated either
/// in dependency order or against it (recursion depth = len); optionally closed into a cycle
fn gen_chain(len: usize, backward: bool, closed: bool, sheet2: bool) -> Wb {
    let mut cells = vec![];
    for i in 0..len {
        let e = if backward {
            if i + 1 < len {
                E::Bin('+', Box::new(E::Ref(i + 1)), Box::new(E::Lit(V::Num(1.0))))
            } else if closed {
                E::Ref(0)
            } else {
                E::Lit(V::Num(1.0))
            }
        } else if i > 0 {
            E::Bin('+', Box::new(E::Ref(i - 1)), Box::new(E::Lit(V::Num(1.0))))
        } else if closed {
            E::Ref(len - 1)
        } else {
            E::Lit(V::Num(1.0))
        };
        cells.push(((0, i as i32 + 1, 1), C::Formula(e)));
    }
    if sheet2 {
        // a reader on another sheet
        cells.push(((1, 1, 1), C::Formula(E::IfErr(Box::new(E::Ref(0)), Box::new(E::Lit(V::Num(-1.0)))))));
    }
    Wb { cells }
}

fn gen_wb(ctx: &Ctx, sink: &mut dyn FnMut(String)) {
    let mut rng = Rng::new(ctx.seed ^ 0xC05);
    // corpus: the known finding and its relatives
    let f05a = Wb {
        cells: vec![
            ((0, 1, 1), C::Formula(E::IfErr(Box::new(E::Ref(1)), Box::new(E::Lit(V::Num(5.0)))))),
            ((0, 1, 2), C::Formula(E::Ref(0))),
        ],
    };
    sink(format!("c05 wb {}", enc_wb(&f05a)));
    // F05b (fixed): the first reader of `=A1` (A1 empty) must see what later readers see
    let f05b = Wb {
        cells: vec![
            ((0, 1, 1), C::None),
            ((0, 1, 2), C::Formula(E::IsErr(Box::new(E::Bin('/', Box::new(E::Lit(V::Num(1.0))), Box::new(E::Ref(3))))))),
            ((0, 1, 3), C::Formula(E::IfErr(Box::new(E::Ref(4)), Box::new(E::Lit(V::Num(7.0)))))),
            ((0, 1, 4), C::Formula(E::Ref(0))),
            ((0, 1, 5), C::Formula(E::Bin('*', Box::new(E::Lit(V::Num(1e308))), Box::new(E::Lit(V::Num(10.0)))))),
        ],
    };
    sink(format!("c05 wb {}", enc_wb(&f05b)));
    for len in [1usize, 2, 3, 7, 50, 200] {
        for backward in [false, true] {
            for closed in [false, true] {
                sink(format!("c05 wb {}", enc_wb(&gen_chain(len, backward, closed, len % 2 == 1))));
            }
        }
    }
    let count = if ctx.tier == Tier::Quick { 400 } else { 30_000 };
    for _ in 0..count {
        let mut r = rng.fork();
        sink(format!("c05 wb {}", enc_wb(&gen_random(&mut r, false))));
    }
    for _ in 0..count / 4 {
        let mut r = rng.fork();
        sink(format!("c05 wb {}", enc_wb(&gen_strip(&mut r, false))));
    }
}

fn gen_rich(ctx: &Ctx, sink: &mut dyn FnMut(String)) {
    let mut rng = Rng::new(ctx.seed ^ 0xC05_0001);
    let count = if ctx.tier == Tier::Quick { 250 } else { 15_000 };
    for _ in 0..count {
        let mut r = rng.fork();
        sink(format!("c05 rich {}", enc_wb(&gen_random(&mut r, true))));
    }
    for _ in 0..count / 3 {
        let mut r = rng.fork();
        sink(format!("c05 rich {}", enc_wb(&gen_strip(&mut r, true))));
    }
}

// ---------- c05-cse: fixed-range (CSE) array formulas on a cycle through their own ranges ----------

fn gen_cse(ctx: &Ctx, sink: &mut dyn FnMut(String)) {
    let mut rng = Rng::new(ctx.seed ^ 0xC05_0002);
    // the integrator's witness first
    sink("c05 cse 1.1.2.2.0.0.0".to_string());
    let count = if ctx.tier == Tier::Quick { 60 } else { 3000 };
    for _ in 0..count {
        // row, column, width, height, column shift of the range that is read, kind, user-model flag
        sink(format!(
            "c05 cse {}.{}.{}.{}.{}.{}.{}",
            rng.range(1, 6), rng.range(1, 6), rng.range(1, 3), rng.range(1, 3), rng.range(0, 2), rng.below(3), rng.below(2)
        ));
    }
}

fn eval_cse(req: &str) -> ImplOut {
    let f: Vec<&str> = req.split(' ').collect();
    let n: Vec<i32> = f.get(2).map(|x| x.split('.').filter_map(|y| y.parse().ok()).collect()).unwrap_or_default();
    if n.len() != 7 {
        return ImplOut::new("bad-request".into()).trivial();
    }
    let (r, c, w, h, shift, kind, user) = (n[0], n[1], n[2], n[3], n[4].min(n[2] - 1).max(0), n[5], n[6]);
    let a1 = |r: i32, c: i32| format!("{}{}", col_name(c), r);
    // cells that are on the cycle: (position, is the anchor of a w x h array)
    let mut arrays: Vec<(i32, i32, i32, i32, String)> = vec![];
    let mut scalars: Vec<(i32, i32, String)> = vec![];
    match kind {
        0 => arrays.push((r, c, w, h, format!("={}:{}+1", a1(r, c + shift), a1(r + h - 1, c + shift + w - 1)))),
        1 => {
            // two arrays that read each other's ranges
            arrays.push((r, c, w, h, format!("={}:{}+1", a1(r, c + 4), a1(r + h - 1, c + 4 + w - 1))));
            arrays.push((r, c + 4, w, h, format!("={}:{}*2", a1(r, c), a1(r + h - 1, c + w - 1))));
        }
        _ => {
            // the array reads a scalar cell that reads the array's range
            arrays.push((r, c, w, h, format!("={}+1", a1(r, c + 4))));
            scalars.push((r, c + 4, format!("=SUM({}:{})", a1(r, c), a1(r + h - 1, c + w - 1))));
        }
    }
    let snapshot = |m: &Model| -> Vec<String> {
        let mut out = vec![];
        for rr in 1..12 {
            for cc in 1..14 {
                out.push(format!("{:?}", m.get_cell_value_by_index(0, rr, cc)));
            }
        }
        out
    };
    let mut out = ImplOut::new(String::new());
    let m: Model = if user == 1 {
        let mut um = ironcalc_base::UserModel::new_empty("c05", "en", "UTC", "en").unwrap();
        um.set_user_input(0, 9, 9, "1").unwrap();
        for (rr, cc, t) in &scalars {
            let _ = um.set_user_input(0, *rr, *cc, t);
        }
        for (rr, cc, ww, hh, t) in &arrays {
            let _ = um.set_user_array_formula(0, *rr, *cc, *ww, *hh, t);
        }
        Model::from_bytes(&um.get_model().to_bytes(), "en").unwrap()
    } else {
        let mut m = Model::new_empty("c05", "en", "UTC", "en").unwrap();
        for (rr, cc, t) in &scalars {
            let _ = m.set_user_input(0, *rr, *cc, t.clone());
        }
        for (rr, cc, ww, hh, t) in &arrays {
            let _ = m.set_user_array_formula(0, *rr, *cc, *ww, *hh, t);
        }
        m.evaluate();
        m
    };
    let is_circ = |m: &Model, rr: i32, cc: i32| matches!(m.get_cell_value_by_index(0, rr, cc), Ok(ironcalc_base::cell::CellValue::String(ref s)) if s == "#CIRC!");
    // self-reference only exists when the range that is read really overlaps the array's own range
    let overlapping = kind != 0 || shift < w;
    if overlapping {
        for (rr, cc, ww, hh, t) in &arrays {
            for i in 0..*hh {
                for j in 0..*ww {
                    // element (i,j) of `range+1` reads one cell; only the elements whose source lies in
                    // the array's own range are circular
                    if kind == 0 && shift + j >= w {
                        continue;
                    }
                    if !is_circ(&m, rr + i, cc + j) {
                        out = out.fail("c05:cse-array-reads-own-range:no-circ", &format!(
                            "array {} {ww}x{hh} `{t}`: cell {} holds {:?}", a1(*rr, *cc), a1(rr + i, cc + j), m.get_cell_value_by_index(0, rr + i, cc + j)));
                    }
                }
            }
        }
        for (rr, cc, t) in &scalars {
            if !is_circ(&m, *rr, *cc) {
                out = out.fail("c05:cse-array-reads-own-range:no-circ", &format!("cell {} `{t}` holds {:?}", a1(*rr, *cc), m.get_cell_value_by_index(0, *rr, *cc)));
            }
        }
    }
    // evaluating again changes nothing
    let before = snapshot(&m);
    let mut m2 = m;
    m2.evaluate();
    m2.evaluate();
    if snapshot(&m2) != before {
        out = out.fail("c05:cse-array-reads-own-range:value-changes-on-evaluate", &format!("kind {kind}: the sheet changes when evaluate() is called again"));
    }
    out = out.tag(&format!("kind:{kind}")).tag(if user == 1 { "api:UserModel" } else { "api:Model" });
    out
}

pub fn suites() -> Vec<Suite> {
    vec![
        Suite {
            name: "c05-wb",
            rule: "random workbooks over the modelled fragment (1-3 sheets, 5-60 cells, refs incl. cross-sheet, + - * /, IF, IFERROR, ISERROR, SUM over ranges, injected cycles of length 1..6 plain / through IF / through IFERROR) + chains of length 1..200 in both evaluation directions, open and closed; Model::evaluate values vs the Lean driver; oracle: every formula re-entered over the frozen current values gives the stored value, a certainly self-dependent formula shows #CIRC!, #CIRC! only on a cycle or when reading #CIRC!; non-trivial = at least one formula cell",
            modelled: true,
            gen: gen_wb,
            eval: eval_wb,
            exhaustive: never,
        },
        Suite {
            name: "c05-cse",
            rule: "fixed-range (CSE) array formulas on a dependency cycle through their own ranges: an array that reads (part of) its own range, two arrays that read each other's ranges, an array that reads a scalar formula which reads the array's range; on Model (one evaluate) and UserModel; oracle: every cell of the arrays and the scalar shows #CIRC!, and evaluating again changes nothing",
            modelled: false,
            gen: gen_cse,
            eval: eval_cse,
            exhaustive: never,
        },
        Suite {
            name: "c05-rich",
            rule: "the same workbook shapes with functions outside the model (comparisons, &, AND, OR, NOT, ABS, IFNA, MAX, MIN, COUNT, ISNUMBER, ISTEXT, defined names); oracle only",
            modelled: false,
            gen: gen_rich,
            eval: eval_wb,
            exhaustive: never,
        },
    ]
}
