//! The suites of C01–C04 and C27: the model correspondence suite (`um_model.rs`) plus the
//! implementation-level oracle (`um_oracle.rs`) whose failure signatures are normalised here to
//! `<property>:<what>:<OpKind><discriminating qualifiers>:<diff class>` — the incidental
//! qualifiers (which style path, whether the band also had row attributes, …) are dropped so that
//! the set of signatures stays small and stable, while a different op kind, a different
//! discriminating circumstance (`-into-empty`, `-hidden`, `-referenced`, `-with-links`, `-with-cf`,
//! `-over-spill`, `-copy`/`-cut`, `-full-col`/`-full-row`) or a different class of observable
//! still gives a different signature.  The original signature stays in the detail text.
use super::{um_model, um_oracle};
use crate::run::{ImplOut, Suite};

/// qualifiers that discriminate between mechanisms and therefore stay in the signature
const KEEP: [&str; 15] = [
    "-failed", "-lang", "-arrays", "-over-cse",
    "-into-empty", "-over-existing", "-over-spill", "-over-array", "-over-empty-styled", "-hidden",
    "-full-col", "-full-row", "-cells", "-copy", "-cut",
];

/// `c01:undo:DeleteRows-with-array-referenced:cell-content` -> `c01:undo:DeleteRows:cell-content`;
/// `c01:undo:UpdateRangeStyle-full-col-alignment.vertical:col` -> `…:UpdateRangeStyle-full-col:col`
pub fn normalise_sig(sig: &str) -> String {
    let parts: Vec<&str> = sig.split(':').collect();
    let mut out: Vec<String> = vec![];
    for (i, p) in parts.iter().enumerate() {
        // the op-kind field is the one that starts with an upper-case letter and may carry qualifiers
        let is_kind = i >= 1 && p.chars().next().map(|c| c.is_ascii_uppercase()).unwrap_or(false) && p.contains('-')
            && !p.starts_with("Undo-") && !p.starts_with("Redo-");
        if is_kind {
            let kind: String = p.split('-').next().unwrap_or("").to_string();
            let mut q = String::new();
            // `-lang` only discriminates for the op kinds whose replay re-parses recorded text
            let reparses = ["SetUserInput", "SetUserArrayFormula", "AutoFill", "Paste", "NewDefinedName", "UpdateDefinedName", "DeleteDefinedName", "AddCf", "UpdateCf"]
                .iter()
                .any(|x| kind.starts_with(x));
            for k in KEEP {
                if p.contains(k) && (k != "-lang" || reparses) {
                    q.push_str(k);
                }
            }
            out.push(format!("{kind}{q}"));
        } else if *p == "cell-content" || *p == "cell-kind" {
            // "what the cell holds" (kind or text).  `cell-value` stays separate: the diff is ordered by
            // class, so `cell-value` means that ONLY computed values differ while every cell's content is
            // equal — an evaluation effect, not a lost or wrong cell
            out.push("cell-content".to_string());
        } else {
            out.push(p.to_string());
        }
    }
    let mut joined = out.join(":");
    if (joined.starts_with("c01:undo:") || joined.starts_with("c02:undo:") || joined.starts_with("c02:redo:")) && joined.ends_with(":cell-value") {
        // ONLY computed values differ (all contents equal): an evaluation effect (history-dependent values on
        // cycles / next to spills, F01m), not a property of the op kind that happened to be undone
        let head: Vec<&str> = joined.split(':').take(2).collect();
        joined = format!("{}:any:cell-value-only", head.join(":"));
    }
    if [":cf", ":link", ":col", ":row"].iter().any(|c| joined.ends_with(c)) {
        // whether arrays live on the sheet only matters for what cells hold, not for links / CF / attributes
        joined = joined.replace("-arrays", "");
    }
    if joined.starts_with("c03:diverged:") && joined.contains("-failed") {
        // the diverging command is a call that returned Err after changing the primary: the defect is that
        // op's C04 finding (reported there with its op kind); here one signature per class of observable
        let class = joined.rsplit(':').next().unwrap_or("");
        let lang = if joined.contains("-lang") { "-lang" } else { "" };
        joined = format!("c03:diverged:any-failed{lang}:{class}");
    }
    if joined.starts_with("c03:") {
        // replica divergence: which observable of the cell differs first depends on pool indices;
        // one class for the whole cell
        return joined.replace(":cell-content", ":cell").replace(":cell-value", ":cell").replace(":cell-style", ":cell");
    }
    joined
}

/// Only the FIRST failure of a history is reported: once an undo has left the workbook in a state
/// that differs from the recorded one, later commands of the same history run on that wrong state
/// and their mismatches are consequences, not separate findings.
fn normalise(mut o: ImplOut) -> ImplOut {
    o.oracle.truncate(1);
    for (sig, detail) in o.oracle.iter_mut() {
        let mut n = normalise_sig(sig);
        if (n.starts_with("c01:") || n.starts_with("c02:")) && n.ends_with(":cell-content") {
            // direction of the first differing cell: `lost` (was there, is absent after the undo/redo),
            // `gained` (was absent, is there now) or `changed`: a lost array is not a reappearing spill
            if let Some(i) = detail.find(" := ") {
                let rest = &detail[i + 4..];
                let entry = rest.split(" | ").next().unwrap_or("");
                let mut ab = entry.splitn(2, " => ");
                let (a, b) = (ab.next().unwrap_or("").trim(), ab.next().unwrap_or("").trim());
                let b = b.split(" ;; ").next().unwrap_or("").trim();
                n.push_str(if a == "<absent>" { ":gained" } else if b == "<absent>" { ":lost" } else { ":changed" });
            }
        }
        if n != *sig {
            *detail = format!("[{}] {}", sig, detail);
            *sig = n;
        }
    }
    o
}

macro_rules! wrap {
    ($evalname:ident, $mk:ident, $orig:path) => {
        fn $evalname(req: &str) -> ImplOut {
            // a panic outside the per-call guards (e.g. inside a getter used by the snapshot)
            // must not take the whole run down: it is reported as an oracle failure
            if std::env::var("UM_PANIC_TRACE").is_ok() {
                std::panic::set_hook(Box::new(|info| eprintln!("PANIC {info}")));
            }
            match std::panic::catch_unwind(|| (($orig)().eval)(req)) {
                Ok(o) => normalise(o),
                Err(e) => {
                    let msg = e
                        .downcast_ref::<String>()
                        .cloned()
                        .or_else(|| e.downcast_ref::<&str>().map(|s| s.to_string()))
                        .unwrap_or_default();
                    let prop = req.split(' ').next().unwrap_or("c??").to_string();
                    ImplOut::new("panic".into())
                        .fail(&format!("{prop}:panic-while-observing"), &format!("{msg} ;; replay: {req}"))
                }
            }
        }
        fn $mk() -> Suite {
            let mut s = ($orig)();
            s.eval = $evalname;
            s
        }
    };
}
wrap!(eval_c01, mk_c01, um_oracle::c01_oracle);
wrap!(eval_c02, mk_c02, um_oracle::c02_oracle);
wrap!(eval_c03, mk_c03, um_oracle::c03_oracle);
wrap!(eval_c04, mk_c04, um_oracle::c04_oracle);
wrap!(eval_c27, mk_c27, um_oracle::c27_oracle);

pub fn c01() -> Vec<Suite> {
    vec![um_model::c01_model(), mk_c01()]
}
pub fn c02() -> Vec<Suite> {
    vec![um_model::c02_model(), mk_c02()]
}
pub fn c03() -> Vec<Suite> {
    vec![um_model::c03_model(), mk_c03()]
}
pub fn c04() -> Vec<Suite> {
    vec![um_model::c04_model(), mk_c04()]
}
pub fn c27() -> Vec<Suite> {
    let mut v = vec![um_model::c27_model(), mk_c27()];
    v.extend(super::c27desc::suites());
    v
}
