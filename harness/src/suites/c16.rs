//! C16 — cut and paste moves meaning, copy and paste translates it.
//!  * extraction: the parenthesisation table of the SECOND printer (`move_formula.rs::to_string_moved`,
//!    reached through the public `Model::move_cell_value_to_area`) → `Generated/ParenMove.lean`;
//!  * `c16-entries`: every two-level tree through the move printer, re-parsed at the target cell;
//!  * `c16-deep`: random trees: moved text → real lexer tokens vs model tokens; re-parse = the tree
//!    with the references into the cut area shifted;
//!  * `c16-paste`: cut/paste and copy/paste on a real `UserModel` (oracle = the property text).
use super::c09::{extract_table_with, kind_level, kind_reps, parents, slot_level, wrapped_in_with, write_table, SLOTS};
use crate::fbridge::*;
use crate::prng::Rng;
use crate::run::{always, never, Ctx, ImplOut, Suite, Tier};
use crate::wbgen;
use ironcalc_base::expressions::lexer::LexerMode;
use ironcalc_base::expressions::parser::stringify::to_localized_string;
use ironcalc_base::expressions::parser::Node;
use ironcalc_base::expressions::token::TokenType;
use ironcalc_base::expressions::types::{Area, CellReferenceIndex, CellReferenceRC};
use ironcalc_base::language::get_language;
use ironcalc_base::locale::get_locale;
use ironcalc_base::{ClipboardData, Model, UserModel};
use std::cell::RefCell;
use std::path::Path;

const DROW: i32 = 10;
const DCOL: i32 = 2;

thread_local! {
    static MODEL: RefCell<Model<'static>> = RefCell::new({
        let mut m = Model::new_empty("c16", "en", "UTC", "en").unwrap();
        m.add_sheet("Sheet2").unwrap();
        m.add_sheet("My Sheet").unwrap();
        m
    });
}

fn display(n: &MNode) -> String {
    to_localized_string(&to_real(n), &context(), get_locale("en").unwrap(), get_language("en").unwrap())
}

/// the move printer on the display text of a tree: the formula sits in J10 (the context cell),
/// the cut area is J10:L12, the target is L20
fn moved_text(n: &MNode) -> Result<String, String> {
    let text = format!("={}", display(n));
    MODEL.with(|m| {
        let mut m = m.borrow_mut();
        let c = context();
        m.move_cell_value_to_area(
            &text,
            &CellReferenceIndex { sheet: 0, row: c.row, column: c.column },
            &CellReferenceIndex { sheet: 0, row: c.row + DROW, column: c.column + DCOL },
            &Area { sheet: 0, row: c.row, column: c.column, width: 3, height: 3 },
        )
        .map(|s| s.strip_prefix('=').unwrap_or(&s).to_string())
    })
}

fn print_moved(n: &MNode) -> String {
    moved_text(n).unwrap_or_else(|e| format!("<error:{e}>"))
}

pub fn extract(dir: &Path) {
    let (table, bad) = extract_table_with(&print_moved);
    write_table(
        dir,
        "ParenMove",
        "parenMove",
        "base/src/expressions/parser/move_formula.rs::to_string_moved (the cut/paste printer, reached\n  through Model::move_cell_value_to_area) prints the child in parentheses",
        &table,
        &bad,
    );
}

fn target_context() -> CellReferenceRC {
    let c = context();
    CellReferenceRC { sheet: c.sheet, row: c.row + DROW, column: c.column + DCOL }
}

/// resolve every reference of a real node to absolute coordinates w.r.t. `ctx` (flags kept),
/// optionally shifting those that point at the cut cell
fn resolve(n: &Node, ctx: &CellReferenceRC, shift_cut: bool) -> Node {
    let c0 = context();
    let in_area = |sheet_index: u32, r: i32, c: i32| -> bool {
        sheet_index == 0 && r >= c0.row && r <= c0.row + 2 && c >= c0.column && c <= c0.column + 2
    };
    let abs = |abs_r: bool, abs_c: bool, row: i32, col: i32| -> (i32, i32) {
        (if abs_r { row } else { row + ctx.row }, if abs_c { col } else { col + ctx.column })
    };
    let fix = |abs_r: bool, abs_c: bool, row: i32, col: i32, sheet_index: u32| -> (i32, i32) {
        let (r, c) = abs(abs_r, abs_c, row, col);
        if shift_cut && in_area(sheet_index, r, c) {
            (r + DROW, c + DCOL)
        } else {
            (r, c)
        }
    };
    let rec = |x: &Node| Box::new(resolve(x, ctx, shift_cut));
    let recv = |xs: &Vec<Node>| xs.iter().map(|x| resolve(x, ctx, shift_cut)).collect::<Vec<_>>();
    match n {
        Node::ReferenceKind { sheet_name, sheet_index, absolute_row, absolute_column, row, column } => {
            let (r, c) = fix(*absolute_row, *absolute_column, *row, *column, *sheet_index);
            Node::ReferenceKind { sheet_name: sheet_name.clone(), sheet_index: *sheet_index, absolute_row: *absolute_row, absolute_column: *absolute_column, row: r, column: c }
        }
        Node::RangeKind { sheet_name, sheet_index, absolute_row1, absolute_column1, row1, column1, absolute_row2, absolute_column2, row2, column2 } => {
            // a range moves only if BOTH corners are in the cut area
            let (r1, c1) = abs(*absolute_row1, *absolute_column1, *row1, *column1);
            let (r2, c2) = abs(*absolute_row2, *absolute_column2, *row2, *column2);
            let both = shift_cut && in_area(*sheet_index, r1, c1) && in_area(*sheet_index, r2, c2);
            let (r1, c1, r2, c2) = if both { (r1 + DROW, c1 + DCOL, r2 + DROW, c2 + DCOL) } else { (r1, c1, r2, c2) };
            Node::RangeKind { sheet_name: sheet_name.clone(), sheet_index: *sheet_index, absolute_row1: *absolute_row1, absolute_column1: *absolute_column1, row1: r1, column1: c1, absolute_row2: *absolute_row2, absolute_column2: *absolute_column2, row2: r2, column2: c2 }
        }
        Node::WrongReferenceKind { sheet_name, absolute_row, absolute_column, row, column } => {
            let (r, c) = fix(*absolute_row, *absolute_column, *row, *column, u32::MAX);
            Node::WrongReferenceKind { sheet_name: sheet_name.clone(), absolute_row: *absolute_row, absolute_column: *absolute_column, row: r, column: c }
        }
        Node::WrongRangeKind { sheet_name, absolute_row1, absolute_column1, row1, column1, absolute_row2, absolute_column2, row2, column2 } => {
            let (r1, c1) = fix(*absolute_row1, *absolute_column1, *row1, *column1, u32::MAX);
            let (r2, c2) = fix(*absolute_row2, *absolute_column2, *row2, *column2, u32::MAX);
            Node::WrongRangeKind { sheet_name: sheet_name.clone(), absolute_row1: *absolute_row1, absolute_column1: *absolute_column1, row1: r1, column1: c1, absolute_row2: *absolute_row2, absolute_column2: *absolute_column2, row2: r2, column2: c2 }
        }
        Node::OpRangeKind { left, right } => Node::OpRangeKind { left: rec(left), right: rec(right) },
        Node::OpConcatenateKind { left, right } => Node::OpConcatenateKind { left: rec(left), right: rec(right) },
        Node::OpSumKind { kind, left, right } => Node::OpSumKind { kind: kind.clone(), left: rec(left), right: rec(right) },
        Node::OpProductKind { kind, left, right } => Node::OpProductKind { kind: kind.clone(), left: rec(left), right: rec(right) },
        Node::OpPowerKind { left, right } => Node::OpPowerKind { left: rec(left), right: rec(right) },
        Node::CompareKind { kind, left, right } => Node::CompareKind { kind: kind.clone(), left: rec(left), right: rec(right) },
        Node::UnaryKind { kind, right } => Node::UnaryKind { kind: kind.clone(), right: rec(right) },
        Node::FunctionKind { kind, args } => Node::FunctionKind { kind: kind.clone(), args: recv(args) },
        Node::NamedFunctionKind { id, name, args } => Node::NamedFunctionKind { id: *id, name: name.clone(), args: recv(args) },
        Node::LambdaDefKind { parameters, body } => Node::LambdaDefKind { parameters: parameters.clone(), body: rec(body) },
        Node::LambdaCallKind { lambda, args } => Node::LambdaCallKind { lambda: rec(lambda), args: recv(args) },
        Node::ImplicitIntersection { automatic, child } => Node::ImplicitIntersection { automatic: *automatic, child: rec(child) },
        Node::SpillRangeOperator { child } => Node::SpillRangeOperator { child: rec(child) },
        other => other.clone(),
    }
}

/// the parser used for the moved text: the sheets of MODEL, no defined names or tables (the
/// Model that printed the text knows none either)
fn parse_at(text: &str, ctx: &CellReferenceRC) -> Node {
    let locale = get_locale("en").unwrap();
    let language = get_language("en").unwrap();
    let mut p = ironcalc_base::expressions::parser::Parser::new(
        SHEETS.iter().map(|s| s.to_string()).collect(),
        vec![],
        std::collections::HashMap::new(),
        locale,
        language,
    );
    p.parse(text, ctx)
}

/// the oracle of the printer part of C16: the moved text, parsed where it is pasted, denotes
/// the same formula with exactly the references to the cut cell shifted by the move
fn move_oracle(tree: &MNode) -> Result<(), String> {
    let src_text = display(tree);
    let original = parse_at(&src_text, &context());
    if matches!(original, Node::ParseErrorKind { .. }) {
        return Ok(()); // outside the domain (the display text itself does not parse here)
    }
    let moved = moved_text(tree)?;
    let back = parse_at(&moved, &target_context());
    let want = resolve(&original, &context(), true);
    let got = resolve(&back, &target_context(), false);
    if want == got {
        Ok(())
    } else {
        Err(format!("`{src_text}` cut from J10 and pasted to L20 becomes `{moved}`"))
    }
}

thread_local! {
    static TABLE: (Vec<(String, String, bool)>, Vec<String>) = extract_table_with(&print_moved);
}

fn first_bad(n: &MNode) -> Option<(String, String)> {
    TABLE.with(|t| {
        fn search(n: &MNode, table: &[(String, String, bool)]) -> Option<(String, String)> {
            let kids: Vec<(Option<String>, &MNode)> = match n {
                MNode::Bin(c, _, a, b) => {
                    let o = OP_CLASSES[*c as usize];
                    vec![(Some(format!("binL.{o}")), a.as_ref()), (Some(format!("binR.{o}")), b.as_ref())]
                }
                MNode::Neg(a) => vec![(Some("neg".into()), a.as_ref())],
                MNode::Pct(a) => vec![(Some("pct".into()), a.as_ref())],
                MNode::Rng(a, b) => vec![(Some("rngL".into()), a.as_ref()), (Some("rngR".into()), b.as_ref())],
                MNode::At(a) => vec![(Some("at".into()), a.as_ref())],
                MNode::Spill(a) => vec![(Some("spill".into()), a.as_ref())],
                MNode::Call(_, args) => args.iter().flatten().map(|a| (None, a)).collect(),
                MNode::Lam(_, body) => vec![(None, body.as_ref())],
                MNode::LamCall(_, body, args) => {
                    let mut v: Vec<(Option<String>, &MNode)> = vec![(None, body.as_ref())];
                    v.extend(args.iter().flatten().map(|a| (None, a)));
                    v
                }
                _ => vec![],
            };
            for (slot, c) in kids {
                if let Some(s) = &slot {
                    let k = kind_name(c);
                    let wrapped = table.iter().find(|(ss, kk, _)| ss == s && *kk == k).map(|x| x.2).unwrap_or(false);
                    if kind_level(c) < slot_level(s) && !wrapped {
                        return Some((s.clone(), k));
                    }
                }
                if let Some(hit) = search(c, table) {
                    return Some(hit);
                }
            }
            None
        }
        search(n, &t.0)
    })
}

fn has(n: &MNode, f: &dyn Fn(&MNode) -> bool) -> bool {
    if f(n) {
        return true;
    }
    match n {
        MNode::Bin(_, _, a, b) | MNode::Rng(a, b) => has(a, f) || has(b, f),
        MNode::Neg(a) | MNode::Pct(a) | MNode::At(a) | MNode::Spill(a) => has(a, f),
        MNode::Call(_, args) => args.iter().flatten().any(|a| has(a, f)),
        MNode::Lam(_, b) => has(b, f),
        MNode::LamCall(_, b, args) => has(b, f) || args.iter().flatten().any(|a| has(a, f)),
        _ => false,
    }
}

fn classify(tree: &MNode) -> String {
    if let Some((slot, kind)) = first_bad(tree) {
        return format!("c16:paren:move:{slot}:{kind}");
    }
    if has(tree, &|n| matches!(n, MNode::Lit(7, _))) {
        return "c16:move-printer:array-literal".into();
    }
    if has(tree, &|n| matches!(n, MNode::Lam(ps, _) | MNode::LamCall(ps, _, _) if ps.iter().any(|p| p.1))) {
        return "c16:move-printer:optional-lambda-parameter".into();
    }
    if has(tree, &|n| matches!(n, MNode::Lit(2, a) if *a as usize % ERRS.len() == 7)) {
        return "c16:error-spelling:NIMPL".into();
    }
    "c16:move-printer:other".into()
}

fn gen_entries(_ctx: &Ctx, sink: &mut dyn FnMut(String)) {
    for slot in SLOTS {
        for (kind, reps) in kind_reps() {
            for child in &reps {
                for parent in parents(slot, child) {
                    sink(format!("c16 entry {slot} {kind} {}", encode(&parent)));
                }
            }
        }
    }
}

fn child_of(tree: &MNode, slot: &str) -> MNode {
    match (tree, slot) {
        (MNode::Bin(_, _, a, _), s) if s.starts_with("binL.") => a.as_ref().clone(),
        (MNode::Bin(_, _, _, b), _) => b.as_ref().clone(),
        (MNode::Neg(a), _) | (MNode::Pct(a), _) | (MNode::At(a), _) | (MNode::Spill(a), _) => a.as_ref().clone(),
        (MNode::Rng(a, _), "rngL") => a.as_ref().clone(),
        (MNode::Rng(_, b), _) => b.as_ref().clone(),
        _ => unreachable!(),
    }
}

fn eval_entry(req: &str) -> ImplOut {
    let f: Vec<&str> = req.split(' ').collect();
    let (slot, kind, tree) = (f[2], f[3], decode(f[4]).expect("tree"));
    let child = child_of(&tree, slot);
    let w = wrapped_in_with(&print_moved, &tree, &child, slot);
    let ans = match w {
        Some(true) => "wrapped",
        Some(false) => "bare",
        None => "neither",
    };
    let mut out = ImplOut::new(ans.to_string()).tag(&format!("entry:{ans}"));
    if let Err(e) = move_oracle(&tree) {
        let needs = kind_level(&child) < slot_level(slot);
        let sig = if needs && w != Some(true) { format!("c16:paren:move:{slot}:{kind}") } else { classify(&tree) };
        out = out.fail(&sig, &e);
    }
    if w.is_none() {
        out = out.fail(&format!("c16:paren:context-dependent:{slot}:{kind}"), &print_moved(&tree));
    }
    out
}

fn gen_deep(ctx: &Ctx, sink: &mut dyn FnMut(String)) {
    let mut rng = Rng::new(ctx.seed ^ 0xC16);
    let n = if ctx.tier == Tier::Quick { 3000 } else { 150_000 };
    for i in 0..n {
        let depth = 1 + (i % 6) as u32;
        let t = gen_tree(&mut rng, depth);
        sink(format!("c16 mv {}", encode(&t)));
    }
}

fn eval_deep(req: &str) -> ImplOut {
    let f: Vec<&str> = req.split(' ').collect();
    let tree = decode(f[2]).expect("tree");
    let en_loc = get_locale("en").unwrap();
    let en = get_language("en").unwrap();
    let moved = print_moved(&tree);
    let toks = model_tokens_plain(&moved, en_loc, en);
    let verdict = move_oracle(&tree);
    let mut out = ImplOut::new(format!("{}|{}", toks.unwrap_or_else(|| format!("<unmapped:{moved}>")), if verdict.is_ok() { "same" } else { "diff" }));
    out = out.tag(&format!("root:{}", kind_name(&tree)));
    if let Err(e) = verdict {
        out = out.fail(&classify(&tree), &e);
    }
    out
}

/// model tokens of A1 text produced by the move printer (names resolve without defined names)
fn model_tokens_plain(text: &str, locale: &ironcalc_base::locale::Locale, language: &ironcalc_base::language::Language) -> Option<String> {
    model_tokens(text, LexerMode::A1, locale, language, &TokenType::Comma)
}

// ------------------------------------------------------------------ cut/paste on a UserModel

fn clipboard_of(m: &UserModel) -> Result<(ClipboardData, u32, (i32, i32, i32, i32)), String> {
    let cb = m.copy_to_clipboard()?;
    let v = serde_json::to_value(&cb).map_err(|e| e.to_string())?;
    let data: ClipboardData = serde_json::from_value(v["data"].clone()).map_err(|e| e.to_string())?;
    let sheet = v["sheet"].as_u64().unwrap_or(0) as u32;
    let r = &v["range"];
    let range = (r[0].as_i64().unwrap() as i32, r[1].as_i64().unwrap() as i32, r[2].as_i64().unwrap() as i32, r[3].as_i64().unwrap() as i32);
    Ok((data, sheet, range))
}

fn gen_paste(ctx: &Ctx, sink: &mut dyn FnMut(String)) {
    let n = if ctx.tier == Tier::Quick { 250 } else { 15_000 };
    for i in 0..n {
        let seed = ctx.seed.wrapping_mul(7_000_003).wrapping_add(i);
        sink(format!("c16 paste {seed} {}", 6 + i % 25));
    }
}

fn cell_sig(m: &Model, sheet: u32, r: i32, c: i32) -> String {
    let content = m.get_localized_cell_content(sheet, r, c).unwrap_or_default();
    let value = match m.get_cell_value_by_index(sheet, r, c) {
        Ok(ironcalc_base::cell::CellValue::Number(f)) => format!("num:{:016x}", f.to_bits()),
        Ok(v) => format!("{v:?}"),
        Err(e) => format!("ERR:{e}"),
    };
    let style = m.get_style_for_cell(sheet, r, c).map(|s| format!("{s:?}")).unwrap_or_default();
    format!("content={content:?} value={value} style={style}")
}

fn eval_paste(req: &str) -> ImplOut {
    let f: Vec<&str> = req.split(' ').collect();
    let seed: u64 = f[2].parse().unwrap();
    let nops: usize = f[3].parse().unwrap();
    let mut rng = Rng::new(seed ^ 0xC16_9A57E);
    let mut m = wbgen::new_user_model();
    // build a sheet with values and formulas that reference in and around the source area
    let ops = wbgen::gen_history(seed, nops);
    for op in &ops {
        if matches!(op, wbgen::Op::Undo | wbgen::Op::Redo | wbgen::Op::NewSheet | wbgen::Op::RenameSheet { .. } | wbgen::Op::ArrayFormula { .. }) {
            continue;
        }
        let _ = wbgen::apply(&mut m, op);
    }
    // only formulas whose references are single cells or ranges entirely inside/outside the area
    // are judged (the property's own condition); use simple ones placed by us
    let r0 = rng.range(1, 4) as i32;
    let c0 = rng.range(1, 3) as i32;
    let h = rng.range(1, 2) as i32;
    let w = rng.range(1, 2) as i32;
    let is_cut = rng.chance(1, 2);
    let dr = rng.range(-2, 9) as i32;
    let dc = rng.range(-1, 5) as i32;
    let (tr, tc) = ((r0 + dr).max(1), (c0 + dc).max(1));
    // observers outside: formulas that point at each source cell
    let mut observers = vec![];
    for (k, (rr, cc)) in (r0..r0 + h).flat_map(|rr| (c0..c0 + w).map(move |cc| (rr, cc))).enumerate() {
        let orow = 15 + k as i32;
        let a1 = format!("{}{}", ironcalc_base::expressions::utils::number_to_column(cc).unwrap(), rr);
        let _ = m.set_user_input(0, orow, 8, &format!("={a1}"));
        let _ = m.set_user_input(0, orow, 9, &format!("=SUM(${a1}:{a1})"));
        let col = ironcalc_base::expressions::utils::number_to_column(cc).unwrap();
        let _ = m.set_user_input(0, orow, 10, &format!("=SUM({col}${rr}:{col}{rr})"));
        observers.push(orow);
    }
    m.evaluate();
    let mut out = ImplOut::new(String::new()).tag(if is_cut { "cut" } else { "copy" });
    if m.set_selected_sheet(0).is_err() || m.set_selected_cell(r0, c0).is_err() || m.set_selected_range(r0, c0, r0 + h - 1, c0 + w - 1).is_err() {
        out.ans = "select-failed".into();
        return out.trivial();
    }
    // source signatures (content/value/style) and the R1C1 form of source formulas
    let src: Vec<((i32, i32), String, Option<String>)> = (r0..r0 + h)
        .flat_map(|rr| (c0..c0 + w).map(move |cc| (rr, cc)))
        .map(|(rr, cc)| {
            let model = m.get_model();
            let rc = model.get_cell_formula(0, rr, cc).ok().flatten().map(|t| {
                let n = parse_at(t.trim_start_matches('='), &CellReferenceRC { sheet: "Sheet1".into(), row: rr, column: cc });
                ironcalc_base::expressions::parser::stringify::to_rc_format(&n)
            });
            ((rr, cc), cell_sig(model, 0, rr, cc), rc)
        })
        .collect();
    if std::env::var("VERIF_DEBUG").is_ok() {
        eprintln!("BEFORE:\n{}", wbgen::snapshot(m.get_model()));
    }
    // position-dependent formulas (implicit intersection) and cells that belong to array formulas
    // or spills are outside what the property promises cell by cell: such cases are not judged
    let single = |m: &UserModel, r: i32, c: i32| -> bool {
        m.get_cell_array_structure(0, r, c).ok().and_then(|x| serde_json::to_string(&x).ok()).map(|t| t.contains("SingleCell")).unwrap_or(false)
    };
    let mut judged = src.iter().all(|((rr, cc), _, _)| single(&m, *rr, *cc) && single(&m, tr + (rr - r0), tc + (cc - c0)));
    for ((rr, cc), _, _) in &src {
        if let Ok(Some(t)) = m.get_model().get_cell_formula(0, *rr, *cc) {
            if t.contains('@') || t.contains('#') || t.contains('{') || t.contains("SEQUENCE") {
                judged = false;
            }
        }
    }
    let obs_before: Vec<String> = observers.iter().map(|o| format!("{:?}|{:?}|{:?}", m.get_model().get_cell_value_by_index(0, *o, 8), m.get_model().get_cell_value_by_index(0, *o, 9), m.get_model().get_cell_value_by_index(0, *o, 10))).collect();
    let (data, sheet, range) = match clipboard_of(&m) {
        Ok(x) => x,
        Err(e) => {
            out.ans = format!("copy-failed:{e}");
            return out.trivial();
        }
    };
    if m.set_selected_cell(tr, tc).is_err() {
        out.ans = "select-target-failed".into();
        return out.trivial();
    }
    if let Err(e) = m.paste_from_clipboard(sheet, range, &data, is_cut) {
        out.ans = format!("paste-rejected:{}", e.split(' ').next().unwrap_or(""));
        return out.trivial();
    }
    m.evaluate();
    if std::env::var("VERIF_DEBUG").is_ok() {
        eprintln!("area r0={r0} c0={c0} h={h} w={w} cut={is_cut} target=({tr},{tc})\nAFTER:\n{}", wbgen::snapshot(m.get_model()));
    }
    // a moved formula that turns out to be a dynamic array at its new place is position dependent
    if !src.iter().all(|((rr, cc), _, _)| single(&m, tr + (rr - r0), tc + (cc - c0))) {
        judged = false;
    }
    out.ans = if judged { "pasted".into() } else { "pasted-not-judged".into() };
    if !judged {
        return out.trivial();
    }
    let overlap = tr < r0 + h && r0 < tr + h && tc < c0 + w && c0 < tc + w;
    let model = m.get_model();
    for ((rr, cc), sig, rc) in &src {
        let (nr, nc) = (tr + (rr - r0), tc + (cc - c0));
        let is_formula = rc.is_some();
        if is_cut {
            // pasted cells have the same contents/styles/values as the originals had — judged for
            // non-formula cells (formulas legitimately print differently at the new position)
            if !is_formula {
                let now = cell_sig(model, 0, nr, nc);
                if &now != sig {
                    out = out.fail("c16:cut:pasted-cell-differs", &format!("source {rr},{cc} `{sig}` pasted at {nr},{nc} is `{now}`"));
                }
            }
        } else if let Some(rc) = rc {
            // copy: the pasted formula is the source formula with relative refs shifted = same R1C1,
            // unless a relative reference left the grid (then #REF!)
            if let Ok(Some(t)) = model.get_cell_formula(0, nr, nc) {
                let n = parse_at(t.trim_start_matches('='), &CellReferenceRC { sheet: "Sheet1".into(), row: nr, column: nc });
                let now = ironcalc_base::expressions::parser::stringify::to_rc_format(&n);
                if &now != rc && !t.contains("#REF!") && !(overlap) {
                    out = out.fail("c16:copy:formula-not-translated", &format!("source {rr},{cc} R1C1 `{rc}` pasted at {nr},{nc} is `{now}` ({t})"));
                }
            }
        }
    }
    if is_cut && !overlap {
        // every reference to a cut cell now points at the moved location: observers keep values
        let obs_after: Vec<String> = observers.iter().map(|o| format!("{:?}|{:?}|{:?}", model.get_cell_value_by_index(0, *o, 8), model.get_cell_value_by_index(0, *o, 9), model.get_cell_value_by_index(0, *o, 10))).collect();
        // observers must not themselves be overwritten by the paste
        let hit = observers.iter().any(|o| *o >= tr && *o < tr + h && (8 >= tc && 8 < tc + w || 9 >= tc && 9 < tc + w || 10 >= tc && 10 < tc + w));
        // a cut cell that sat on a dependency cycle (e.g. =SUM(C:C) inside column C) is position dependent
        // (before the move), and a moved formula that lands inside one of its own ranges (=SUM(2:2)
        // moved into row 2) is on a cycle afterwards: values are then position dependent, and only
        // the observers' formula TEXTS are judged (they must name the new location)
        let circular = obs_before.iter().any(|v| v.contains("#CIRC!")) || obs_after.iter().any(|v| v.contains("#CIRC!"));
        if !hit {
            for (k, (rr, cc)) in (r0..r0 + h).flat_map(|rr| (c0..c0 + w).map(move |cc| (rr, cc))).enumerate() {
                let (nr, nc) = (tr + (rr - r0), tc + (cc - c0));
                let col = ironcalc_base::expressions::utils::number_to_column(nc).unwrap();
                let want = [format!("={col}{nr}"), format!("=SUM(${col}{nr}:{col}{nr})"), format!("=SUM({col}${nr}:{col}{nr})")];
                for (j, w_) in want.iter().enumerate() {
                    let got = model.get_cell_formula(0, observers[k], 8 + j as i32).ok().flatten().unwrap_or_default();
                    if &got != w_ {
                        out = out.fail("c16:cut:observer-formula", &format!("observer of {rr},{cc} (moved to {nr},{nc}) reads `{got}`, expected `{w_}`"));
                    }
                }
            }
        }
        // values: an observer of a moved CONSTANT keeps its value; a moved FORMULA may legitimately compute
        // something else at its new place (its own references to cells outside the cut area stay put, and
        // the block may have been moved into or out of a range it reads, e.g. =SUM(C:C) with a moved value
        // landing in column C): its observers must show whatever the moved cell shows now
        if !hit && !circular {
            for (k, ((rr, cc), _, rc)) in src.iter().enumerate() {
                let (nr, nc) = (tr + (rr - r0), tc + (cc - c0));
                if rc.is_none() {
                    if obs_before[k] != obs_after[k] {
                        out = out.fail("c16:cut:observer-value-changed", &format!("formulas pointing at the cut constant {rr},{cc} changed value: {} → {}", obs_before[k], obs_after[k]));
                    }
                } else {
                    // SUM(-0) is +0: the sign of zero is not compared
                    let now = format!("{:?}", model.get_cell_value_by_index(0, nr, nc)).replace("Number(-0.0)", "Number(0.0)");
                    let want = format!("{now}|{now}|{now}");
                    // SUM of a text/boolean/empty result is 0: only the direct observer is comparable then
                    let after_k = obs_after[k].replace("Number(-0.0)", "Number(0.0)");
                    let direct = after_k.split('|').next().unwrap_or("").to_string();
                    if direct != now || (now.contains("Number") && after_k != want) {
                        out = out.fail("c16:cut:observer-differs-from-moved-cell", &format!("moved formula {rr},{cc} → {nr},{nc} shows {now}, its observers show {}", obs_after[k]));
                    }
                }
            }
        }
    }
    out
}

pub fn suites() -> Vec<Suite> {
    vec![
        Suite {
            name: "c16-entries",
            rule: "every (slot, child kind, variant) two-level tree through the cut/paste printer (Model::move_cell_value_to_area, cut cell J10 → L20), re-parsed at the target cell; answer = whether the child came out parenthesised; oracle = same formula with exactly the references to the cut cell shifted; non-trivial = every entry",
            modelled: true,
            gen: gen_entries,
            eval: eval_entry,
            exhaustive: always,
        },
        Suite {
            name: "c16-deep",
            rule: "random well-formed trees (depth 1..6, all node kinds) through the cut/paste printer: real lexer tokens of the moved text vs the model's tokens for the extracted move table, and the move oracle; non-trivial = distinct trees",
            modelled: true,
            gen: gen_deep,
            eval: eval_deep,
            exhaustive: never,
        },
        Suite {
            name: "c16-paste",
            rule: "random sheets (shared history generator) + a random source area (1..2 × 1..2), target offset and cut/copy flag through UserModel::copy_to_clipboard / paste_from_clipboard; oracle = pasted non-formula cells equal the originals (cut), copied formulas keep their R1C1 form, formulas pointing at cut cells name the new location, keep their values when the cut cell is a constant and show the moved cell's value when it is a formula; non-trivial = the paste was applied",
            modelled: false,
            gen: gen_paste,
            eval: eval_paste,
            exhaustive: never,
        },
    ]
}
