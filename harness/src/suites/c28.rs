//! C28 — the selection always points at an existing sheet and cell.
//!
//!  * `c28-hist` (modelled): random histories over `set_selected_sheet/cell/range`, arrow keys,
//!    `on_area_selecting`, `new_sheet`, `duplicate_sheet`, `delete_sheet`, `hide_sheet`, `unhide_sheet`,
//!    `move_sheet`, `undo`, `redo` on a real `UserModel`; after every step the selected sheet, the number
//!    of sheets, the visibility flags and the selected sheet's (row, column, range) are compared with the
//!    Lean model (`IronCalc/User/Selection.lean`), and the invariant is evaluated on the real workbook.
//!  * `c28-nav` (oracle only): the same plus page up/down, navigate-to-edge, keyboard range expansion,
//!    scrolling, window sizes, hidden rows/columns and cell edits, with unchecked arguments.
//!
//! One request = one whole history (`c28 hist <cmd>;<cmd>;…`), so every case replays alone.
use crate::prng::Rng;
use crate::run::{never, Ctx, ImplOut, Suite, Tier};
use ironcalc_base::worksheet::NavigationDirection;
use ironcalc_base::UserModel;
use std::panic::{catch_unwind, AssertUnwindSafe};

const LAST_ROW: i32 = 1_048_576;
const LAST_COLUMN: i32 = 16_384;

fn ints(s: &str) -> Vec<i64> {
    s.split(',').filter(|x| !x.is_empty()).map(|x| x.parse::<i64>().unwrap_or(0)).collect()
}

/// apply one command; returns the name of the API call (for signatures)
fn apply(um: &mut UserModel, cmd: &str) -> &'static str {
    let (op, rest) = cmd.split_at(2.min(cmd.len()));
    // a leading `S` stands for the index of the currently selected sheet
    let rest = match rest.strip_prefix('S') {
        Some(tail) => format!("{}{tail}", um.get_selected_sheet()),
        None => rest.to_string(),
    };
    let a = ints(&rest);
    let g = |i: usize| a.get(i).copied().unwrap_or(0);
    match op {
        "ss" => { let _ = um.set_selected_sheet(g(0) as u32); "set_selected_sheet" }
        "sc" => { let _ = um.set_selected_cell(g(0) as i32, g(1) as i32); "set_selected_cell" }
        "sr" => { let _ = um.set_selected_range(g(0) as i32, g(1) as i32, g(2) as i32, g(3) as i32); "set_selected_range" }
        "aR" => { let _ = um.on_arrow_right(); "on_arrow_right" }
        "aL" => { let _ = um.on_arrow_left(); "on_arrow_left" }
        "aU" => { let _ = um.on_arrow_up(); "on_arrow_up" }
        "aD" => { let _ = um.on_arrow_down(); "on_arrow_down" }
        "ar" => { let _ = um.on_area_selecting(g(0) as i32, g(1) as i32); "on_area_selecting" }
        "ns" => { let _ = um.new_sheet(); "new_sheet" }
        "du" => { let _ = um.duplicate_sheet(g(0) as u32); "duplicate_sheet" }
        "de" => { let _ = um.delete_sheet(g(0) as u32); "delete_sheet" }
        "hi" => { let _ = um.hide_sheet(g(0) as u32); "hide_sheet" }
        "uh" => { let _ = um.unhide_sheet(g(0) as u32); "unhide_sheet" }
        "mv" => { let _ = um.move_sheet(g(0) as u32, g(1) as u32); "move_sheet" }
        "un" => { let _ = um.undo(); "undo" }
        "re" => { let _ = um.redo(); "redo" }
        // ---- navigation, scrolling, hidden rows / columns, typing
        "pd" => { let _ = um.on_page_down(); "on_page_down" }
        "pu" => { let _ = um.on_page_up(); "on_page_up" }
        "eL" => { let _ = um.on_navigate_to_edge_in_direction(NavigationDirection::Left); "on_navigate_to_edge_in_direction" }
        "eR" => { let _ = um.on_navigate_to_edge_in_direction(NavigationDirection::Right); "on_navigate_to_edge_in_direction" }
        "eU" => { let _ = um.on_navigate_to_edge_in_direction(NavigationDirection::Up); "on_navigate_to_edge_in_direction" }
        "eD" => { let _ = um.on_navigate_to_edge_in_direction(NavigationDirection::Down); "on_navigate_to_edge_in_direction" }
        "xR" => { let _ = um.on_expand_selected_range("ArrowRight"); "on_expand_selected_range" }
        "xL" => { let _ = um.on_expand_selected_range("ArrowLeft"); "on_expand_selected_range" }
        "xU" => { let _ = um.on_expand_selected_range("ArrowUp"); "on_expand_selected_range" }
        "xD" => { let _ = um.on_expand_selected_range("ArrowDown"); "on_expand_selected_range" }
        "tl" => { let _ = um.set_top_left_visible_cell(g(0) as i32, g(1) as i32); "set_top_left_visible_cell" }
        "ww" => { um.set_window_width(g(0) as f64); "set_window_width" }
        "wh" => { um.set_window_height(g(0) as f64); "set_window_height" }
        "hr" => { let _ = um.set_rows_hidden(g(0) as u32, g(1) as i32, g(2) as i32, g(3) != 0); "set_rows_hidden" }
        "hc" => { let _ = um.set_columns_hidden(g(0) as u32, g(1) as i32, g(2) as i32, g(3) != 0); "set_columns_hidden" }
        "in" => {
            // typing into a hidden row also resizes it (outside the model): skipped on both sides
            let hidden = um
                .get_model()
                .workbook
                .worksheets
                .get(g(0) as usize)
                .map(|w| w.is_row_hidden(g(1) as i32).unwrap_or(false))
                .unwrap_or(false);
            if !hidden {
                let _ = um.set_user_input(g(0) as u32, g(1) as i32, g(2) as i32, "7");
            }
            "set_user_input"
        }
        _ => "unknown",
    }
}

fn selected_name(um: &UserModel) -> Option<String> {
    let sel = um.get_selected_sheet() as usize;
    um.get_model().workbook.worksheets.get(sel).map(|w| w.name.clone())
}

/// the invariant on the real workbook; returns (kind, detail) of every broken clause
fn invariant(um: &UserModel) -> Vec<(&'static str, String)> {
    let mut out = vec![];
    let wb = &um.get_model().workbook;
    let n = wb.worksheets.len();
    let sel = um.get_selected_sheet() as usize;
    if sel >= n {
        out.push(("selected-sheet-missing", format!("selected sheet index {sel} with {n} sheet(s)")));
    }
    for (i, ws) in wb.worksheets.iter().enumerate() {
        if let Some(v) = ws.views.get(&0) {
            let [r1, c1, r2, c2] = v.range;
            let in_row = |r: i32| (1..=LAST_ROW).contains(&r);
            let in_col = |c: i32| (1..=LAST_COLUMN).contains(&c);
            if !in_row(v.row) || !in_col(v.column) {
                out.push(("cell-outside-grid", format!("sheet {i}: selected cell ({}, {})", v.row, v.column)));
            }
            if !in_row(r1) || !in_row(r2) || !in_col(c1) || !in_col(c2) {
                out.push(("range-outside-grid", format!("sheet {i}: selected range {:?}", v.range)));
            }
            if v.row < r1.min(r2) || v.row > r1.max(r2) || v.column < c1.min(c2) || v.column > c1.max(c2) {
                out.push(("cell-outside-range", format!("sheet {i}: cell ({}, {}) range {:?}", v.row, v.column, v.range)));
            }
        }
    }
    out
}

fn summary(um: &UserModel) -> String {
    let wb = &um.get_model().workbook;
    let sel = um.get_selected_sheet() as usize;
    let vis: String = um
        .get_worksheets_properties()
        .iter()
        .map(|p| if p.state == "visible" { '1' } else { '0' })
        .collect();
    let view = match wb.worksheets.get(sel).and_then(|w| w.views.get(&0)) {
        Some(v) => format!("{},{},{},{},{},{}@{},{}", v.row, v.column, v.range[0], v.range[1], v.range[2], v.range[3], v.top_row, v.left_column),
        None => "-".to_string(),
    };
    // get_selected_view must agree with the workbook (it falls back to a default when the sheet is missing)
    format!("{sel}/{}/{vis}/{view}", wb.worksheets.len())
}

fn eval(req: &str) -> ImplOut {
    let f: Vec<&str> = req.split(' ').collect();
    let cmds: Vec<&str> = f.get(2).map(|s| s.split(';').filter(|c| !c.is_empty()).collect()).unwrap_or_default();
    let r = catch_unwind(AssertUnwindSafe(|| {
        let mut um = UserModel::new_empty("c28", "en", "UTC", "en").expect("model");
        let mut states: Vec<String> = vec![];
        let mut fails: Vec<(String, String)> = vec![];
        let mut tags: Vec<String> = vec![];
        let mut was_ok = true;
        for (k, cmd) in cmds.iter().enumerate() {
            let before_name = selected_name(&um);
            let before_n = um.get_model().workbook.worksheets.len();
            let before_sel = um.get_selected_sheet();
            let call = apply(&mut um, cmd);
            tags.push(format!("op:{call}"));
            states.push(summary(&um));
            let broken = invariant(&um);
            if was_ok {
                for (kind, detail) in &broken {
                    fails.push((format!("c28:{kind}:{call}"), format!("step {k} `{cmd}`: {detail}")));
                }
                // the selection follows the selected sheet by identity across a move / deletion of another sheet
                let follows = match &cmd[..2.min(cmd.len())] {
                    "mv" => true,
                    "de" => ints(&cmd[2..]).first().map(|d| *d as u32 != before_sel).unwrap_or(false)
                        && um.get_model().workbook.worksheets.len() < before_n,
                    _ => false,
                };
                if follows && broken.is_empty() && selected_name(&um) != before_name {
                    fails.push((format!("c28:selection-not-followed:{call}"), format!("step {k} `{cmd}`: selected sheet was {before_name:?}, now {:?}", selected_name(&um))));
                }
                // the public getters agree with the workbook
                let v = um.get_selected_view();
                if broken.is_empty() {
                    let s = format!("{}/{},{},{},{},{},{}@{},{}", v.sheet, v.row, v.column, v.range[0], v.range[1], v.range[2], v.range[3], v.top_row, v.left_column);
                    let st = states.last().unwrap();
                    let parts: Vec<&str> = st.split('/').collect();
                    if format!("{}/{}", parts[0], parts[3]) != s {
                        fails.push((format!("c28:getter-disagrees:{call}"), format!("step {k}: get_selected_view = {s}, workbook = {st}")));
                    }
                }
            }
            // report the first broken step only: later steps inherit it
            if !broken.is_empty() {
                was_ok = false;
            }
        }
        (states.join("|"), fails, tags)
    }));
    match r {
        Ok((ans, fails, tags)) => {
            let mut out = ImplOut::new(ans);
            out.oracle = fails;
            out.tags = tags;
            out
        }
        Err(_) => ImplOut::new("panic".into()).fail("c28:panic", "a selection operation panicked"),
    }
}

// ───────────────────────────── generators ─────────────────────────────

fn small_idx(rng: &mut Rng, n: usize) -> u64 {
    // mostly valid, sometimes one past the end or far
    match rng.below(12) {
        0 => n as u64,
        1 => n as u64 + 1 + rng.below(3),
        _ => rng.below(n.max(1) as u64),
    }
}

fn coord(rng: &mut Rng, last: i32, wild: bool) -> i64 {
    match rng.below(if wild { 14 } else { 10 }) {
        0 => 1,
        1 => last as i64,
        2 => last as i64 - rng.below(3) as i64,
        3..=9 => 1 + rng.below(12) as i64,
        10 => 0,
        11 => -(rng.below(5) as i64),
        12 => last as i64 + 1 + rng.below(3) as i64,
        _ => rng.below(2000) as i64,
    }
}

/// a coordinate near where things happen: the edges of the grid, recently used coordinates, small values
fn near(rng: &mut Rng, last: i32, recent: &[i64]) -> i64 {
    match rng.below(10) {
        0 => 1,
        1 => 2 + rng.below(3) as i64,
        2 => last as i64,
        3 => last as i64 - 1 - rng.below(4) as i64,
        4 | 5 if !recent.is_empty() => (*rng.pick(recent) + rng.range(-2, 2)).clamp(1, last as i64),
        _ => 1 + rng.below(14) as i64,
    }
}

fn gen_history(rng: &mut Rng, len: usize, nav: bool) -> String {
    // the generator tracks the number of sheets only approximately (enough to aim indices), and
    // remembers the coordinates it used so that hidden bands and scroll positions land near the selection
    let mut n: usize = 1;
    let mut cmds: Vec<String> = vec![];
    let mut rows: Vec<i64> = vec![1];
    let mut cols: Vec<i64> = vec![1];
    for _ in 0..len {
        let k = rng.below(if nav { 40 } else { 22 });
        let c = match k {
            0 | 1 => { let i = small_idx(rng, n); format!("ss{i}") }
            2 | 3 => {
                let (r, c) = if nav { (near(rng, LAST_ROW, &rows), near(rng, LAST_COLUMN, &cols)) } else { (coord(rng, LAST_ROW, true), coord(rng, LAST_COLUMN, true)) };
                rows.push(r); cols.push(c);
                format!("sc{r},{c}")
            }
            4 => {
                // a range around the (unknown) selected cell: often the cell itself as one corner
                let (r, c) = (coord(rng, LAST_ROW, false), coord(rng, LAST_COLUMN, false));
                rows.push(r); cols.push(c);
                let cmdc = format!("sc{r},{c}");
                cmds.push(cmdc);
                let (r2, c2) = (coord(rng, LAST_ROW, nav), coord(rng, LAST_COLUMN, nav));
                if rng.chance(1, 2) { format!("sr{r},{c},{r2},{c2}") } else { format!("sr{r2},{c2},{r},{c}") }
            }
            5 => format!("sr{},{},{},{}", coord(rng, LAST_ROW, true), coord(rng, LAST_COLUMN, true), coord(rng, LAST_ROW, true), coord(rng, LAST_COLUMN, true)),
            6 => rng.pick(&["aR", "aL", "aU", "aD"]).to_string(),
            7 => rng.pick(&["aR", "aL", "aU", "aD"]).to_string(),
            8 => {
                if nav { format!("ar{},{}", coord(rng, 3000, true), coord(rng, 3000, true)) }
                else { format!("ar{},{}", 1 + rng.below(40), 1 + rng.below(30)) }
            }
            9 | 10 => { n += 1; "ns".to_string() }
            11 => { let i = small_idx(rng, n); if (i as usize) < n { n += 1; } format!("du{i}") }
            12 | 13 | 14 => {
                let i = small_idx(rng, n);
                if n <= 1 { "ns".to_string() } else { if (i as usize) < n { n -= 1; } format!("de{i}") }
            }
            15 => format!("hi{}", small_idx(rng, n)),
            16 => format!("uh{}", small_idx(rng, n)),
            17 | 18 => format!("mv{},{}", small_idx(rng, n), small_idx(rng, n)),
            19 => "un".to_string(),
            20 => {
                // undo, move the selection (not a history entry), redo
                cmds.push("un".to_string());
                cmds.push(format!("ss{}", small_idx(rng, n + 1)));
                "re".to_string()
            }
            21 => "re".to_string(),
            22 | 23 => rng.pick(&["pd", "pu"]).to_string(),
            24 | 25 => rng.pick(&["eL", "eR", "eU", "eD"]).to_string(),
            26 | 27 | 28 => rng.pick(&["xL", "xR", "xU", "xD"]).to_string(),
            29 => {
                let (r, c) = if rng.chance(1, 6) { (coord(rng, LAST_ROW, true), coord(rng, LAST_COLUMN, true)) } else { (near(rng, LAST_ROW, &rows), near(rng, LAST_COLUMN, &cols)) };
                format!("tl{r},{c}")
            }
            30 => {
                // incl. exact multiples of the row height / column width (the `>` vs `>=` boundaries of the scroll tests)
                let v = match rng.below(10) { 0 => 0, 1 => 1, 2 => 24 + rng.below(3) as i64, 3 => 89 + rng.below(3) as i64, 4 => -1, 5 => 50 + rng.below(200) as i64, 6 => 25 * (1 + rng.below(8) as i64), 7 => 90 * (1 + rng.below(5) as i64), _ => 100 + rng.below(2000) as i64 };
                if rng.chance(1, 2) { format!("ww{v}") } else { format!("wh{v}") }
            }
            31 | 32 | 33 | 34 | 35 | 36 => {
                // hide / unhide a band: at an edge of the grid (first / last rows), around a recent
                // coordinate (so that everything up to the edge, or the selected cell itself, is hidden), or anywhere small
                let rows_axis = rng.chance(1, 2);
                let last = if rows_axis { LAST_ROW } else { LAST_COLUMN } as i64;
                let recent = if rows_axis { &rows } else { &cols };
                let (a, b) = match rng.below(8) {
                    0 => (1, 1 + rng.below(5) as i64),
                    1 => (last - rng.below(5) as i64, last),
                    2 => (1, (*rng.pick(recent)).clamp(1, 12)),
                    3 => { let x = (*rng.pick(recent)).clamp(1, last); (x, (x + rng.below(4) as i64).min(last)) }
                    4 => { let x = (*rng.pick(recent)).clamp(1, last); ((x - rng.below(4) as i64).max(1), x) }
                    5 => { let x = (*rng.pick(recent)).clamp(1, last); ((x + 1).min(last), last.min(x + 1 + rng.below(3) as i64)) }
                    6 => (coord(rng, last as i32, true), coord(rng, last as i32, true)),
                    _ => { let x = 1 + rng.below(10) as i64; (x, x + rng.below(4) as i64) }
                };
                // keep the band short: the engine hides row by row
                let b = if b - a > 12 { a + 12 } else { b };
                let sheet = if rng.chance(5, 6) { "S".to_string() } else { format!("{}", small_idx(rng, n)) };
                let flag = if rng.chance(3, 4) { 1 } else { 0 };
                format!("{}{sheet},{a},{b},{flag}", if rows_axis { "hr" } else { "hc" })
            }
            _ => {
                let sheet = if rng.chance(5, 6) { "S".to_string() } else { format!("{}", small_idx(rng, n)) };
                let (r, c) = (near(rng, LAST_ROW, &rows), near(rng, LAST_COLUMN, &cols));
                rows.push(r); cols.push(c);
                format!("in{sheet},{r},{c}")
            }
        };
        // undo/redo change the sheet count behind the generator's back: re-synchronise loosely
        if c == "un" || c == "re" {
            n = n.max(1);
        }
        cmds.push(c);
    }
    cmds.join(";")
}

fn corpus() -> Vec<&'static str> {
    vec![
        // F28a: 3 sheets, sheet 2 selected, sheet 0 deleted
        "ns;ns;ss2;de0",
        "ns;ns;ss2;de0;aR",
        "ns;ns;ss2;de1",
        "ns;ss1;de0",
        // undo / redo of the deletion and of new sheets
        "ns;ns;ss2;de0;un;re",
        "ns;ss1;de0;un;re;un;re",
        "ns;ns;de2;un;re",
        "ns;un;re;un",
        "ns;ns;ss0;un;un;re;re",
        "ns;du0;un;re;un",
        "ns;ns;mv0,2;un;re;mv2,0;un",
        "ns;ns;ss1;mv1,0;mv0,2;un;un;re;re",
        "ns;ns;hi0;hi1;hi2;uh1;ss1;hi1",
        "ns;ns;ss1;hi1;un;re",
        "de0;un;re",
        // the selection is moved between an undo and the redo
        "ns;de0;un;ss1;re",
        "ns;ns;de0;un;ss2;re;aR",
        "ns;ns;ss0;de1;un;ss2;re",
        "ns;un;re;ss0;un",
        "ns;du1;un;ss1;re;un",
        // cell / range
        "sc5,5;sr1,1,5,5;ar1,1",
        "sc5,5;sr5,5,9,9;ar2,2;aL;aU",
        "sc1,1;aL;aU;sc1048576,16384;aR;aD",
        "sr1,1,1048576,3;sr1,1,1048576,1;sc4,4;sr1,4,1048576,9;sr4,1,8,16384",
        "sc3,3;sr3,3,0,0;sr3,3,1048577,3;sc0,1;sc1,16385",
    ]
}

fn gen_hist(ctx: &Ctx, sink: &mut dyn FnMut(String)) {
    for c in corpus() {
        sink(format!("c28 hist {c}"));
    }
    let mut rng = Rng::new(ctx.seed ^ 0xC28);
    let n = if ctx.tier == Tier::Thorough { 50_000 } else { 1_500 };
    for _ in 0..n {
        let len = 2 + rng.below(24) as usize;
        sink(format!("c28 hist {}", gen_history(&mut rng, len, false)));
    }
}

fn nav_corpus() -> Vec<&'static str> {
    vec![
        // F28d / F28e (page up / down used to leave the grid)
        "tl5,1;sc2,1;pu",
        "sc30,1;tl1,1;wh100;pd;pd",
        "wh100;tl1048570,1;sc1048576,1;pd",
        "tl1048570,1;sc1048576,1;pd",
        "sc40,3;pd;pd;pu;pu;pu",
        // F28b / F28c
        "sc5,5;ar0,0",
        "sc5,5;ar-3,2;aU;aR;tl1,1;aR",
        "sc5,5;ar3000,3;ar2,3000;ar1048577,1;ar1,16385",
        "ww200;wh100;sc2,2;ar30,30;ar3,3;ar40,2",
        // hidden bands: first / last rows and columns, everything up to the edge, the selected cell itself
        "hcS,2,4,1;aR;aR;aL;xR;xR;xL",
        "hrS,2,4,1;aD;aD;aU;xD;xU;eD;eU",
        "hrS,1,3,1;aU;aU;sc4,1;aU;xU;pu",
        "hcS,1,3,1;aL;sc1,4;aL;xL;eL",
        "hrS,1048574,1048576,1;sc1048573,1;aD;xD;eD;pd",
        "hcS,16382,16384,1;sc1,16381;aR;xR;eR",
        "sc5,5;hrS,5,5,1;aD;aU;hrS,1,4,1;aU;hrS,1,4,0;aU",
        "sc1048576,16384;hrS,1048576,1048576,1;hcS,16384,16384,1;aL;aU",
        "hrS,1,12,1;hrS,13,20,1;sc30,1;pu;pu;aU;aU",
        "hrS,3,1,1;hrS,0,5,1;hrS,5,1048577,1;hc7,1,2,1;hcS,2,2,1;un;re;un",
        "hrS,2,3,1;un;aD;re;aD;un;un",
        "ns;hr0,2,3,1;ss0;aD;hcS,1,1,1",
        // window sizes
        "ww0;aR;aR;wh0;aD;aD;pd;pu",
        "ww-1;wh-1;aR;aD;pd;ar3,3",
        "ww90;wh25;aR;aR;aD;aD;eR;eD",
        "wh24;pd;pd;pu;wh26;pd;pd;pu;pu",
        // edge navigation over filled cells
        "inS,3,3;inS,3,7;eR;eR;eR;eL;eL;eD;eU",
        "inS,1,1;inS,1,2;inS,1,3;inS,1,5;eR;eR;eR;eL;eL;eL",
        "inS,5,2;inS,6,2;inS,8,2;sc5,2;eD;eD;eD;eU;eU;eU;un;eD",
        "sc1,1;eL;eU;eR;eD;eR;eD;eL;eU",
        "ww300;inS,2,40;eR;eR;eL;wh100;inS,90,1;eD;eD;eU",
        "hrS,4,6,1;inS,3,1;inS,7,1;sc3,1;eD;eU",
        // range expansion
        "sc5,5;xR;xR;xD;xD;xL;xL;xL;xU;xU;xU",
        "sc1,1;xL;xU;sc1048576,16384;xR;xD;sc1048575,16383;xD;xR",
        "sr1,1,1048576,1;xD;xU;xR;xR;xL;sc2,2;sr2,1,2,16384;xR;xD;xD;xU",
        "ww100;wh60;sc2,2;xR;xR;xR;xD;xD;xD;tl9,9;xL;xL;xL;xL;xU;xU;xU;xU",
        "sc5,5;ar0,0;xR;xL;xU;xD",
        // window an exact multiple of the row height / column width
        "wh100;xD;xD;xD;xD;xD;aD;aD;aD;aD;pd;pu",
        "ww270;xR;xR;xR;xR;aR;aR;aR;aR;eR;eL",
        "wh75;ww180;sc1,1;ar3,2;ar4,3;ar5,4;inS,9,9;eD;eR",
    ]
}

fn gen_nav(ctx: &Ctx, sink: &mut dyn FnMut(String)) {
    for c in nav_corpus() {
        sink(format!("c28 nav {c}"));
    }
    let mut rng = Rng::new(ctx.seed ^ 0xA28);
    let n = if ctx.tier == Tier::Thorough { 30_000 } else { 1_500 };
    for _ in 0..n {
        let len = 2 + rng.below(24) as usize;
        sink(format!("c28 nav {}", gen_history(&mut rng, len, true)));
    }
}

pub fn suites() -> Vec<Suite> {
    vec![
        Suite {
            name: "c28-hist",
            rule: "a regression corpus (F28a witness, undo/redo of sheet deletion/creation/duplication/move, hide/unhide, range edge cases) then random histories of 2..25 steps over set_selected_sheet/cell/range, the four arrow keys, on_area_selecting (in-grid targets), new/duplicate/delete/hide/unhide/move sheet (indices mostly valid, sometimes one past the end or beyond), undo, redo on a fresh real UserModel; after EVERY step: selected sheet, sheet count, visibility flags, selected sheet's (row, column, range, top_row, left_column) vs the Lean model; oracle = the invariant on the real workbook (selected < sheets, every sheet's cell in grid, range in grid, cell in range), the selection following the same sheet across move/delete, get_selected_view agreeing with the workbook; non-trivial = every history (distinct requests)",
            modelled: true,
            gen: gen_hist,
            eval,
            exhaustive: never,
        },
        Suite {
            name: "c28-nav",
            rule: "modelled: a corpus (page up/down at both ends of the grid, on_area_selecting with targets 0 / negative / beyond the grid, hidden bands at the first and last rows and columns, around and on the selected cell, everything hidden up to the edge, degenerate and out-of-grid bands, window sizes 0 / negative / one row / one column, edge navigation over filled cells, keyboard range expansion in all four directions incl. full-row / full-column ranges) then random histories of 2..25 steps over all c28-hist commands plus page up/down, navigate-to-edge, keyboard range expansion, set_top_left_visible_cell, window width/height, set_rows_hidden / set_columns_hidden (bands aimed at the grid edges and at recently used coordinates, on the selected or another sheet, hide and unhide), set_user_input; after EVERY step the selected sheet, sheet count, visibility flags and the selected sheet's (row, column, range, top_row, left_column) are compared with the Lean model; oracle as in c28-hist",
            modelled: true,
            gen: gen_nav,
            eval,
            exhaustive: never,
        },
    ]
}
