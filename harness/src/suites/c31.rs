//! C31 — dynamic-array spills are exact and never stale.
//!  * `c31-hist` : editing histories on a real `Model` (place / overwrite / delete dynamic-array
//!                 formulas whose result size depends on cells and on other spills, block and
//!                 unblock their areas, out-of-grid anchors) with an `evaluate` every few edits;
//!                 after every evaluate the cell-kind structure of the sheet is compared with the
//!                 Lean driver (Eval/Spill.lean), and the oracle checks on the implementation:
//!                 the spill invariant, exactness of every spilled block, #SPILL! iff blocked or
//!                 out of grid.
//!  * `c31-user` : `UserModel` histories with undo/redo, row insertion/deletion and range clears;
//!                 invariant + exactness oracle only.
//!
//! Request: `c31 hist <ops>` (see lean/Driver/C31.lean); edit ops carry a 4th field (hex formula
//! text or value) that the driver ignores. `c31 user <ops>`: the same edit ops plus `U` undo,
//! `Y` redo, `IR.<row>` insert row, `DR.<row>` delete row, `C.<r>.<c>.<h>.<w>` clear range; every
//! op is followed by the model's own evaluation.
use crate::prng::Rng;
use crate::proto::{hex, unhex};
use crate::run::{never, Ctx, ImplOut, Suite, Tier};
use crate::suites::c05::col_name;
use ironcalc_base::cell::CellValue;
use ironcalc_base::expressions::token::Error;
use ironcalc_base::expressions::types::Area;
use ironcalc_base::types::{ArrayKind, Cell, FormulaValue};
use ironcalc_base::{Model, UserModel};
use std::collections::BTreeMap;

const LAST_ROW: i32 = 1_048_576;
const LAST_COLUMN: i32 = 16_384;

fn a1(r: i32, c: i32) -> String {
    format!("{}{}", col_name(c), r)
}

// ---------- reading the implementation ----------

fn sorted_cells(m: &Model) -> Vec<((i32, i32), Cell)> {
    let mut out = vec![];
    for (r, row) in &m.workbook.worksheets[0].sheet_data {
        for (c, cell) in row {
            out.push(((*r, *c), cell.clone()));
        }
    }
    out.sort_by_key(|x| x.0);
    out
}

fn dump(m: &Model) -> String {
    let mut parts = vec![];
    for ((r, c), cell) in sorted_cells(m) {
        let k = match cell {
            Cell::EmptyCell { .. } => continue,
            Cell::CellFormula { .. } => "f".to_string(),
            Cell::ArrayFormula { r: (w, h), kind: ArrayKind::Dynamic, .. } => format!("a{w}x{h}"),
            Cell::ArrayFormula { r: (w, h), kind: ArrayKind::Cse, .. } => format!("c{w}x{h}"),
            Cell::SpillCell { a, .. } => format!("s{},{}", a.0, a.1),
            _ => "p".to_string(),
        };
        parts.push(format!("{r},{c}={k}"));
    }
    parts.join("_")
}

fn cell_at<'a>(m: &'a Model<'_>, r: i32, c: i32) -> Option<&'a Cell> {
    m.workbook.worksheets[0].sheet_data.get(&r)?.get(&c)
}

/// the spill invariant, checked on the real sheet
fn check_invariant(m: &Model, fails: &mut Vec<(String, String)>) {
    for ((r, c), cell) in sorted_cells(m) {
        match cell {
            Cell::SpillCell { a, .. } => match cell_at(m, a.0, a.1) {
                Some(Cell::ArrayFormula { r: (w, h), .. }) => {
                    let inside = r >= a.0 && r < a.0 + h && c >= a.1 && c < a.1 + w && (r, c) != a;
                    if !inside {
                        fails.push((
                            "c31:inv:stale-spill-outside-block".into(),
                            format!("{} is a spill cell of {} whose range is {w}x{h}", a1(r, c), a1(a.0, a.1)),
                        ));
                    }
                }
                _ => fails.push((
                    "c31:inv:spill-without-anchor".into(),
                    format!("{} is a spill cell of {} which is not an array formula", a1(r, c), a1(a.0, a.1)),
                )),
            },
            Cell::ArrayFormula { r: (w, h), kind: ArrayKind::Dynamic, .. } => {
                if w < 1 || h < 1 || r + h - 1 > LAST_ROW || c + w - 1 > LAST_COLUMN {
                    fails.push(("c31:inv:block-outside-grid".into(), format!("{} has range {w}x{h}", a1(r, c))));
                    continue;
                }
                for i in r..r + h {
                    for j in c..c + w {
                        if (i, j) == (r, c) {
                            continue;
                        }
                        match cell_at(m, i, j) {
                            Some(Cell::SpillCell { a, .. }) if *a == (r, c) => {}
                            other => fails.push((
                                "c31:inv:block-not-filled".into(),
                                format!("{} (range {w}x{h}) does not own {}: {:?}", a1(r, c), a1(i, j), other.map(kind_of)),
                            )),
                        }
                    }
                }
            }
            _ => {}
        }
    }
}

fn kind_of(c: &Cell) -> &'static str {
    match c {
        Cell::EmptyCell { .. } => "empty",
        Cell::CellFormula { .. } => "formula",
        Cell::ArrayFormula { .. } => "anchor",
        Cell::SpillCell { .. } => "spill",
        _ => "value",
    }
}

fn same_value(a: &Result<CellValue, String>, b: &Result<CellValue, String>) -> bool {
    match (a, b) {
        (Ok(CellValue::Number(x)), Ok(CellValue::Number(y))) => x.to_bits() == y.to_bits(),
        (x, y) => x == y,
    }
}

/// exactness: every spilled block holds, element by element, what the same formula gives when it
/// is entered as a CSE array formula of that size at the same place in a copy of the workbook
fn check_exact(m: &Model, fails: &mut Vec<(String, String)>) -> usize {
    let mut n = 0;
    let bytes = m.to_bytes();
    for ((r, c), cell) in sorted_cells(m) {
        if let Cell::ArrayFormula { r: (w, h), kind: ArrayKind::Dynamic, .. } = cell {
            if (w, h) == (1, 1) {
                continue;
            }
            let text = match m.get_cell_formula(0, r, c) {
                Ok(Some(t)) => t,
                _ => continue,
            };
            let mut copy = match Model::from_bytes(&bytes, "en") {
                Ok(x) => x,
                Err(_) => continue,
            };
            if copy.set_user_array_formula(0, r, c, w, h, &text).is_err() {
                continue;
            }
            copy.evaluate();
            n += 1;
            for i in r..r + h {
                for j in c..c + w {
                    let got = m.get_cell_value_by_index(0, i, j);
                    let want = copy.get_cell_value_by_index(0, i, j);
                    if !same_value(&got, &want) {
                        fails.push((
                            "c31:not-exact".into(),
                            format!("{} `{text}` spilled {w}x{h}: cell {} holds {:?}, element ({},{}) of the result is {:?}",
                                a1(r, c), a1(i, j), got, i - r, j - c, want),
                        ));
                    }
                }
            }
        }
    }
    n
}

fn is_spill_error(c: &Cell) -> bool {
    matches!(c, Cell::ArrayFormula { v: FormulaValue::Error { ei: Error::SPILL, .. }, .. })
}

// ---------- histories ----------

#[derive(Clone, Debug)]
enum Shape {
    Const(i32, i32),
    Like(i32, i32),
}

fn natural_shape(m: &Model, s: &Shape) -> (i32, i32) {
    match s {
        Shape::Const(h, w) => (*h, *w),
        Shape::Like(r, c) => match cell_at(m, *r, *c) {
            Some(Cell::ArrayFormula { r: (w, h), kind: ArrayKind::Dynamic, .. }) if (*w, *h) != (1, 1) => (*h, *w),
            _ => (0, 0),
        },
    }
}

fn parse_shape(f: &[&str]) -> Option<((i32, i32), Shape)> {
    let r = f.first()?.parse().ok()?;
    let c = f.get(1)?.parse().ok()?;
    if *f.get(2)? == "R" {
        Some(((r, c), Shape::Like(f.get(3)?.parse().ok()?, f.get(4)?.parse().ok()?)))
    } else {
        Some(((r, c), Shape::Const(f.get(2)?.parse().ok()?, f.get(3)?.parse().ok()?)))
    }
}

fn eval_hist(req: &str) -> ImplOut {
    let f: Vec<&str> = req.split(' ').collect();
    let ops = match f.get(2) {
        Some(o) => *o,
        None => return ImplOut::new("bad-request".into()).trivial(),
    };
    let mut m = Model::new_empty("c31", "en", "UTC", "en").unwrap();
    let mut dumps = vec![];
    let mut fails: Vec<(String, String)> = vec![];
    let mut tags: Vec<String> = vec![];
    let mut n_spilled = 0;
    let mut n_err = 0;
    for op in ops.split(';') {
        let p: Vec<&str> = op.split('.').collect();
        match p[0] {
            "P" | "F" | "D" | "X" => {
                let r: i32 = p[1].parse().unwrap_or(1);
                let c: i32 = p[2].parse().unwrap_or(1);
                let text = if p[0] == "X" { String::new() } else { p.get(3).and_then(|x| unhex(x)).unwrap_or_default() };
                let res = m.set_user_input(0, r, c, text);
                if res.is_err() {
                    tags.push("edit:refused".into());
                }
                if p[0] == "D" && !matches!(cell_at(&m, r, c), Some(Cell::ArrayFormula { kind: ArrayKind::Dynamic, .. })) {
                    tags.push("kind:dynamic-formula-not-recognised".into());
                }
            }
            "E" => {
                m.evaluate();
                dumps.push(dump(&m));
                check_invariant(&m, &mut fails);
                check_exact(&m, &mut fails);
                // #SPILL! exactly when the natural block is blocked or leaves the grid
                if p.get(1).map(|x| *x != "-").unwrap_or(false) {
                    for spec in p[1].split('_') {
                        let fs: Vec<&str> = spec.split(',').collect();
                        let ((r, c), shape) = match parse_shape(&fs) {
                            Some(x) => x,
                            None => continue,
                        };
                        let (h, w) = natural_shape(&m, &shape);
                        if h == 0 {
                            continue;
                        }
                        let cell = match cell_at(&m, r, c) {
                            Some(c) => c.clone(),
                            None => continue,
                        };
                        let stored = match &cell {
                            Cell::ArrayFormula { r: (w, h), .. } => (*h, *w),
                            _ => continue,
                        };
                        let out_of_grid = r + h - 1 > LAST_ROW || c + w - 1 > LAST_COLUMN;
                        let mut blocker = None;
                        if !out_of_grid {
                            'outer: for i in r..r + h {
                                for j in c..c + w {
                                    if (i, j) == (r, c) {
                                        continue;
                                    }
                                    match cell_at(&m, i, j) {
                                        None | Some(Cell::EmptyCell { .. }) => {}
                                        Some(Cell::SpillCell { a, .. }) if *a == (r, c) => {}
                                        Some(_) => {
                                            blocker = Some((i, j));
                                            break 'outer;
                                        }
                                    }
                                }
                            }
                        }
                        if stored == (h, w) {
                            if (h, w) != (1, 1) {
                                n_spilled += 1;
                            }
                        } else if stored == (1, 1) {
                            if !is_spill_error(&cell) {
                                fails.push(("c31:not-filled-and-no-spill-error".into(),
                                    format!("{} should produce {h}x{w} but holds {:?}", a1(r, c), cell)));
                            } else if !out_of_grid && blocker.is_none() {
                                fails.push(("c31:spill-error-without-blocker".into(),
                                    format!("{} shows #SPILL! but its {h}x{w} block is free after evaluation", a1(r, c))));
                            } else {
                                n_err += 1;
                                tags.push(if out_of_grid { "spill-error:out-of-grid".into() } else { "spill-error:blocked".into() });
                            }
                        } else {
                            fails.push(("c31:wrong-block-size".into(),
                                format!("{} should produce {h}x{w} but its range is {}x{}", a1(r, c), stored.0, stored.1)));
                        }
                    }
                }
            }
            _ => {}
        }
    }
    let mut out = ImplOut::new(dumps.join("/"));
    out.oracle = fails;
    tags.sort();
    tags.dedup();
    out.tags = tags;
    out = out.tag(if n_spilled > 0 { "spilled:yes" } else { "spilled:no" });
    out = out.tag(if n_err > 0 { "spill-error:yes" } else { "spill-error:no" });
    out.nontrivial = n_spilled > 0 || n_err > 0;
    out
}

fn eval_user(req: &str) -> ImplOut {
    let f: Vec<&str> = req.split(' ').collect();
    let ops = match f.get(2) {
        Some(o) => *o,
        None => return ImplOut::new("bad-request".into()).trivial(),
    };
    let mut um = UserModel::new_empty("c31", "en", "UTC", "en").unwrap();
    let mut fails: Vec<(String, String)> = vec![];
    let mut tags: Vec<String> = vec![];
    let mut n_checked = 0;
    for (k, op) in ops.split(';').enumerate() {
        let p: Vec<&str> = op.split('.').collect();
        let num = |i: usize| -> i32 { p.get(i).and_then(|x| x.parse().ok()).unwrap_or(1) };
        let res: Result<(), String> = match p[0] {
            "P" | "F" | "D" => um.set_user_input(0, num(1), num(2), &p.get(3).and_then(|x| unhex(x)).unwrap_or_default()),
            "X" => um.set_user_input(0, num(1), num(2), ""),
            "U" => um.undo(),
            "Y" => um.redo(),
            "IR" => um.insert_rows(0, num(1), 1),
            "DR" => um.delete_rows(0, num(1), 1),
            "C" => um.range_clear_contents(&Area { sheet: 0, row: num(1), column: num(2), height: num(3), width: num(4) }),
            _ => Ok(()),
        };
        tags.push(format!("op:{}{}", p[0], if res.is_err() { ":refused" } else { "" }));
        let before = fails.len();
        check_invariant(um.get_model(), &mut fails);
        n_checked += check_exact(um.get_model(), &mut fails);
        for f in fails.iter_mut().skip(before) {
            f.1 = format!("after op #{k} `{}`: {}", p[..p.len().min(3)].join("."), f.1);
        }
        if fails.len() > 20 {
            break;
        }
    }
    let mut out = ImplOut::new(String::new());
    out.oracle = fails;
    tags.sort();
    tags.dedup();
    out.tags = tags;
    out.nontrivial = n_checked > 0;
    out
}

// ---------- generators ----------

#[derive(Clone, Debug)]
enum Tpl {
    Seq(i32, i32),
    SeqOfInput(i32, bool),
    RangeTimes(i32, i32),
    PureRange(i32, i32),
    Like(i32, i32),
}

fn tpl_text(t: &Tpl) -> String {
    match t {
        Tpl::Seq(h, w) => format!("=SEQUENCE({h},{w})"),
        Tpl::SeqOfInput(k, true) => format!("=SEQUENCE(A{k})"),
        Tpl::SeqOfInput(k, false) => format!("=SEQUENCE(1,A{k})"),
        Tpl::RangeTimes(a, b) => format!("=A{a}:A{b}*2"),
        Tpl::PureRange(a, b) => format!("=A{a}:A{b}"),
        Tpl::Like(r, c) => format!("={}#+1", a1(*r, *c)),
    }
}

fn gen_tpl(rng: &mut Rng, at: (i32, i32), anchors: &BTreeMap<(i32, i32), Tpl>) -> Tpl {
    let earlier: Vec<(i32, i32)> = anchors.keys().copied().filter(|k| *k < at).collect();
    match rng.below(10) {
        0 | 1 => Tpl::Seq(rng.range(1, 4) as i32, rng.range(1, 3) as i32),
        2 | 3 | 4 => Tpl::SeqOfInput(rng.range(1, 6) as i32, rng.chance(2, 3)),
        5 => {
            let a = rng.range(1, 4) as i32;
            Tpl::RangeTimes(a, a + rng.range(0, 2) as i32)
        }
        6 => {
            let a = rng.range(1, 4) as i32;
            Tpl::PureRange(a, a + rng.range(1, 2) as i32)
        }
        _ => {
            if earlier.is_empty() {
                Tpl::SeqOfInput(rng.range(1, 6) as i32, true)
            } else {
                let k = earlier[rng.below(earlier.len() as u64) as usize];
                Tpl::Like(k.0, k.1)
            }
        }
    }
}

fn shape_spec(t: &Tpl, inputs: &[i32; 7]) -> String {
    match t {
        Tpl::Seq(h, w) => format!("{h},{w}"),
        Tpl::SeqOfInput(k, true) => format!("{},1", inputs[*k as usize]),
        Tpl::SeqOfInput(k, false) => format!("1,{}", inputs[*k as usize]),
        Tpl::RangeTimes(a, b) | Tpl::PureRange(a, b) => format!("{},1", b - a + 1),
        Tpl::Like(r, c) => format!("R,{r},{c}"),
    }
}

fn gen_history(rng: &mut Rng, user: bool) -> String {
    let mut ops: Vec<String> = vec![];
    let mut inputs = [0i32; 7];
    let mut anchors: BTreeMap<(i32, i32), Tpl> = BTreeMap::new();
    for k in 1..=6 {
        inputs[k] = rng.range(1, 4) as i32;
        ops.push(format!("P.{k}.1.{}", hex(&inputs[k].to_string())));
    }
    let far = !user && rng.chance(1, 6);
    let n = rng.range(12, 40);
    let rand_cell = |rng: &mut Rng| -> (i32, i32) { (rng.range(1, 8) as i32, rng.range(2, 8) as i32) };
    for _ in 0..n {
        match rng.below(if user { 16 } else { 11 }) {
            0 | 1 | 2 => {
                let at = if far && rng.chance(1, 3) {
                    if rng.chance(1, 2) {
                        (LAST_ROW - rng.range(0, 2) as i32, rng.range(2, 4) as i32)
                    } else {
                        (rng.range(1, 3) as i32, LAST_COLUMN - rng.range(0, 1) as i32)
                    }
                } else {
                    (rng.range(1, 4) as i32, rng.range(2, 6) as i32)
                };
                let t = gen_tpl(rng, at, &anchors);
                ops.push(format!("D.{}.{}.{}", at.0, at.1, hex(&tpl_text(&t))));
                anchors.insert(at, t);
            }
            3 => {
                let k = rng.range(1, 6) as usize;
                inputs[k] = rng.range(1, 4) as i32;
                ops.push(format!("P.{k}.1.{}", hex(&inputs[k].to_string())));
            }
            4 | 5 => {
                let at = rand_cell(rng);
                ops.push(format!("P.{}.{}.{}", at.0, at.1, hex(&rng.range(10, 99).to_string())));
                anchors.remove(&at);
            }
            6 | 7 => {
                // clear: prefer cells that hold something
                let at = rand_cell(rng);
                ops.push(format!("X.{}.{}", at.0, at.1));
                anchors.remove(&at);
            }
            8 => {
                let at = rand_cell(rng);
                let text = if anchors.is_empty() || rng.chance(1, 3) {
                    "=A1*2".to_string()
                } else {
                    let ks: Vec<_> = anchors.keys().copied().collect();
                    let k = ks[rng.below(ks.len() as u64) as usize];
                    format!("=SUM({}#)", a1(k.0, k.1))
                };
                ops.push(format!("F.{}.{}.{}", at.0, at.1, hex(&text)));
                anchors.remove(&at);
            }
            9 | 10 => {
                if !user {
                    let spec: Vec<String> = anchors.iter().map(|(k, t)| format!("{},{},{}", k.0, k.1, shape_spec(t, &inputs))).collect();
                    ops.push(format!("E.{}", if spec.is_empty() { "-".to_string() } else { spec.join("_") }));
                }
            }
            11 => ops.push("U".into()),
            12 => ops.push("Y".into()),
            13 => ops.push(format!("IR.{}", rng.range(1, 6))),
            14 => ops.push(format!("DR.{}", rng.range(1, 6))),
            _ => {
                let at = rand_cell(rng);
                ops.push(format!("C.{}.{}.{}.{}", at.0, at.1, rng.range(1, 3), rng.range(1, 3)));
            }
        }
    }
    if !user {
        let spec: Vec<String> = anchors.iter().map(|(k, t)| format!("{},{},{}", k.0, k.1, shape_spec(t, &inputs))).collect();
        ops.push(format!("E.{}", if spec.is_empty() { "-".to_string() } else { spec.join("_") }));
    }
    ops.join(";")
}

fn gen_hist(ctx: &Ctx, sink: &mut dyn FnMut(String)) {
    // corpus: grow / shrink / block / unblock / spill feeding a spill / out of grid
    let h = |s: &str| hex(s);
    sink(format!(
        "c31 hist P.1.1.{};D.1.2.{};E.1,2,3,1;P.1.1.{};E.1,2,2,1;P.2.2.{};E.1,2,2,1;X.2.2;E.1,2,2,1;D.1.4.{};E.1,2,2,1_1,4,R,1,2",
        h("3"), h("=SEQUENCE(A1)"), h("2"), h("9"), h("=B1#+1")
    ));
    sink(format!("c31 hist D.1048575.2.{};E.1048575,2,3,1;D.1.16384.{};E.1,16384,1,2_1048575,2,3,1", h("=SEQUENCE(3,1)"), h("=SEQUENCE(1,2)")));
    // an anchor blocked by the old spill of an anchor evaluated after it
    sink(format!(
        "c31 hist P.1.1.{};D.2.2.{};E.2,2,1,2;D.1.3.{};P.1.1.{};E.1,3,3,1_2,2,1,1",
        h("2"), h("=SEQUENCE(1,A1)"), h("=SEQUENCE(3,1)"), h("1")
    ));
    let mut rng = Rng::new(ctx.seed ^ 0xC31);
    let count = if ctx.tier == Tier::Quick { 300 } else { 20_000 };
    for _ in 0..count {
        let mut r = rng.fork();
        sink(format!("c31 hist {}", gen_history(&mut r, false)));
    }
}

fn gen_user(ctx: &Ctx, sink: &mut dyn FnMut(String)) {
    let mut rng = Rng::new(ctx.seed ^ 0xC31_0001);
    let count = if ctx.tier == Tier::Quick { 150 } else { 8_000 };
    for _ in 0..count {
        let mut r = rng.fork();
        sink(format!("c31 user {}", gen_history(&mut r, true)));
    }
}

pub fn suites() -> Vec<Suite> {
    vec![
        Suite {
            name: "c31-hist",
            rule: "editing histories on a real Model (12-40 edits: dynamic-array formulas SEQUENCE(h,w) / SEQUENCE(cell) / range*2 / pure range / other#+1 placed, overwritten and deleted, values typed into and cleared from spill areas, anchors at the last rows/columns, scalar formulas reading spills) with an evaluate every few edits; the cell-kind structure after every evaluate vs the Lean driver; oracle: spill invariant, element-wise exactness against the same formula entered as a CSE array, #SPILL! iff the natural block is blocked or leaves the grid; non-trivial = at least one array spilled or was refused",
            modelled: true,
            gen: gen_hist,
            eval: eval_hist,
            exhaustive: never,
        },
        Suite {
            name: "c31-user",
            rule: "UserModel histories: the same edits plus undo, redo, insert row, delete row, clear range (the model evaluates after every operation); oracle only: spill invariant and element-wise exactness after every operation; non-trivial = at least one spilled block was compared",
            modelled: false,
            gen: gen_user,
            eval: eval_user,
            exhaustive: never,
        },
    ]
}
