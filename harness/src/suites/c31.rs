//! C31 — dynamic-array spills are exact and never stale.
//!  * `c31-hist` : editing histories on a real `Model` (place / overwrite / delete dynamic-array
//!                 formulas whose result size depends on cells and on other spills, block and
//!                 unblock their areas, out-of-grid anchors) with an `evaluate` every few edits;
//!                 after every evaluate the cell-kind structure of the sheet is compared with the
//!                 Lean driver (Eval/Spill.lean), and the oracle checks on the implementation:
//!                 the spill invariant, exactness of every spilled block, #SPILL! iff blocked or
//!                 out of grid.
//!  * `c31-agg`  : result sizes/values that depend on an aggregate over a range another array spills
//!                 into at its edge; single evaluate; entry orders; Model and UserModel (oracle only).
//!  * `c31-user` : `UserModel` histories with undo/redo, row insertion/deletion and range clears;
//!                 invariant + exactness oracle only.
//!
//! Request: `c31 hist <ops>` (see lean/Driver/C31.lean); edit ops carry a 4th field (hex formula
//! text or value) that the driver ignores. `c31 user <ops>`: the same edit ops plus `U` undo,
//! `Y` redo, `IR.<row>` insert row, `DR.<row>` delete row, `C.<r>.<c>.<h>.<w>` clear range; every
//! op is followed by the model's own evaluation.
use crate::prng::Rng;
use crate::proto::{hex, unhex};
use crate::run::{never, Ctx, ImplOut, Suite, Tier};
use crate::suites::c05::col_name;
use ironcalc_base::cell::CellValue;
use ironcalc_base::expressions::token::Error;
use ironcalc_base::expressions::types::Area;
use ironcalc_base::types::{ArrayKind, Cell, FormulaValue};
use ironcalc_base::{Model, UserModel};
use std::collections::{BTreeMap, HashSet};

const LAST_ROW: i32 = 1_048_576;
const LAST_COLUMN: i32 = 16_384;

fn a1(r: i32, c: i32) -> String {
    format!("{}{}", col_name(c), r)
}

// ---------- reading the implementation ----------

fn sorted_cells(m: &Model) -> Vec<((i32, i32), Cell)> {
    let mut out = vec![];
    for (r, row) in &m.workbook.worksheets[0].sheet_data {
        for (c, cell) in row {
            out.push(((*r, *c), cell.clone()));
        }
    }
    out.sort_by_key(|x| x.0);
    out
}

fn dump(m: &Model) -> String {
    let mut parts = vec![];
    for ((r, c), cell) in sorted_cells(m) {
        let k = match cell {
            Cell::EmptyCell { .. } => continue,
            Cell::CellFormula { .. } => "f".to_string(),
            Cell::ArrayFormula { r: (w, h), kind: ArrayKind::Dynamic, .. } => format!("a{w}x{h}"),
            Cell::ArrayFormula { r: (w, h), kind: ArrayKind::Cse, .. } => format!("c{w}x{h}"),
            Cell::SpillCell { a, .. } => format!("s{},{}", a.0, a.1),
            _ => "p".to_string(),
        };
        parts.push(format!("{r},{c}={k}"));
    }
    parts.join("_")
}

fn cell_at<'a>(m: &'a Model<'_>, r: i32, c: i32) -> Option<&'a Cell> {
    m.workbook.worksheets[0].sheet_data.get(&r)?.get(&c)
}

/// the spill invariant, checked on the real sheet
fn check_invariant(m: &Model, fails: &mut Vec<(String, String)>) {
    check_invariant_with(m, fails, &HashSet::new())
}

/// the signature of an invariant / exactness failure: when one of the cells involved was covered by
/// the range of an accepted fixed-range (CSE) array entry of the history, the failure belongs to the
/// mechanism of finding F31b (the CSE writer overwrites its declared range whatever it holds)
fn sig_for(base: &str, cover: &HashSet<(i32, i32)>, cells: &[(i32, i32)]) -> String {
    if cells.iter().any(|c| cover.contains(c)) {
        format!("{base}:cse-array-overlap")
    } else {
        base.to_string()
    }
}

/// `cse_children`: the positions covered by the range of some accepted fixed-range (CSE) array entry
/// of the history
fn check_invariant_with(m: &Model, fails: &mut Vec<(String, String)>, cse_children: &HashSet<(i32, i32)>) {
    for ((r, c), cell) in sorted_cells(m) {
        match cell {
            Cell::SpillCell { a, .. } => match cell_at(m, a.0, a.1) {
                Some(Cell::ArrayFormula { r: (w, h), .. }) => {
                    let inside = r >= a.0 && r < a.0 + h && c >= a.1 && c < a.1 + w && (r, c) != a;
                    if !inside {
                        fails.push((
                            sig_for("c31:inv:stale-spill-outside-block", cse_children, &[(r, c), a]),
                            format!("{} is a spill cell of {} whose range is {w}x{h}", a1(r, c), a1(a.0, a.1)),
                        ));
                    }
                }
                other => {
                    // the recorded anchor position now belongs to a fixed-range (CSE) array: the array
                    // formula that spilled here was overwritten by that array (finding F31b)
                    let under_cse = match other {
                        Some(Cell::SpillCell { a: a2, .. }) => {
                            matches!(cell_at(m, a2.0, a2.1), Some(Cell::ArrayFormula { kind: ArrayKind::Cse, .. }))
                        }
                        _ => false,
                    };
                    let sig = if under_cse {
                        "c31:inv:spill-without-anchor:cse-array-overlap".to_string()
                    } else {
                        sig_for("c31:inv:spill-without-anchor", cse_children, &[(r, c), a])
                    };
                    fails.push((sig, format!("{} is a spill cell of {} which is not an array formula", a1(r, c), a1(a.0, a.1))));
                }
            },
            Cell::ArrayFormula { r: (w, h), kind: ArrayKind::Dynamic, .. } => {
                if w < 1 || h < 1 || r + h - 1 > LAST_ROW || c + w - 1 > LAST_COLUMN {
                    fails.push(("c31:inv:block-outside-grid".into(), format!("{} has range {w}x{h}", a1(r, c))));
                    continue;
                }
                for i in r..r + h {
                    for j in c..c + w {
                        if (i, j) == (r, c) {
                            continue;
                        }
                        match cell_at(m, i, j) {
                            Some(Cell::SpillCell { a, .. }) if *a == (r, c) => {}
                            other => fails.push((
                                sig_for("c31:inv:block-not-filled", cse_children, &[(r, c), (i, j)]),
                                format!("{} (range {w}x{h}) does not own {}: {:?}", a1(r, c), a1(i, j), other.map(kind_of)),
                            )),
                        }
                    }
                }
            }
            _ => {}
        }
    }
}

fn kind_of(c: &Cell) -> &'static str {
    match c {
        Cell::EmptyCell { .. } => "empty",
        Cell::CellFormula { .. } => "formula",
        Cell::ArrayFormula { .. } => "anchor",
        Cell::SpillCell { .. } => "spill",
        _ => "value",
    }
}

fn same_value(a: &Result<CellValue, String>, b: &Result<CellValue, String>) -> bool {
    match (a, b) {
        (Ok(CellValue::Number(x)), Ok(CellValue::Number(y))) => x.to_bits() == y.to_bits(),
        (x, y) => x == y,
    }
}

/// exactness: every spilled block holds, element by element, what the same formula gives when it
/// is entered as a CSE array formula of that size at the same place in a copy of the workbook
fn check_exact(m: &Model, fails: &mut Vec<(String, String)>) -> usize {
    check_exact_with(m, fails, &HashSet::new())
}

fn check_exact_with(m: &Model, fails: &mut Vec<(String, String)>, cover: &HashSet<(i32, i32)>) -> usize {
    let mut n = 0;
    let bytes = m.to_bytes();
    for ((r, c), cell) in sorted_cells(m) {
        if let Cell::ArrayFormula { r: (w, h), kind: ArrayKind::Dynamic, .. } = cell {
            if (w, h) == (1, 1) {
                continue;
            }
            let text = match m.get_cell_formula(0, r, c) {
                Ok(Some(t)) => t,
                _ => continue,
            };
            let mut copy = match Model::from_bytes(&bytes, "en") {
                Ok(x) => x,
                Err(_) => continue,
            };
            if copy.set_user_array_formula(0, r, c, w, h, &text).is_err() {
                continue;
            }
            copy.evaluate();
            n += 1;
            for i in r..r + h {
                for j in c..c + w {
                    let got = m.get_cell_value_by_index(0, i, j);
                    let want = copy.get_cell_value_by_index(0, i, j);
                    if !same_value(&got, &want) {
                        fails.push((
                            sig_for("c31:not-exact", cover, &[(r, c), (i, j)]),
                            format!("{} `{text}` spilled {w}x{h}: cell {} holds {:?}, element ({},{}) of the result is {:?}",
                                a1(r, c), a1(i, j), got, i - r, j - c, want),
                        ));
                    }
                }
            }
        }
    }
    n
}

/// values + structure of every non-empty cell, and the positions of anchors showing #SPILL!
fn full_snapshot(m: &Model) -> (Vec<String>, Vec<(i32, i32)>) {
    let mut out = vec![];
    let mut errs = vec![];
    for ((r, c), cell) in sorted_cells(m) {
        if matches!(cell, Cell::EmptyCell { .. }) {
            continue;
        }
        if is_spill_error(&cell) {
            errs.push((r, c));
        }
        let k = match &cell {
            Cell::ArrayFormula { r: (w, h), .. } => format!("a{w}x{h}"),
            Cell::SpillCell { a, .. } => format!("s{},{}", a.0, a.1),
            Cell::CellFormula { .. } => "f".into(),
            _ => "p".into(),
        };
        out.push(format!("{}:{k}={:?}", a1(r, c), m.get_cell_value_by_index(0, r, c)));
    }
    (out, errs)
}

/// NEVER STALE, observed directly: right after an evaluation, evaluating once more (on a copy)
/// must not change any cell — otherwise the first evaluation left something that does not
/// correspond to the current results (a block of the wrong size, an old value, a stale #SPILL!)
fn check_stable(m: &Model, fails: &mut Vec<(String, String)>) {
    check_stable_with(m, fails, false)
}

/// `cse_overlap`: the history contains an edit typed into the range of a fixed-range (CSE) array, or a
/// CSE array entered over a formula cell (the situation of finding F31b)
fn check_stable_with(m: &Model, fails: &mut Vec<(String, String)>, cse_overlap: bool) {
    let mut copy = match Model::from_bytes(&m.to_bytes(), "en") {
        Ok(x) => x,
        Err(_) => return,
    };
    // the copy must first BE the same sheet (otherwise the comparison is about C26, not C31)
    let before = full_snapshot(m);
    if full_snapshot(&copy).0 != before.0 {
        return;
    }
    copy.evaluate();
    let after = full_snapshot(&copy);
    if after.0 != before.0 {
        let diff: Vec<String> = before.0.iter().filter(|x| !after.0.contains(x)).take(4).cloned().collect();
        let diff2: Vec<String> = after.0.iter().filter(|x| !before.0.contains(x)).take(4).cloned().collect();
        let sig = if cse_overlap {
            "c31:unstable-after-evaluate:cse-array-overlap"
        } else if before.1 != after.1 {
            "c31:unstable-after-evaluate:spill-error-changed"
        } else {
            "c31:unstable-after-evaluate"
        };
        fails.push((sig.into(), format!("a second evaluate changes the sheet: {:?} becomes {:?}", diff, diff2)));
    }
}

fn is_spill_error(c: &Cell) -> bool {
    matches!(c, Cell::ArrayFormula { v: FormulaValue::Error { ei: Error::SPILL, .. }, .. })
}

// ---------- histories ----------

#[derive(Clone, Debug)]
enum Shape {
    Const(i32, i32),
    Like(i32, i32),
}

fn natural_shape(m: &Model, s: &Shape) -> (i32, i32) {
    match s {
        Shape::Const(h, w) => (*h, *w),
        Shape::Like(r, c) => match cell_at(m, *r, *c) {
            Some(Cell::ArrayFormula { r: (w, h), kind: ArrayKind::Dynamic, .. }) if (*w, *h) != (1, 1) => (*h, *w),
            _ => (0, 0),
        },
    }
}

fn parse_shape(f: &[&str]) -> Option<((i32, i32), Shape)> {
    let r = f.first()?.parse().ok()?;
    let c = f.get(1)?.parse().ok()?;
    if *f.get(2)? == "R" {
        Some(((r, c), Shape::Like(f.get(3)?.parse().ok()?, f.get(4)?.parse().ok()?)))
    } else {
        Some(((r, c), Shape::Const(f.get(2)?.parse().ok()?, f.get(3)?.parse().ok()?)))
    }
}

fn eval_hist(req: &str) -> ImplOut {
    let f: Vec<&str> = req.split(' ').collect();
    let ops = match f.get(2) {
        Some(o) => *o,
        None => return ImplOut::new("bad-request".into()).trivial(),
    };
    let mut m = Model::new_empty("c31", "en", "UTC", "en").unwrap();
    let mut dumps = vec![];
    let mut fails: Vec<(String, String)> = vec![];
    let mut tags: Vec<String> = vec![];
    let mut n_spilled = 0;
    let mut n_err = 0;
    let mut cse_children: HashSet<(i32, i32)> = HashSet::new();
    let mut cse_overlap = false;
    for op in ops.split(';') {
        let p: Vec<&str> = op.split('.').collect();
        match p[0] {
            "P" | "F" | "D" | "X" => {
                let r: i32 = p[1].parse().unwrap_or(1);
                let c: i32 = p[2].parse().unwrap_or(1);
                let text = if p[0] == "X" { String::new() } else { p.get(3).and_then(|x| unhex(x)).unwrap_or_default() };
                let res = m.set_user_input(0, r, c, text);
                if res.is_err() {
                    tags.push("edit:refused".into());
                } else if p[0] != "X" && cse_children.contains(&(r, c)) {
                    cse_overlap = true;
                }
                if p[0] == "D" && !matches!(cell_at(&m, r, c), Some(Cell::ArrayFormula { kind: ArrayKind::Dynamic, .. })) {
                    tags.push("kind:dynamic-formula-not-recognised".into());
                }
            }
            "A" => {
                let n = |i: usize| -> i32 { p.get(i).and_then(|x| x.parse().ok()).unwrap_or(1) };
                let text = p.get(5).and_then(|x| unhex(x)).unwrap_or_default();
                let covers_formula = (n(1)..n(1) + n(4)).any(|r| {
                    (n(2)..n(2) + n(3)).any(|c| {
                        (r, c) != (n(1), n(2)) && matches!(cell_at(&m, r, c), Some(Cell::CellFormula { .. }) | Some(Cell::ArrayFormula { .. }))
                    })
                });
                if covers_formula {
                    cse_overlap = true;
                }
                if m.set_user_array_formula(0, n(1), n(2), n(3), n(4), &text).is_err() {
                    tags.push("edit:refused".into());
                } else {
                    for r in n(1)..n(1) + n(4) {
                        for c in n(2)..n(2) + n(3) {
                            cse_children.insert((r, c));
                        }
                    }
                }
                tags.push("op:cse-array".into());
            }
            "E" => {
                m.evaluate();
                dumps.push(dump(&m));
                check_invariant_with(&m, &mut fails, &cse_children);
                check_exact_with(&m, &mut fails, &cse_children);
                check_stable_with(&m, &mut fails, cse_overlap);
                // #SPILL! exactly when the natural block is blocked or leaves the grid
                if p.get(1).map(|x| *x != "-").unwrap_or(false) {
                    for spec in p[1].split('_') {
                        let fs: Vec<&str> = spec.split(',').collect();
                        let ((r, c), shape) = match parse_shape(&fs) {
                            Some(x) => x,
                            None => continue,
                        };
                        let (h, w) = natural_shape(&m, &shape);
                        if h == 0 {
                            continue;
                        }
                        let cell = match cell_at(&m, r, c) {
                            Some(c) => c.clone(),
                            None => continue,
                        };
                        let stored = match &cell {
                            Cell::ArrayFormula { r: (w, h), kind: ArrayKind::Dynamic, .. } => (*h, *w),
                            _ => continue,
                        };
                        let out_of_grid = r + h - 1 > LAST_ROW || c + w - 1 > LAST_COLUMN;
                        let mut blocker = None;
                        if !out_of_grid {
                            'outer: for i in r..r + h {
                                for j in c..c + w {
                                    if (i, j) == (r, c) {
                                        continue;
                                    }
                                    match cell_at(&m, i, j) {
                                        None | Some(Cell::EmptyCell { .. }) => {}
                                        Some(Cell::SpillCell { a, .. }) if *a == (r, c) => {}
                                        Some(_) => {
                                            blocker = Some((i, j));
                                            break 'outer;
                                        }
                                    }
                                }
                            }
                        }
                        if stored == (h, w) {
                            if (h, w) != (1, 1) {
                                n_spilled += 1;
                            }
                        } else if stored == (1, 1) {
                            if !is_spill_error(&cell) {
                                fails.push(("c31:not-filled-and-no-spill-error".into(),
                                    format!("{} should produce {h}x{w} but holds {:?}", a1(r, c), cell)));
                            } else if !out_of_grid && blocker.is_none() {
                                fails.push(("c31:spill-error-without-blocker".into(),
                                    format!("{} shows #SPILL! but its {h}x{w} block is free after evaluation", a1(r, c))));
                            } else {
                                n_err += 1;
                                tags.push(if out_of_grid { "spill-error:out-of-grid".into() } else { "spill-error:blocked".into() });
                            }
                        } else {
                            fails.push(("c31:wrong-block-size".into(),
                                format!("{} should produce {h}x{w} but its range is {}x{}", a1(r, c), stored.0, stored.1)));
                        }
                    }
                }
            }
            _ => {}
        }
    }
    let mut out = ImplOut::new(dumps.join("/"));
    out.oracle = fails;
    tags.sort();
    tags.dedup();
    out.tags = tags;
    out = out.tag(if n_spilled > 0 { "spilled:yes" } else { "spilled:no" });
    out = out.tag(if n_err > 0 { "spill-error:yes" } else { "spill-error:no" });
    out.nontrivial = n_spilled > 0 || n_err > 0;
    out
}

fn eval_user(req: &str) -> ImplOut {
    let f: Vec<&str> = req.split(' ').collect();
    let ops = match f.get(2) {
        Some(o) => *o,
        None => return ImplOut::new("bad-request".into()).trivial(),
    };
    let mut um = UserModel::new_empty("c31", "en", "UTC", "en").unwrap();
    let mut fails: Vec<(String, String)> = vec![];
    let mut tags: Vec<String> = vec![];
    let mut n_checked = 0;
    for (k, op) in ops.split(';').enumerate() {
        let p: Vec<&str> = op.split('.').collect();
        let num = |i: usize| -> i32 { p.get(i).and_then(|x| x.parse().ok()).unwrap_or(1) };
        let res: Result<(), String> = match p[0] {
            "P" | "F" | "D" => um.set_user_input(0, num(1), num(2), &p.get(3).and_then(|x| unhex(x)).unwrap_or_default()),
            "X" => um.set_user_input(0, num(1), num(2), ""),
            "U" => um.undo(),
            "Y" => um.redo(),
            "IR" => um.insert_rows(0, num(1), 1),
            "DR" => um.delete_rows(0, num(1), 1),
            "C" => um.range_clear_contents(&Area { sheet: 0, row: num(1), column: num(2), height: num(3), width: num(4) }),
            _ => Ok(()),
        };
        tags.push(format!("op:{}{}", p[0], if res.is_err() { ":refused" } else { "" }));
        let before = fails.len();
        check_invariant(um.get_model(), &mut fails);
        n_checked += check_exact(um.get_model(), &mut fails);
        check_stable(um.get_model(), &mut fails);
        for f in fails.iter_mut().skip(before) {
            f.1 = format!("after op #{k} `{}`: {}", p[..p.len().min(3)].join("."), f.1);
        }
        if fails.len() > 20 {
            break;
        }
    }
    let mut out = ImplOut::new(String::new());
    out.oracle = fails;
    tags.sort();
    tags.dedup();
    out.tags = tags;
    out.nontrivial = n_checked > 0;
    out
}

// ---------- generators ----------

#[derive(Clone, Debug)]
enum Tpl {
    Seq(i32, i32),
    SeqOfInput(i32, bool),
    RangeTimes(i32, i32),
    PureRange(i32, i32),
    Like(i32, i32),
}

fn tpl_text(t: &Tpl) -> String {
    match t {
        Tpl::Seq(h, w) => format!("=SEQUENCE({h},{w})"),
        Tpl::SeqOfInput(k, true) => format!("=SEQUENCE(A{k})"),
        Tpl::SeqOfInput(k, false) => format!("=SEQUENCE(1,A{k})"),
        Tpl::RangeTimes(a, b) => format!("=A{a}:A{b}*2"),
        Tpl::PureRange(a, b) => format!("=A{a}:A{b}"),
        Tpl::Like(r, c) => format!("={}#+1", a1(*r, *c)),
    }
}

fn gen_tpl(rng: &mut Rng, at: (i32, i32), anchors: &BTreeMap<(i32, i32), Tpl>) -> Tpl {
    let earlier: Vec<(i32, i32)> = anchors.keys().copied().filter(|k| *k < at).collect();
    match rng.below(10) {
        0 | 1 => Tpl::Seq(rng.range(1, 4) as i32, rng.range(1, 3) as i32),
        2 | 3 | 4 => Tpl::SeqOfInput(rng.range(1, 6) as i32, rng.chance(2, 3)),
        5 => {
            let a = rng.range(1, 4) as i32;
            Tpl::RangeTimes(a, a + rng.range(0, 2) as i32)
        }
        6 => {
            let a = rng.range(1, 4) as i32;
            Tpl::PureRange(a, a + rng.range(1, 2) as i32)
        }
        _ => {
            if earlier.is_empty() {
                Tpl::SeqOfInput(rng.range(1, 6) as i32, true)
            } else {
                let k = earlier[rng.below(earlier.len() as u64) as usize];
                Tpl::Like(k.0, k.1)
            }
        }
    }
}

fn shape_spec(t: &Tpl, inputs: &[i32; 7]) -> String {
    match t {
        Tpl::Seq(h, w) => format!("{h},{w}"),
        Tpl::SeqOfInput(k, true) => format!("{},1", inputs[*k as usize]),
        Tpl::SeqOfInput(k, false) => format!("1,{}", inputs[*k as usize]),
        Tpl::RangeTimes(a, b) | Tpl::PureRange(a, b) => format!("{},1", b - a + 1),
        Tpl::Like(r, c) => format!("R,{r},{c}"),
    }
}

fn gen_history(rng: &mut Rng, user: bool) -> String {
    let mut ops: Vec<String> = vec![];
    let mut inputs = [0i32; 7];
    let mut anchors: BTreeMap<(i32, i32), Tpl> = BTreeMap::new();
    for k in 1..=6 {
        inputs[k] = rng.range(1, 4) as i32;
        ops.push(format!("P.{k}.1.{}", hex(&inputs[k].to_string())));
    }
    let far = !user && rng.chance(1, 6);
    let n = rng.range(12, 40);
    let rand_cell = |rng: &mut Rng| -> (i32, i32) { (rng.range(1, 8) as i32, rng.range(2, 8) as i32) };
    for _ in 0..n {
        match rng.below(if user { 16 } else { 11 }) {
            0 | 1 | 2 => {
                let at = if far && rng.chance(1, 3) {
                    if rng.chance(1, 2) {
                        (LAST_ROW - rng.range(0, 2) as i32, rng.range(2, 4) as i32)
                    } else {
                        (rng.range(1, 3) as i32, LAST_COLUMN - rng.range(0, 1) as i32)
                    }
                } else {
                    (rng.range(1, 4) as i32, rng.range(2, 6) as i32)
                };
                let t = gen_tpl(rng, at, &anchors);
                ops.push(format!("D.{}.{}.{}", at.0, at.1, hex(&tpl_text(&t))));
                anchors.insert(at, t);
            }
            3 => {
                let k = rng.range(1, 6) as usize;
                inputs[k] = rng.range(1, 4) as i32;
                ops.push(format!("P.{k}.1.{}", hex(&inputs[k].to_string())));
            }
            4 | 5 => {
                let at = rand_cell(rng);
                ops.push(format!("P.{}.{}.{}", at.0, at.1, hex(&rng.range(10, 99).to_string())));
                anchors.remove(&at);
            }
            6 | 7 => {
                // clear: prefer cells that hold something
                let at = rand_cell(rng);
                ops.push(format!("X.{}.{}", at.0, at.1));
                anchors.remove(&at);
            }
            8 => {
                let at = rand_cell(rng);
                let text = if anchors.is_empty() || rng.chance(1, 3) {
                    "=A1*2".to_string()
                } else {
                    let ks: Vec<_> = anchors.keys().copied().collect();
                    let k = ks[rng.below(ks.len() as u64) as usize];
                    format!("=SUM({}#)", a1(k.0, k.1))
                };
                ops.push(format!("F.{}.{}.{}", at.0, at.1, hex(&text)));
                anchors.remove(&at);
            }
            9 | 10 => {
                if !user {
                    let spec: Vec<String> = anchors.iter().map(|(k, t)| format!("{},{},{}", k.0, k.1, shape_spec(t, &inputs))).collect();
                    ops.push(format!("E.{}", if spec.is_empty() { "-".to_string() } else { spec.join("_") }));
                }
            }
            11 => ops.push("U".into()),
            12 => ops.push("Y".into()),
            13 => ops.push(format!("IR.{}", rng.range(1, 6))),
            14 => ops.push(format!("DR.{}", rng.range(1, 6))),
            _ => {
                let at = rand_cell(rng);
                ops.push(format!("C.{}.{}.{}.{}", at.0, at.1, rng.range(1, 3), rng.range(1, 3)));
            }
        }
    }
    if !user {
        let spec: Vec<String> = anchors.iter().map(|(k, t)| format!("{},{},{}", k.0, k.1, shape_spec(t, &inputs))).collect();
        ops.push(format!("E.{}", if spec.is_empty() { "-".to_string() } else { spec.join("_") }));
    }
    ops.join(";")
}

/// histories in which fixed-range (CSE) array formulas and dynamic ones are entered over each other,
/// with and without an evaluation in between.  Every formula reads column A only, so evaluation
/// order is natural order (dynamic anchors in phase 1, CSE anchors in phase 2).
fn gen_history_cse(rng: &mut Rng) -> String {
    let mut ops: Vec<String> = vec![];
    let mut inputs = [0i32; 7];
    let mut anchors: BTreeMap<(i32, i32), Tpl> = BTreeMap::new();
    for k in 1..=6 {
        inputs[k] = rng.range(1, 3) as i32;
        ops.push(format!("P.{k}.1.{}", hex(&inputs[k].to_string())));
    }
    let spec = |anchors: &BTreeMap<(i32, i32), Tpl>, inputs: &[i32; 7]| -> String {
        let v: Vec<String> = anchors.iter().map(|(k, t)| format!("{},{},{}", k.0, k.1, shape_spec(t, inputs))).collect();
        if v.is_empty() { "-".to_string() } else { v.join("_") }
    };
    let n = rng.range(8, 24);
    for _ in 0..n {
        let at = (rng.range(1, 5) as i32, rng.range(2, 6) as i32);
        match rng.below(10) {
            0 | 1 | 2 => {
                let t = match rng.below(3) {
                    0 => Tpl::Seq(rng.range(1, 3) as i32, rng.range(1, 3) as i32),
                    1 => Tpl::SeqOfInput(rng.range(1, 6) as i32, rng.chance(1, 2)),
                    _ => {
                        let a = rng.range(1, 4) as i32;
                        Tpl::RangeTimes(a, a + rng.range(0, 2) as i32)
                    }
                };
                ops.push(format!("D.{}.{}.{}", at.0, at.1, hex(&tpl_text(&t))));
                anchors.insert(at, t);
            }
            3 | 4 | 5 => {
                let (w, h) = (rng.range(1, 3), rng.range(1, 3));
                // a third of the fixed-range arrays read (part of) their OWN range: circular
                let text = match rng.below(6) {
                    0 | 1 => format!("=SEQUENCE({h},{w})"),
                    2 | 3 => "=A1:A2*2".to_string(),
                    4 => format!("={}:{}+1", a1(at.0, at.1), a1(at.0 + h as i32 - 1, at.1 + w as i32 - 1)),
                    _ => format!("={}:{}+1", a1(at.0, at.1), a1(at.0 + h as i32 - 1, at.1)),
                };
                ops.push(format!("A.{}.{}.{w}.{h}.{}", at.0, at.1, hex(&text)));
            }
            6 => {
                ops.push(format!("P.{}.{}.{}", at.0, at.1, hex(&rng.range(10, 99).to_string())));
                anchors.remove(&at);
            }
            7 => {
                ops.push(format!("X.{}.{}", at.0, at.1));
                anchors.remove(&at);
            }
            _ => ops.push(format!("E.{}", spec(&anchors, &inputs))),
        }
    }
    ops.push(format!("E.{}", spec(&anchors, &inputs)));
    ops.join(";")
}

fn gen_hist(ctx: &Ctx, sink: &mut dyn FnMut(String)) {
    // corpus: grow / shrink / block / unblock / spill feeding a spill / out of grid
    let h = |s: &str| hex(s);
    sink(format!(
        "c31 hist P.1.1.{};D.1.2.{};E.1,2,3,1;P.1.1.{};E.1,2,2,1;P.2.2.{};E.1,2,2,1;X.2.2;E.1,2,2,1;D.1.4.{};E.1,2,2,1_1,4,R,1,2",
        h("3"), h("=SEQUENCE(A1)"), h("2"), h("9"), h("=B1#+1")
    ));
    sink(format!("c31 hist D.1048575.2.{};E.1048575,2,3,1;D.1.16384.{};E.1,16384,1,2_1048575,2,3,1", h("=SEQUENCE(3,1)"), h("=SEQUENCE(1,2)")));
    // an anchor blocked by the old spill of an anchor evaluated after it
    sink(format!(
        "c31 hist P.1.1.{};D.2.2.{};E.2,2,1,2;D.1.3.{};P.1.1.{};E.1,3,3,1_2,2,1,1",
        h("2"), h("=SEQUENCE(1,A1)"), h("=SEQUENCE(3,1)"), h("1")
    ));
    let mut rng = Rng::new(ctx.seed ^ 0xC31);
    // F31b: a dynamic formula typed into a not yet evaluated CSE range, and a CSE range entered over a
    // dynamic anchor that has spilled
    // a CSE array whose range contains cells it reads (circular; was: grew on every evaluate)
    sink(format!("c31 hist A.1.1.2.2.{};E.-;E.-;E.-", h("=B1:C2+1")));
    sink(format!("c31 hist A.1.1.2.2.{};D.2.2.{};E.2,2,2,1", h("=SEQUENCE(2,2)"), h("=SEQUENCE(2,1)")));
    sink(format!("c31 hist D.2.2.{};E.2,2,2,1;A.1.1.2.2.{};E.2,2,2,1", h("=SEQUENCE(2,1)"), h("=SEQUENCE(2,2)")));
    let count = if ctx.tier == Tier::Quick { 300 } else { 20_000 };
    for _ in 0..count {
        let mut r = rng.fork();
        sink(format!("c31 hist {}", gen_history(&mut r, false)));
    }
    for _ in 0..count / 3 {
        let mut r = rng.fork();
        sink(format!("c31 hist {}", gen_history_cse(&mut r)));
    }
}

fn gen_user(ctx: &Ctx, sink: &mut dyn FnMut(String)) {
    let mut rng = Rng::new(ctx.seed ^ 0xC31_0001);
    let count = if ctx.tier == Tier::Quick { 150 } else { 8_000 };
    for _ in 0..count {
        let mut r = rng.fork();
        sink(format!("c31 user {}", gen_history(&mut r, true)));
    }
}

// ---------- c31-agg: result sizes that depend on an aggregate over an area another array spills into ----------

/// One geometry: an anchor Y with a literal shape; a range R that Y's spill touches ONLY in R's
/// last / first row or last / first column (or R is a single row / column); plain numbers in the
/// rest of R; an anchor X (before or after Y in natural order, its own area free) whose result
/// size or values are an aggregate over R.  Returns the cell inputs and the spec of X.
pub fn gen_agg_set(rng: &mut Rng) -> (Vec<((i32, i32), String)>, String) {
    let (ry, cy) = (rng.range(4, 7) as i32, rng.range(4, 6) as i32);
    let (hy, wy) = (rng.range(1, 3) as i32, rng.range(1, 3) as i32);
    let k = rng.range(0, 2) as i32; // extra rows / columns of R beyond the one Y touches
    let side = rng.below(4);
    // R = (r1,c1,r2,c2)
    let (r1, c1, r2, c2) = match side {
        0 => (ry - k, cy - rng.range(0, 1) as i32, ry, cy + wy - 1 + rng.range(0, 1) as i32), // Y touches R's LAST row
        1 => (ry + hy - 1, cy - rng.range(0, 1) as i32, ry + hy - 1 + k, cy + wy - 1 + rng.range(0, 1) as i32), // FIRST row
        2 => (ry - rng.range(0, 1) as i32, cy - k, ry + hy - 1 + rng.range(0, 1) as i32, cy), // LAST column
        _ => (ry - rng.range(0, 1) as i32, cy + wy - 1, ry + hy - 1 + rng.range(0, 1) as i32, cy + wy - 1 + k), // FIRST column
    };
    let mut cells: Vec<((i32, i32), String)> = vec![];
    cells.push(((ry, cy), format!("=SEQUENCE({hy},{wy})")));
    for r in r1..=r2 {
        for c in c1..=c2 {
            let in_y = r >= ry && r < ry + hy && c >= cy && c < cy + wy;
            if !in_y && rng.chance(2, 3) {
                cells.push(((r, c), rng.range(0, 2).to_string()));
            }
        }
    }
    let before = rng.chance(2, 3);
    let rx = if before { rng.range(1, 2) as i32 } else { rng.range(12, 13) as i32 };
    let cx = 14;
    let range = format!("{}:{}", a1(r1, c1), a1(r2, c2));
    let (kind, agg, text) = match rng.below(8) {
        0 | 1 => ("V", "SUM", format!("=SEQUENCE(SUM({range}))")),
        2 => ("V", "COUNT", format!("=SEQUENCE(COUNT({range}))")),
        3 => ("V", "MAX", format!("=SEQUENCE(MAX({range}))")),
        4 => ("H", "SUM", format!("=SEQUENCE(1,SUM({range}))")),
        5 => ("H", "COUNT", format!("=SEQUENCE(1,COUNT({range}))")),
        _ => ("M", "-", format!("={range}*2")),
    };
    cells.push(((rx, cx), text));
    // readers of X, to make stale values visible too
    if rng.chance(1, 2) {
        cells.push(((rx, cx - 2), format!("=SUM({}#)", a1(rx, cx))));
    }
    (cells, format!("{rx},{cx},{kind},{agg},{r1},{c1},{r2},{c2}"))
}

fn shuffle<T>(xs: &mut [T], rng: &mut Rng) {
    for i in (1..xs.len()).rev() {
        let j = rng.below(i as u64 + 1) as usize;
        xs.swap(i, j);
    }
}

fn number_at(m: &Model, r: i32, c: i32) -> Option<f64> {
    match m.get_cell_value_by_index(0, r, c) {
        Ok(CellValue::Number(x)) => Some(x),
        _ => None,
    }
}

fn eval_agg(req: &str) -> ImplOut {
    let f: Vec<&str> = req.split(' ').collect();
    let (mode, seed) = match f.get(2).and_then(|x| x.split_once('.')) {
        Some((a, b)) => (a.parse::<u32>().unwrap_or(0), b.parse::<u64>().unwrap_or(1)),
        None => return ImplOut::new("bad-request".into()).trivial(),
    };
    let cells: Vec<((i32, i32), String)> = match f.get(3) {
        Some(x) => x
            .split('|')
            .filter_map(|e| {
                let p: Vec<&str> = e.split('.').collect();
                Some(((p.first()?.parse().ok()?, p.get(1)?.parse().ok()?), unhex(p.get(2)?)?))
            })
            .collect(),
        None => return ImplOut::new("bad-request".into()).trivial(),
    };
    let spec: Vec<&str> = f.get(4).map(|x| x.split(',').collect()).unwrap_or_default();
    if spec.len() != 8 {
        return ImplOut::new("bad-request".into()).trivial();
    }
    let n = |i: usize| -> i32 { spec[i].parse().unwrap_or(0) };
    let (rx, cx, kind, agg, r1, c1, r2, c2) = (n(0), n(1), spec[2], spec[3], n(4), n(5), n(6), n(7));
    let mut idx: Vec<usize> = (0..cells.len()).collect();
    let mut rng = Rng::new(seed);
    if mode > 0 {
        shuffle(&mut idx, &mut rng);
    }
    // the state after ONE evaluation following the last edit
    let m: Model = match mode {
        0 | 1 => {
            let mut m = Model::new_empty("c31", "en", "UTC", "en").unwrap();
            for &i in &idx {
                let ((r, c), t) = &cells[i];
                let _ = m.set_user_input(0, *r, *c, t.clone());
                if mode == 1 {
                    m.evaluate();
                }
            }
            if mode == 0 {
                m.evaluate();
            }
            m
        }
        _ => {
            let mut um = UserModel::new_empty("c31", "en", "UTC", "en").unwrap();
            for &i in &idx {
                let ((r, c), t) = &cells[i];
                let _ = um.set_user_input(0, *r, *c, t);
            }
            match Model::from_bytes(&um.get_model().to_bytes(), "en") {
                Ok(m) => m,
                Err(_) => return ImplOut::new("copy-failed".into()).trivial(),
            }
        }
    };
    let mut fails: Vec<(String, String)> = vec![];
    check_invariant(&m, &mut fails);
    check_exact(&m, &mut fails);
    check_stable(&m, &mut fails);
    // the natural result of X over the values the sheet shows NOW
    let mut nums: Vec<f64> = vec![];
    for r in r1..=r2 {
        for c in c1..=c2 {
            if let Some(x) = number_at(&m, r, c) {
                nums.push(x);
            }
        }
    }
    let aggv = match agg {
        "SUM" => nums.iter().sum::<f64>(),
        "COUNT" => nums.len() as f64,
        "MAX" => nums.iter().cloned().fold(0.0, f64::max),
        _ => 0.0,
    };
    let natural: Option<(i32, i32)> = match kind {
        "V" if aggv >= 1.0 => Some((aggv as i32, 1)),
        "H" if aggv >= 1.0 => Some((1, aggv as i32)),
        "M" => Some((r2 - r1 + 1, c2 - c1 + 1)),
        _ => None,
    };
    let mut out = ImplOut::new(String::new());
    out = out.tag(&format!("mode:{mode}")).tag(&format!("kind:{kind}{agg}"));
    if let Some((h, w)) = natural {
        match cell_at(&m, rx, cx) {
            Some(Cell::ArrayFormula { r: (sw, sh), .. }) => {
                if (*sh, *sw) != (h, w) {
                    fails.push(("c31:block-size-differs-from-current-result".into(), format!(
                        "{} should now produce {h}x{w} ({agg} over {}:{} = {aggv}) but its range is {sh}x{sw}",
                        a1(rx, cx), a1(r1, c1), a1(r2, c2))));
                } else {
                    // element values for the two families
                    for i in 0..h {
                        for j in 0..w {
                            let want = if kind == "M" {
                                2.0 * number_at(&m, r1 + i, c1 + j).unwrap_or(0.0)
                            } else {
                                (i * w + j + 1) as f64
                            };
                            let got = number_at(&m, rx + i, cx + j);
                            if kind == "M" && number_at(&m, r1 + i, c1 + j).is_none() && cell_at(&m, r1 + i, c1 + j).map(|c| !matches!(c, Cell::EmptyCell { .. })).unwrap_or(false) {
                                continue; // a non-number source cell: not this oracle's business
                            }
                            if got != Some(want) {
                                fails.push(("c31:spilled-value-differs-from-current-result".into(), format!(
                                    "{} element ({i},{j}) shows {:?}, the current inputs give {want}", a1(rx, cx), got)));
                            }
                        }
                    }
                }
                out = out.tag("x:checked");
            }
            other => fails.push(("c31:anchor-missing".into(), format!("{} is {:?}", a1(rx, cx), other.map(kind_of)))),
        }
    } else {
        out = out.tag("x:scalar-or-error").trivial();
    }
    out.oracle = fails;
    out
}

fn gen_agg(ctx: &Ctx, sink: &mut dyn FnMut(String)) {
    let mut rng = Rng::new(ctx.seed ^ 0xC31_0002);
    // the integrator's seed-defect shape, then the class
    let enc = |cells: &[((i32, i32), String)]| cells.iter().map(|((r, c), t)| format!("{r}.{c}.{}", hex(t))).collect::<Vec<_>>().join("|");
    let demo = vec![((1, 1), "=SEQUENCE(SUM(C1:C3))".to_string()), ((1, 3), "1".to_string()), ((3, 2), "=SEQUENCE(1,2)".to_string())];
    sink(format!("c31 agg 0.1 {} 1,1,V,SUM,1,3,3,3", enc(&demo)));
    let count = if ctx.tier == Tier::Quick { 120 } else { 6000 };
    for _ in 0..count {
        let mut r = rng.fork();
        let (cells, spec) = gen_agg_set(&mut r);
        // once at the end; then every edit followed by an evaluate, in several entry orders, on Model and UserModel
        sink(format!("c31 agg 0.1 {} {spec}", enc(&cells)));
        for _ in 0..3 {
            sink(format!("c31 agg 1.{} {} {spec}", r.next() % 1_000_000, enc(&cells)));
            sink(format!("c31 agg 2.{} {} {spec}", r.next() % 1_000_000, enc(&cells)));
        }
    }
}

pub fn suites() -> Vec<Suite> {
    vec![
        Suite {
            name: "c31-hist",
            rule: "editing histories on a real Model (12-40 edits: dynamic-array formulas SEQUENCE(h,w) / SEQUENCE(cell) / range*2 / pure range / other#+1 placed, overwritten and deleted, values typed into and cleared from spill areas, anchors at the last rows/columns, scalar formulas reading spills) with an evaluate every few edits; the cell-kind structure after every evaluate vs the Lean driver; oracle: spill invariant, element-wise exactness against the same formula entered as a CSE array, #SPILL! iff the natural block is blocked or leaves the grid; non-trivial = at least one array spilled or was refused",
            modelled: true,
            gen: gen_hist,
            eval: eval_hist,
            exhaustive: never,
        },
        Suite {
            name: "c31-user",
            rule: "UserModel histories: the same edits plus undo, redo, insert row, delete row, clear range (the model evaluates after every operation); oracle only: spill invariant and element-wise exactness after every operation; non-trivial = at least one spilled block was compared",
            modelled: false,
            gen: gen_user,
            eval: eval_user,
            exhaustive: never,
        },
        Suite {
            name: "c31-agg",
            rule: "two dynamic arrays X and Y where the size (SEQUENCE(SUM/COUNT/MAX(range)), vertical and horizontal) or the values (range*2) of X depend on a RANGE that Y's spill touches only in its last / first row or last / first column (ranges of 1-3 rows/columns), X before or after Y in evaluation order; built once with a single evaluate, and in shuffled entry orders with an evaluate after every edit on Model and on UserModel; oracle after the single last evaluation: the size of X equals the aggregate over the values the sheet shows, its elements are those of the current result, spill invariant, CSE exactness, and a second evaluate changes nothing; non-trivial = X has an array result",
            modelled: false,
            gen: gen_agg,
            eval: eval_agg,
            exhaustive: never,
        },
    ]
}
