//! C07 — evaluation is deterministic and independent of editing order.
//!  * `c07-order` : a cell-input set over the modelled fragment (the C05 generator) is built in k
//!                  random orders × {evaluate after every edit, once at the end} × {with / without
//!                  `to_bytes`/`from_bytes` in the middle}; every build is evaluated twice; all value
//!                  maps must be equal (oracle) and equal to the Lean driver's values.
//!  * `c07-dyn`   : the same for input sets with dynamic arrays that feed each other, block each
//!                  other and depend on size cells (oracle only). The number of phase-1 restarts of
//!                  `Model::evaluate` is read through the `ironcalc_verif` hook and reported.
use crate::prng::Rng;
use crate::proto::{hex, unhex};
use crate::run::{never, Ctx, ImplOut, Suite, Tier};
use crate::suites::c05::{build as build_c05, canon_formula_value, col_name, dec_wb, enc_wb, gen_random, render, Wb, C, V};
use ironcalc_base::cell::CellValue;
use ironcalc_base::types::{ArrayKind, Cell, FormulaValue};
use ironcalc_base::Model;

fn shuffle<T>(xs: &mut [T], rng: &mut Rng) {
    for i in (1..xs.len()).rev() {
        let j = rng.below(i as u64 + 1) as usize;
        xs.swap(i, j);
    }
}

fn mode_name(b: usize) -> &'static str {
    match b % 4 {
        0 => "once",
        1 => "each",
        2 => "once+reload",
        _ => "each+reload",
    }
}

// ---------- c07-order ----------

fn formula_values(m: &Model, wb: &Wb) -> Vec<String> {
    let mut out = vec![];
    for (p, c) in &wb.cells {
        if let C::Formula(_) = c {
            let v = m.workbook.worksheets[p.0 as usize].sheet_data.get(&p.1).and_then(|r| r.get(&p.2));
            out.push(match v {
                Some(Cell::CellFormula { v, .. }) | Some(Cell::ArrayFormula { v, .. }) => canon_formula_value(v),
                _ => "missing".into(),
            });
        }
    }
    out
}

/// both canonical values are numbers and differ by a few units in the last place at most
fn close_numbers(x: &str, y: &str) -> bool {
    let bits = |s: &str| s.strip_prefix('n').and_then(|h| u64::from_str_radix(h, 16).ok()).map(f64::from_bits);
    match (bits(x), bits(y)) {
        (Some(a), Some(b)) => a.is_finite() && b.is_finite() && (a - b).abs() <= 1e-13 * a.abs().max(b.abs()),
        _ => false,
    }
}

fn eval_order(req: &str) -> ImplOut {
    let f: Vec<&str> = req.split(' ').collect();
    let (k, seed) = match f.get(2).and_then(|x| x.split_once('.')) {
        Some((a, b)) => (a.parse::<usize>().unwrap_or(2), b.parse::<u64>().unwrap_or(1)),
        None => return ImplOut::new("bad-request".into()).trivial(),
    };
    let wb = match f.get(3).and_then(|x| dec_wb(x)) {
        Some(w) => w,
        None => return ImplOut::new("bad-cells".into()).trivial(),
    };
    // baseline: the C05 way (natural order, one evaluate)
    let mut base = build_c05(&wb);
    base.evaluate();
    let baseline = formula_values(&base, &wb);
    let mut out = ImplOut::new(baseline.join(";"));
    let mut rng = Rng::new(seed);
    let empty = Wb { cells: wb.cells.iter().map(|(p, _)| (*p, C::None)).collect() };
    for b in 0..k {
        let each = b % 2 == 1;
        let reload = (b / 2) % 2 == 1;
        let mut idx: Vec<usize> = (0..wb.cells.len()).filter(|i| !matches!(wb.cells[*i].1, C::None)).collect();
        shuffle(&mut idx, &mut rng);
        // sheets first (a formula that names a sheet which does not exist yet would not parse)
        let mut m = build_c05(&empty);
        let half = idx.len() / 2;
        for (n, &i) in idx.iter().enumerate() {
            let (p, c) = &wb.cells[i];
            match c {
                C::None => {}
                C::Plain(v) => match v {
                    V::Num(x) => m.update_cell_with_number(p.0, p.1, p.2, *x).unwrap(),
                    V::Str(s) => m.update_cell_with_text(p.0, p.1, p.2, s).unwrap(),
                    V::Bool(x) => m.update_cell_with_bool(p.0, p.1, p.2, *x).unwrap(),
                    V::Err(e) => m.set_user_input(p.0, p.1, p.2, crate::suites::c05::err_text_pub(e).to_string()).unwrap(),
                    V::Empty => {}
                },
                C::Formula(e) => m.set_user_input(p.0, p.1, p.2, format!("={}", render(&wb, p.0, e))).unwrap(),
            }
            if each {
                m.evaluate();
            }
            if reload && n == half {
                m = Model::from_bytes(&m.to_bytes(), "en").unwrap();
            }
        }
        m.evaluate();
        let v1 = formula_values(&m, &wb);
        m.evaluate();
        let v2 = formula_values(&m, &wb);
        if v1 != v2 {
            out = out.fail("c07:evaluate-twice-differs", &format!("build {b} ({}): {} then {}", mode_name(b), v1.join(";"), v2.join(";")));
        }
        if v1 != baseline {
            // after a reload the formulas are re-parsed from their stored text, in which the engine's
            // printer drops the parentheses of `a+(b-c)`: the value can then differ in the last bits
            let ulp_only = reload
                && v1.len() == baseline.len()
                && v1.iter().zip(baseline.iter()).all(|(x, y)| x == y || close_numbers(x, y));
            let sig = if ulp_only {
                format!("c07:order-dependent:{}:float-reassociation-after-reload", mode_name(b))
            } else {
                format!("c07:order-dependent:{}", mode_name(b))
            };
            out = out.fail(&sig, &format!("build {b} order {:?}: {} vs natural-order build {}", idx, v1.join(";"), baseline.join(";")));
        }
    }
    out = out.tag(&format!("builds:{k}"));
    out.nontrivial = !baseline.is_empty();
    out
}

fn gen_order(ctx: &Ctx, sink: &mut dyn FnMut(String)) {
    let mut rng = Rng::new(ctx.seed ^ 0xC07);
    let (count, k) = if ctx.tier == Tier::Quick { (150, 6) } else { (5000, 12) };
    for _ in 0..count {
        let mut r = rng.fork();
        let wb = gen_random(&mut r, false);
        sink(format!("c07 build {k}.{} {}", r.next() % 1_000_000, enc_wb(&wb)));
    }
}

// ---------- c07-dyn ----------

fn a1(r: i32, c: i32) -> String {
    format!("{}{}", col_name(c), r)
}

/// types one cell input; `CSE:<w>:<h>:<formula>` is a fixed-range array formula over w columns, h rows
fn enter(m: &mut Model, r: i32, c: i32, text: &str) {
    if let Some(rest) = text.strip_prefix("CSE:") {
        let p: Vec<&str> = rest.splitn(3, ':').collect();
        if let (Some(w), Some(h), Some(f)) = (p.first().and_then(|x| x.parse().ok()), p.get(1).and_then(|x| x.parse().ok()), p.get(2)) {
            let _ = m.set_user_array_formula(0, r, c, w, h, f);
            return;
        }
    }
    let _ = m.set_user_input(0, r, c, text.to_string());
}

/// fixed-range arrays on a dependency cycle through their own ranges (rows 10-16, away from the rest):
/// an array that reads its own range, two arrays that read each other's ranges, an array that reads a
/// scalar cell which reads the array's range
fn add_cse_cycles(rng: &mut Rng, cells: &mut std::collections::BTreeMap<(i32, i32), String>) {
    match rng.below(4) {
        0 => {
            let (w, h) = (rng.range(1, 3) as i32, rng.range(1, 3) as i32);
            let shift = rng.range(0, w as i64 - 1) as i32;
            cells.insert((10, 2), format!("CSE:{w}:{h}:={}:{}+1", a1(10, 2 + shift), a1(10 + h - 1, 2 + shift + w - 1)));
        }
        1 => {
            cells.insert((10, 2), format!("CSE:2:2:={}:{}+1", a1(10, 5), a1(11, 6)));
            cells.insert((10, 5), format!("CSE:2:2:={}:{}*2", a1(10, 2), a1(11, 3)));
        }
        2 => {
            cells.insert((10, 2), format!("CSE:1:2:={}+1", a1(10, 5)));
            cells.insert((10, 5), format!("=SUM({}:{})", a1(10, 2), a1(11, 2)));
        }
        _ => {}
    }
}

fn gen_dyn_set(rng: &mut Rng) -> Vec<((i32, i32), String)> {
    let mut cells: std::collections::BTreeMap<(i32, i32), String> = Default::default();
    for k in 1..=4 {
        cells.insert((k, 1), rng.range(1, 4).to_string());
    }
    let n_anchor = rng.range(1, 5);
    let mut anchors: Vec<(i32, i32)> = vec![];
    for _ in 0..n_anchor {
        let at = (rng.range(1, 5) as i32, rng.range(2, 7) as i32);
        if cells.contains_key(&at) {
            continue;
        }
        let text = match rng.below(8) {
            0 | 1 => format!("=SEQUENCE({},{})", rng.range(1, 4), rng.range(1, 3)),
            2 | 3 => format!("=SEQUENCE(A{})", rng.range(1, 4)),
            4 => format!("=A1:A{}*2", rng.range(2, 4)),
            5 | 6 | 7 if !anchors.is_empty() && rng.chance(1, 2) => {
                // the size depends on an aggregate over a small area next to / under another anchor
                let k = anchors[rng.below(anchors.len() as u64) as usize];
                let (r1, c1) = (k.0 - rng.range(0, 2) as i32, k.1 - rng.range(0, 1) as i32);
                let (r1, c1) = (r1.max(1), c1.max(2));
                let (r2, c2) = (r1 + rng.range(0, 2) as i32, c1 + rng.range(0, 2) as i32);
                let agg = ["SUM", "COUNT", "MAX"][rng.below(3) as usize];
                format!("=SEQUENCE({agg}({}:{}))", a1(r1, c1), a1(r2, c2))
            }
            5 if !anchors.is_empty() => {
                let k = anchors[rng.below(anchors.len() as u64) as usize];
                format!("=SORT({}#)", a1(k.0, k.1))
            }
            6 if !anchors.is_empty() => {
                // a range over the area another anchor spills into
                let k = anchors[rng.below(anchors.len() as u64) as usize];
                format!("={}:{}*2", a1(k.0, k.1), a1(k.0 + 2, k.1))
            }
            _ if !anchors.is_empty() => {
                let k = anchors[rng.below(anchors.len() as u64) as usize];
                format!("={}#+1", a1(k.0, k.1))
            }
            _ => format!("=SEQUENCE(1,A{})", rng.range(1, 4)),
        };
        cells.insert(at, text);
        anchors.push(at);
    }
    for _ in 0..rng.below(4) {
        let at = (rng.range(1, 8) as i32, rng.range(2, 8) as i32);
        if cells.contains_key(&at) {
            continue;
        }
        let text = match rng.below(4) {
            0 => rng.range(10, 99).to_string(),
            1 if !anchors.is_empty() => {
                let k = anchors[rng.below(anchors.len() as u64) as usize];
                format!("=SUM({}#)", a1(k.0, k.1))
            }
            2 => format!("={}+1", a1(rng.range(1, 6) as i32, rng.range(2, 7) as i32)),
            _ => "=SUM(B1:G6)".to_string(),
        };
        cells.insert(at, text);
    }
    add_cse_cycles(rng, &mut cells);
    cells.into_iter().collect()
}

fn snapshot(m: &Model) -> (Vec<String>, Vec<(i32, i32)>) {
    let mut out = vec![];
    let mut spill_errors = vec![];
    let mut keys: Vec<(i32, i32)> = vec![];
    for (r, row) in &m.workbook.worksheets[0].sheet_data {
        for c in row.keys() {
            keys.push((*r, *c));
        }
    }
    keys.sort();
    for (r, c) in keys {
        let cell = &m.workbook.worksheets[0].sheet_data[&r][&c];
        if matches!(cell, Cell::EmptyCell { .. }) {
            continue;
        }
        if let Cell::ArrayFormula { kind: ArrayKind::Dynamic, v: FormulaValue::Error { ei: ironcalc_base::expressions::token::Error::SPILL, .. }, .. } = cell {
            spill_errors.push((r, c));
        }
        let v = match m.get_cell_value_by_index(0, r, c) {
            Ok(CellValue::Number(x)) => format!("n{:016x}", x.to_bits()),
            Ok(CellValue::String(s)) => format!("s{s}"),
            Ok(CellValue::Boolean(b)) => format!("b{b}"),
            Ok(CellValue::None) => "none".into(),
            Err(e) => format!("err:{e}"),
        };
        out.push(format!("{}={}", a1(r, c), v));
    }
    (out, spill_errors)
}

fn eval_dyn(req: &str) -> ImplOut {
    let f: Vec<&str> = req.split(' ').collect();
    let (k, seed) = match f.get(2).and_then(|x| x.split_once('.')) {
        Some((a, b)) => (a.parse::<usize>().unwrap_or(2), b.parse::<u64>().unwrap_or(1)),
        None => return ImplOut::new("bad-request".into()).trivial(),
    };
    let cells: Vec<((i32, i32), String)> = match f.get(3) {
        Some(x) => x
            .split('|')
            .filter_map(|e| {
                let p: Vec<&str> = e.split('.').collect();
                Some(((p.first()?.parse().ok()?, p.get(1)?.parse().ok()?), unhex(p.get(2)?)?))
            })
            .collect(),
        None => return ImplOut::new("bad-request".into()).trivial(),
    };
    let mut rng = Rng::new(seed);
    let mut out = ImplOut::new(String::new());
    let mut baseline: Option<(Vec<String>, Vec<(i32, i32)>)> = None;
    let mut max_restarts = 0usize;
    let mut gave_up = false;
    let mut n_anchors = 0usize;
    for b in 0..k {
        let each = b % 2 == 1;
        let reload = (b / 2) % 2 == 1;
        let mut idx: Vec<usize> = (0..cells.len()).collect();
        if b > 0 {
            shuffle(&mut idx, &mut rng);
        }
        let mut m = Model::new_empty("c07", "en", "UTC", "en").unwrap();
        let half = idx.len() / 2;
        for (n, &i) in idx.iter().enumerate() {
            let ((r, c), text) = &cells[i];
            enter(&mut m, *r, *c, text);
            if each {
                m.evaluate();
            }
            if reload && n == half {
                m = Model::from_bytes(&m.to_bytes(), "en").unwrap();
            }
        }
        m.evaluate();
        let (a, r, g) = ironcalc_base::verif::phase1::last();
        n_anchors = n_anchors.max(a);
        max_restarts = max_restarts.max(r);
        gave_up |= g;
        let s1 = snapshot(&m);
        m.evaluate();
        let s2 = snapshot(&m);
        if s1.0 != s2.0 {
            let sig = if s1.1 != s2.1 { "c07:evaluate-twice-differs:spill-conflict" } else { "c07:evaluate-twice-differs" };
            out = out.fail(sig, &format!("build {b} ({}): first {} second {}", mode_name(b), s1.0.join(" "), s2.0.join(" ")));
        }
        if let Some(base) = &baseline {
            if base.0 != s1.0 {
                let kind = if base.1 != s1.1 { ":spill-conflict" } else { "" };
                let sig = format!("c07:order-dependent:{}{}", mode_name(b), kind);
                out = out.fail(&sig, &format!("build {b} order {:?}: {} vs {}", idx, s1.0.join(" "), base.0.join(" ")));
            }
        } else {
            baseline = Some(s1);
        }
    }
    out = out.tag(match max_restarts {
        0 => "restarts:0",
        1..=3 => "restarts:1-3",
        _ => "restarts:4+",
    });
    out = out.tag(&format!("anchors:{n_anchors}"));
    if gave_up {
        out = out.tag("phase1:bound-reached");
    }
    out = out.tag(&format!("max-restarts-over-bound:{}/{}", max_restarts, n_anchors * n_anchors + 1));
    out.nontrivial = n_anchors > 0;
    out
}

fn gen_dyn(ctx: &Ctx, sink: &mut dyn FnMut(String)) {
    let mut rng = Rng::new(ctx.seed ^ 0xC07_0001);
    let (count, k) = if ctx.tier == Tier::Quick { (150, 6) } else { (5000, 12) };
    for _ in 0..count {
        let mut r = rng.fork();
        let cells = gen_dyn_set(&mut r);
        let enc: Vec<String> = cells.iter().map(|((r, c), t)| format!("{r}.{c}.{}", hex(t))).collect();
        sink(format!("c07 dyn {k}.{} {}", r.next() % 1_000_000, enc.join("|")));
    }
    // sizes / values that depend on an aggregate over a range another array spills into at its edge
    for _ in 0..count / 2 {
        let mut r = rng.fork();
        let (cells, _) = crate::suites::c31::gen_agg_set(&mut r);
        let enc: Vec<String> = cells.iter().map(|((r, c), t)| format!("{r}.{c}.{}", hex(t))).collect();
        sink(format!("c07 dyn {k}.{} {}", r.next() % 1_000_000, enc.join("|")));
    }
}

// ---------- c07-sched: the phase-1 scheduler against its Lean model ----------

type Cells = Vec<((i32, i32), String)>;

fn enc_cells(cells: &Cells) -> String {
    cells.iter().map(|((r, c), t)| format!("{r}.{c}.{}", hex(t))).collect::<Vec<_>>().join("|")
}

fn dec_cells(x: &str) -> Cells {
    x.split('|')
        .filter_map(|e| {
            let p: Vec<&str> = e.split('.').collect();
            Some(((p.first()?.parse().ok()?, p.get(1)?.parse().ok()?), unhex(p.get(2)?)?))
        })
        .collect()
}

/// builds the sheet, evaluates ONCE, and reads the scheduler's trace through the verif hook:
/// (model, number of anchors, recorded oracle, answer = final order / restarts / bound reached)
fn run_engine(cells: &Cells) -> (Model<'static>, usize, String, String, Vec<(u32, i32, i32)>) {
    let mut m = Model::new_empty("c07", "en", "UTC", "en").unwrap();
    for ((r, c), t) in cells {
        enter(&mut m, *r, *c, t);
    }
    m.evaluate();
    let (passes, fin) = ironcalc_base::verif::phase1::trace();
    let (_, restarts, gave_up) = ironcalc_base::verif::phase1::last();
    let natural: Vec<(u32, i32, i32)> = passes.first().map(|p| p.0.clone()).unwrap_or_default();
    let id = |p: &(u32, i32, i32)| natural.iter().position(|q| q == p).unwrap_or(999);
    let oracle: Vec<String> = passes
        .iter()
        .map(|(order, conflict)| match conflict {
            None => "-".to_string(),
            Some((i, js)) => format!("{}:{}", id(&order[*i]), js.iter().map(|j| id(&order[*j]).to_string()).collect::<Vec<_>>().join(".")),
        })
        .collect();
    let ans = format!("{} {} {}", fin.iter().map(|p| id(p).to_string()).collect::<Vec<_>>().join("."), restarts, if gave_up { 1 } else { 0 });
    (m, natural.len(), oracle.join("/"), ans, natural)
}

/// anchors with LITERAL sizes on disjoint blocks whose formulas read (through `0*SUM(range)`) parts of
/// other anchors' blocks: the relation "a reads what b writes" is known without running anything
fn gen_static(rng: &mut Rng) -> (Cells, String) {
    let n = rng.range(2, 7) as usize;
    let mut slots: Vec<(i32, i32)> = vec![];
    while slots.len() < n {
        let s = (rng.range(0, 3) as i32, rng.range(0, 3) as i32);
        if !slots.contains(&s) {
            slots.push(s);
        }
    }
    slots.sort();
    let pos: Vec<(i32, i32)> = slots.iter().map(|(sr, sc)| (2 + 4 * sr, 2 + 4 * sc)).collect();
    let dims: Vec<(i32, i32)> = (0..n).map(|_| (rng.range(1, 3) as i32, rng.range(1, 3) as i32)).collect();
    let acyclic = rng.chance(4, 5);
    let mut rank: Vec<usize> = (0..n).collect();
    shuffle(&mut rank, rng);
    let mut cells: Cells = vec![];
    let mut pairs: Vec<String> = vec![];
    for a in 0..n {
        let mut sums: Vec<String> = vec![];
        for b in 0..n {
            if a == b || !rng.chance(2, 5) || (acyclic && rank[b] >= rank[a]) {
                continue;
            }
            let (r, c) = pos[b];
            let (h, w) = dims[b];
            // the whole block, its last row, its first column, its last cell, or the anchor cell only
            let (r1, c1, r2, c2) = match rng.below(5) {
                0 => (r, c, r + h - 1, c + w - 1),
                1 => (r + h - 1, c, r + h - 1, c + w - 1),
                2 => (r, c, r + h - 1, c),
                3 => (r + h - 1, c + w - 1, r + h - 1, c + w - 1),
                _ => (r, c, r, c),
            };
            sums.push(format!("SUM({}:{})", a1(r1, c1), a1(r2, c2)));
            pairs.push(format!("{a}>{b}"));
        }
        let (h, w) = dims[a];
        let text = if sums.is_empty() { format!("=SEQUENCE({h},{w})") } else { format!("=SEQUENCE({h},{w})+0*({})", sums.join("+")) };
        cells.push((pos[a], text));
    }
    let stat = format!("{}:{}", if acyclic { "A" } else { "C" }, if pairs.is_empty() { "-".to_string() } else { pairs.join(".") });
    (cells, stat)
}

fn eval_sched(req: &str) -> ImplOut {
    let f: Vec<&str> = req.split(' ').collect();
    if f.len() < 5 {
        return ImplOut::new("bad-request".into()).trivial();
    }
    let cells = dec_cells(f[2]);
    let (m, n, oracle, ans, natural) = run_engine(&cells);
    let mut out = ImplOut::new(ans.clone());
    if oracle != f[4] || n.to_string() != f[3] {
        out = out.fail("c07:sched:trace-not-reproducible", &format!("recorded {} anchors {}, now {} anchors {}", f[3], f[4], n, oracle));
    }
    let parts: Vec<&str> = ans.split(' ').collect();
    let gave_up = parts.get(2) == Some(&"1");
    let restarts: usize = parts.get(1).and_then(|x| x.parse().ok()).unwrap_or(0);
    out = out.tag(match restarts {
        0 => "restarts:0",
        1..=3 => "restarts:1-3",
        _ => "restarts:4+",
    });
    out = out.tag(&format!("anchors:{n}"));
    if gave_up {
        out = out.tag("phase1:bound-reached");
    }
    // the statically known relation (suite part `static`)
    if let Some(stat) = f.get(5) {
        let (kind, list) = stat.split_once(':').unwrap_or(("C", "-"));
        let pairs: Vec<(usize, usize)> = list
            .split('.')
            .filter_map(|p| p.split_once('>'))
            .filter_map(|(a, b)| Some((a.parse().ok()?, b.parse().ok()?)))
            .collect();
        let order: Vec<usize> = parts[0].split('.').filter_map(|x| x.parse().ok()).collect();
        out = out.tag(if kind == "A" { "static:acyclic" } else { "static:any" });
        if !gave_up && kind == "A" {
            // theorem (a) on the engine: nobody reads what a later anchor writes (on a cyclic relation
            // results are errors, blocks shrink to the anchor and the relation is not the static one)
            for (p, a) in order.iter().enumerate() {
                for b in order.iter().skip(p + 1) {
                    if pairs.contains(&(*a, *b)) {
                        out = out.fail("c07:sched:final-order-unsound", &format!("anchor {a} reads what anchor {b} writes but is placed before it: {}", parts[0]));
                    }
                }
            }
        }
        if kind == "A" {
            if gave_up {
                out = out.fail("c07:sched:bound-reached-on-acyclic-relation", &format!("{n} anchors, {restarts} restarts, relation {list}"));
            }
            // every block holds its own SEQUENCE after the single evaluate
            for (k, ((r, c), text)) in cells.iter().enumerate() {
                let dims: Vec<i32> = text.trim_start_matches("=SEQUENCE(").split(')').next().unwrap_or("").split(',').filter_map(|x| x.parse().ok()).collect();
                if dims.len() != 2 {
                    continue;
                }
                for i in 0..dims[0] {
                    for j in 0..dims[1] {
                        let want = (i * dims[1] + j + 1) as f64;
                        match m.get_cell_value_by_index(0, r + i, c + j) {
                            Ok(CellValue::Number(x)) if x == want => {}
                            other => {
                                out = out.fail("c07:sched:value-after-single-evaluate", &format!("anchor {k} `{text}` cell {} holds {:?}, expected {want}", a1(r + i, c + j), other));
                            }
                        }
                    }
                }
            }
        }
    }
    let _ = natural;
    out.nontrivial = n > 0;
    out
}

fn gen_sched(ctx: &Ctx, sink: &mut dyn FnMut(String)) {
    let mut rng = Rng::new(ctx.seed ^ 0xC07_0002);
    let count = if ctx.tier == Tier::Quick { 120 } else { 4000 };
    let mut emit = |cells: Cells, stat: Option<String>, sink: &mut dyn FnMut(String)| {
        let (_, n, oracle, _, _) = run_engine(&cells);
        match stat {
            Some(s) => sink(format!("c07 sched {} {n} {oracle} {s}", enc_cells(&cells))),
            None => sink(format!("c07 sched {} {n} {oracle}", enc_cells(&cells))),
        }
    };
    for _ in 0..count {
        let mut r = rng.fork();
        emit(gen_dyn_set(&mut r), None, sink);
        let mut r = rng.fork();
        emit(crate::suites::c31::gen_agg_set(&mut r).0, None, sink);
        for _ in 0..2 {
            let mut r = rng.fork();
            let (cells, stat) = gen_static(&mut r);
            emit(cells, Some(stat), sink);
        }
    }
}

pub fn suites() -> Vec<Suite> {
    vec![
        Suite {
            name: "c07-sched",
            rule: "the phase-1 scheduler of Model::evaluate against its Lean model (Eval/Phase1.lean): cell sets from the c07-dyn and c31-agg generators and sets of 2-7 anchors with literal sizes that read parts of each other's blocks (acyclic 4/5, arbitrary 1/5); one evaluate; the trace read through the cfg(ironcalc_verif) hook (order per pass, all conflicts found) is the oracle handed to the Lean scheduler, whose final order, restart count and bound flag must equal the engine's; oracle on the engine with the statically known relation: final order sound (nobody reads what a later anchor writes), bound never reached on an acyclic relation, every block exact after the single evaluate; non-trivial = at least one anchor",
            modelled: true,
            gen: gen_sched,
            eval: eval_sched,
            exhaustive: never,
        },
        Suite {
            name: "c07-order",
            rule: "a cell-input set over the modelled fragment (C05 generator: 1-3 sheets, 5-60 cells, cycles, IF/IFERROR, ranges) built in k shuffled orders x {evaluate once at the end, after every edit} x {with, without to_bytes/from_bytes half way}; each build evaluated twice; oracle: all value maps equal; the natural-order values vs the Lean driver; non-trivial = at least one formula",
            modelled: true,
            gen: gen_order,
            eval: eval_order,
            exhaustive: never,
        },
        Suite {
            name: "c07-dyn",
            rule: "cell-input sets with 1-5 dynamic-array formulas (SEQUENCE of literals / of a size cell, range*2 over inputs or over another spill area, other#+1, SORT(other#)) plus values and scalar formulas reading spills, built in k orders x evaluation modes x reload; each build evaluated twice; oracle: all snapshots equal; phase-1 restarts of Model::evaluate recorded per case; non-trivial = at least one dynamic anchor",
            modelled: false,
            gen: gen_dyn,
            eval: eval_dyn,
            exhaustive: never,
        },
    ]
}
