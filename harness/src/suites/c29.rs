//! C29 — row and column attributes change independently.
//!  * `c29-seq`: one request = one case: a descriptor layout assigned directly to
//!    `worksheet.cols` / `worksheet.rows` (multi-column spans, gaps, hidden, styled, custom and
//!    default widths, as imported files have; a share of unsorted/overlapping layouts), then a
//!    sequence of the eight public `Model` operations, with all public getters read around every
//!    target after every operation and at every probe at the end, plus the raw descriptor lists.
//!    Widths and heights travel as f64 bit patterns.  The oracle is the frame law itself,
//!    evaluated on the implementation at every probe after every operation.
use crate::prng::Rng;
use crate::run::{never, Ctx, ImplOut, Suite, Tier};
use ironcalc_base::types::{Col, Row, Style};
use ironcalc_base::{Model, COLUMN_WIDTH_FACTOR, ROW_HEIGHT_FACTOR};
use std::cell::RefCell;
use std::collections::BTreeSet;

/// number of pre-interned styles: style `k` (1..=K) is the default style with font size 100+k and
/// sits at index `k` of `cell_xfs`; index 0 is the default style.
const K: i32 = 6;
const LAST_COLUMN: i32 = 16_384;
const LAST_ROW: i32 = 1_048_576;
const DEFAULT_ROW_HEIGHT: f64 = 25.0;

fn style_k(k: i32) -> Style {
    let mut s = Style::default();
    if k > 0 {
        s.font.sz = 100 + k;
    }
    s
}

fn index_of(s: &Style) -> i64 {
    if *s == Style::default() {
        return 0;
    }
    let k = s.font.sz - 100;
    if (1..=K).contains(&k) && *s == style_k(k) {
        k as i64
    } else {
        -1
    }
}

fn fresh_model() -> Model<'static> {
    let mut m = Model::new_empty("c29", "en", "UTC", "en").unwrap();
    for k in 1..=K {
        let i = m.workbook.styles.create_new_style(&style_k(k));
        assert_eq!(i, k, "pre-interned style index");
    }
    m
}

thread_local! {
    static MODEL: RefCell<Model<'static>> = RefCell::new(fresh_model());
}

// ───────────────────────────── generation ─────────────────────────────

const WIDTHS: &[f64] = &[
    90.0, 0.0, 100.0, 12.5, 33.333333333333336, 0.001, 1.0e6, 0.1, 250.75, 9.0, 89.99999999999999, 90.00000000000001,
    1.0, 7.3, 1234.5678, 1.0e300, 64.0, 45.0, 180.0,
];
const HEIGHTS: &[f64] = &[25.0, 0.0, 16.0, 33.3, 12.5, 100.0, 0.1, 1.0e6, 24.999999999999996, 40.0, 7.0, 21.0, 1.0e300, 3.125];

fn pick_width(r: &mut Rng) -> f64 {
    match r.below(20) {
        0 => -1.0,
        1 => -0.0,
        2 => f64::INFINITY,
        3 => r.below(2000) as f64 / 7.0,
        4 => (r.below(1 << 20) as f64) * 1.0e-3,
        _ => *r.pick(WIDTHS),
    }
}
fn pick_height(r: &mut Rng) -> f64 {
    match r.below(20) {
        0 => -2.5,
        1 => -0.0,
        2 => r.below(3000) as f64 / 11.0,
        _ => *r.pick(HEIGHTS),
    }
}
fn pick_style_opt(r: &mut Rng) -> Option<i32> {
    if r.chance(2, 5) {
        None
    } else {
        Some(r.below(K as u64 + 1) as i32)
    }
}
fn so(s: Option<i32>) -> String {
    match s {
        None => "n".into(),
        Some(k) => k.to_string(),
    }
}
fn b(x: bool) -> &'static str {
    if x {
        "1"
    } else {
        "0"
    }
}

fn gen_cols(r: &mut Rng, base: i32, sorted: bool) -> Vec<Col> {
    let mut out = vec![];
    if r.chance(1, 12) {
        // Worksheet::set_style layout: one descriptor for the whole sheet
        out.push(Col { min: 1, max: LAST_COLUMN, width: 10.0, custom_width: false, hidden: r.chance(1, 6), style: Some(r.below(K as u64 + 1) as i32) });
        return out;
    }
    let n = r.below(7);
    let mut at = base + r.below(4) as i32;
    for _ in 0..n {
        let len = match r.below(6) {
            0 | 1 => 1,
            2 => 2,
            3 => 3,
            _ => 2 + r.below(9) as i32,
        };
        let min = at;
        let max = (at + len - 1).min(LAST_COLUMN);
        if min > LAST_COLUMN {
            break;
        }
        let custom_width = r.chance(3, 5);
        let width = if custom_width || r.chance(1, 3) { pick_width(r).abs() / COLUMN_WIDTH_FACTOR } else { 10.0 };
        let width = if r.chance(1, 40) { -width } else { width };
        out.push(Col { min, max, width, custom_width, hidden: r.chance(1, 3), style: pick_style_opt(r) });
        at = max + 1 + if r.chance(1, 2) { 0 } else { r.below(4) as i32 };
    }
    if !sorted && out.len() >= 2 {
        // shuffle and make some overlap
        for i in (1..out.len()).rev() {
            let j = r.below(i as u64 + 1) as usize;
            out.swap(i, j);
        }
        if r.chance(1, 2) {
            let i = r.below(out.len() as u64) as usize;
            out[i].max = (out[i].max + 3).min(LAST_COLUMN);
        }
    }
    out
}

fn gen_rows(r: &mut Rng, base: i32) -> Vec<Row> {
    let n = r.below(6);
    let mut out = vec![];
    for _ in 0..n {
        let row = base + r.below(12) as i32;
        if out.iter().any(|x: &Row| x.r == row) && !r.chance(1, 8) {
            continue;
        }
        let s = if r.chance(1, 2) { 0 } else { r.below(K as u64 + 1) as i32 };
        let custom_format = if r.chance(1, 6) { r.chance(1, 2) } else { s != 0 };
        out.push(Row { r: row, height: pick_height(r).abs() / ROW_HEIGHT_FACTOR, custom_format, custom_height: r.chance(1, 2), s, hidden: r.chance(1, 3) });
    }
    out
}

fn gen_seq(ctx: &Ctx, sink: &mut dyn FnMut(String)) {
    let mut rng = Rng::new(ctx.seed ^ 0xC29);
    let cases = if ctx.tier == Tier::Quick { 3_000 } else { 200_000 };
    // regression corpus first: the witnesses of F29a, F29b, F29c
    for fixed in [
        "c29 seq 1:5:4621819117588971520:0:0:n - S:3:2 1,2,3,4,5,6 1",
        "c29 seq - - W:3:4636737291354636288;H:3:1;S:3:1;H:3:0 1,2,3,4,5 1",
        "c29 seq 2:4:4621819117588971520:0:1:3 - D:3 1,2,3,4,5 1",
        "c29 seq 2:2:4626322717216342016:1:1:3 - D:2 1,2,3,4,5 1",
    ] {
        sink(fixed.to_string());
    }
    for _ in 0..cases {
        let mut r = rng.fork();
        let cbase = match r.below(6) {
            0 => 1,
            1 => LAST_COLUMN - 20 - r.below(20) as i32,
            _ => 1 + r.below(60) as i32,
        };
        let rbase = match r.below(6) {
            0 => 1,
            1 => LAST_ROW - 12,
            _ => 1 + r.below(200) as i32,
        };
        let sorted = !r.chance(1, 10);
        let cols = gen_cols(&mut r, cbase, sorted);
        let rows = gen_rows(&mut r, rbase);
        let nops = 1 + r.below(12);
        let mut ops: Vec<String> = vec![];
        let mut cps: BTreeSet<i32> = BTreeSet::new();
        let mut rps: BTreeSet<i32> = BTreeSet::new();
        for c in &cols {
            for x in [c.min - 1, c.min, c.max, c.max + 1] {
                cps.insert(x);
            }
        }
        for x in &rows {
            rps.insert(x.r);
            rps.insert(x.r + 1);
        }
        for _ in 0..nops {
            let col_target = |r: &mut Rng| -> i32 {
                match r.below(12) {
                    0 => *r.pick(&[0, -1, LAST_COLUMN + 1, -7, i32::MAX, i32::MIN]),
                    1 => *r.pick(&[1, LAST_COLUMN]),
                    2..=6 if !cols.is_empty() => {
                        let d = r.pick(&cols);
                        let lo = d.min.min(d.max);
                        let hi = d.max.max(d.min).min(lo + 12);
                        r.range(lo as i64 - 1, hi as i64 + 1) as i32
                    }
                    _ => cbase + r.below(24) as i32,
                }
            };
            let row_target = |r: &mut Rng| -> i32 {
                match r.below(12) {
                    0 => *r.pick(&[0, -1, LAST_ROW + 1, -7, i32::MAX, i32::MIN]),
                    1 => *r.pick(&[1, LAST_ROW]),
                    2..=6 if !rows.is_empty() => r.pick(&rows).r,
                    _ => rbase + r.below(14) as i32,
                }
            };
            let op = match r.below(16) {
                0..=2 => {
                    let c = col_target(&mut r);
                    format!("W:{}:{}", c, pick_width(&mut r).to_bits())
                }
                3..=5 => format!("H:{}:{}", col_target(&mut r), b(r.chance(1, 2))),
                6..=8 => format!("S:{}:{}", col_target(&mut r), r.below(K as u64 + 1)),
                9..=10 => format!("D:{}", col_target(&mut r)),
                11 => format!("h:{}:{}", row_target(&mut r), pick_height(&mut r).to_bits()),
                12 => format!("x:{}:{}", row_target(&mut r), b(r.chance(1, 2))),
                13..=14 => format!("s:{}:{}", row_target(&mut r), r.below(K as u64 + 1)),
                _ => format!("d:{}", row_target(&mut r)),
            };
            let t: i32 = op.split(':').nth(1).unwrap().parse().unwrap();
            let is_col = op.as_bytes()[0].is_ascii_uppercase();
            for x in -2..=2i64 {
                let v = t as i64 + x;
                if is_col {
                    if (1..=LAST_COLUMN as i64).contains(&v) {
                        cps.insert(v as i32);
                    }
                } else if (1..=LAST_ROW as i64).contains(&v) {
                    rps.insert(v as i32);
                }
            }
            ops.push(op);
        }
        for _ in 0..3 {
            cps.insert(1 + r.below(LAST_COLUMN as u64) as i32);
            rps.insert(1 + r.below(LAST_ROW as u64) as i32);
        }
        let cps: Vec<String> = cps.into_iter().filter(|c| (1..=LAST_COLUMN).contains(c)).map(|c| c.to_string()).collect();
        let rps: Vec<String> = rps.into_iter().filter(|c| (1..=LAST_ROW).contains(c)).map(|c| c.to_string()).collect();
        let cols_s = if cols.is_empty() {
            "-".to_string()
        } else {
            cols.iter().map(show_col).collect::<Vec<_>>().join(";")
        };
        let rows_s = if rows.is_empty() {
            "-".to_string()
        } else {
            rows.iter().map(show_row).collect::<Vec<_>>().join(";")
        };
        sink(format!("c29 seq {} {} {} {} {}", cols_s, rows_s, ops.join(";"), cps.join(","), rps.join(",")));
    }
}

fn show_col(c: &Col) -> String {
    format!("{}:{}:{}:{}:{}:{}", c.min, c.max, c.width.to_bits(), b(c.custom_width), b(c.hidden), so(c.style))
}
fn show_row(x: &Row) -> String {
    format!("{}:{}:{}:{}:{}:{}", x.r, x.height.to_bits(), b(x.custom_format), b(x.custom_height), x.s, b(x.hidden))
}

// ───────────────────────────── evaluation ─────────────────────────────

fn parse_col(s: &str) -> Option<Col> {
    let f: Vec<&str> = s.split(':').collect();
    if f.len() != 6 {
        return None;
    }
    Some(Col {
        min: f[0].parse().ok()?,
        max: f[1].parse().ok()?,
        width: f64::from_bits(f[2].parse().ok()?),
        custom_width: f[3] == "1",
        hidden: f[4] == "1",
        style: if f[5] == "n" { None } else { Some(f[5].parse().ok()?) },
    })
}
fn parse_row(s: &str) -> Option<Row> {
    let f: Vec<&str> = s.split(':').collect();
    if f.len() != 6 {
        return None;
    }
    Some(Row {
        r: f[0].parse().ok()?,
        height: f64::from_bits(f[1].parse().ok()?),
        custom_format: f[2] == "1",
        custom_height: f[3] == "1",
        s: f[4].parse().ok()?,
        hidden: f[5] == "1",
    })
}

#[derive(Clone, PartialEq, Debug)]
struct ColSnap {
    vis: u64,
    act: u64,
    hidden: bool,
    style: Option<i64>,
}
#[derive(Clone, PartialEq, Debug)]
struct RowSnap {
    vis: u64,
    act: u64,
    hidden: bool,
    style: i64, // "no entry" is read as the default style (index 0)
}

fn col_snap(m: &Model, c: i32) -> ColSnap {
    let ws = &m.workbook.worksheets[0];
    ColSnap {
        vis: m.get_column_width(0, c).unwrap().to_bits(),
        act: ws.get_actual_column_width(c).unwrap().to_bits(),
        hidden: m.is_column_hidden(0, c).unwrap(),
        style: m.get_column_style(0, c).unwrap().map(|s| index_of(&s)),
    }
}
fn row_snap(m: &Model, r: i32) -> RowSnap {
    let ws = &m.workbook.worksheets[0];
    let act = ws.rows.iter().find(|x| x.r == r).map(|x| x.height * ROW_HEIGHT_FACTOR).unwrap_or(DEFAULT_ROW_HEIGHT);
    RowSnap {
        vis: m.get_row_height(0, r).unwrap().to_bits(),
        act: act.to_bits(),
        hidden: m.is_row_hidden(0, r).unwrap(),
        style: m.get_row_style(0, r).unwrap().map(|s| index_of(&s)).unwrap_or(0),
    }
}

fn col_getters(m: &Model, c: i32) -> String {
    let ws = &m.workbook.worksheets[0];
    let f = |r: Result<f64, String>| r.map(|x| x.to_bits().to_string()).unwrap_or("E".into());
    format!(
        "{},{},{},{}",
        f(m.get_column_width(0, c)),
        f(ws.get_actual_column_width(c)),
        m.is_column_hidden(0, c).map(|x| b(x).to_string()).unwrap_or("E".into()),
        m.get_column_style(0, c).map(|s| s.map(|s| index_of(&s).to_string()).unwrap_or("n".into())).unwrap_or("E".into())
    )
}
fn row_getters(m: &Model, r: i32) -> String {
    format!(
        "{},{},{}",
        m.get_row_height(0, r).map(|x| x.to_bits().to_string()).unwrap_or("E".into()),
        m.is_row_hidden(0, r).map(|x| b(x).to_string()).unwrap_or("E".into()),
        m.get_row_style(0, r).map(|s| s.map(|s| index_of(&s).to_string()).unwrap_or("n".into())).unwrap_or("E".into())
    )
}

/// target-2 ..= target+2; `None` where that is not an i32 (printed as `X` on both sides)
fn around(t: i32) -> Vec<Option<i32>> {
    (-2..=2i64).map(|d| i32::try_from(t as i64 + d).ok()).collect()
}

fn sorted_disjoint(cols: &[Col]) -> bool {
    let mut lo = 0;
    for c in cols {
        if !(lo < c.min && c.min <= c.max && c.max <= LAST_COLUMN) {
            return false;
        }
        lo = c.max;
    }
    true
}

fn eval_seq(req: &str) -> ImplOut {
    let f: Vec<&str> = req.split(' ').collect();
    if f.len() != 7 || f[1] != "seq" {
        return ImplOut::new("bad-request".into()).trivial();
    }
    let cols: Vec<Col> = if f[2] == "-" { vec![] } else { f[2].split(';').filter_map(parse_col).collect() };
    let rows: Vec<Row> = if f[3] == "-" { vec![] } else { f[3].split(';').filter_map(parse_row).collect() };
    let cps: Vec<i32> = if f[5] == "-" { vec![] } else { f[5].split(',').filter_map(|x| x.parse().ok()).collect() };
    let rps: Vec<i32> = if f[6] == "-" { vec![] } else { f[6].split(',').filter_map(|x| x.parse().ok()).collect() };
    let wf_layout = sorted_disjoint(&cols);
    MODEL.with(|m| {
        let mut m = m.borrow_mut();
        m.workbook.worksheets[0].cols = cols.clone();
        m.workbook.worksheets[0].rows = rows;
        let mut out = ImplOut::new(String::new());
        out = out.tag(if wf_layout { "layout:sorted-disjoint" } else { "layout:unsorted-or-overlapping" });
        if cols.iter().any(|c| c.max > c.min) {
            out = out.tag("layout:has-multi-column-descriptor");
        }
        let mut blocks: Vec<String> = vec![];
        let mut any_ok = false;
        let mut fails: Vec<(String, String)> = vec![];
        for (opi, op) in f[4].split(';').enumerate() {
            let p: Vec<&str> = op.split(':').collect();
            let t: i32 = p[1].parse().unwrap();
            let is_col = p[0].as_bytes()[0].is_ascii_uppercase();
            let before_c: Vec<ColSnap> = cps.iter().map(|&c| col_snap(&m, c)).collect();
            let before_r: Vec<RowSnap> = rps.iter().map(|&r| row_snap(&m, r)).collect();
            if is_col {
                let ws = &m.workbook.worksheets[0];
                if let Some(d) = ws.cols.iter().find(|d| d.min <= t && t <= d.max) {
                    if d.max > d.min {
                        out = out.tag("target:inside-multi-column-descriptor");
                    }
                    if d.hidden {
                        out = out.tag("target:hidden-column");
                    }
                }
            }
            let (name, res): (&str, Result<(), String>) = match p[0] {
                "W" => ("col:set-width", m.set_column_width(0, t, f64::from_bits(p[2].parse().unwrap()))),
                "H" => ("col:set-hidden", m.set_column_hidden(0, t, p[2] == "1")),
                "S" => ("col:set-style", m.set_column_style(0, t, &style_k(p[2].parse().unwrap()))),
                "D" => ("col:del-style", m.delete_column_style(0, t)),
                "h" => ("row:set-height", m.set_row_height(0, t, f64::from_bits(p[2].parse().unwrap()))),
                "x" => ("row:set-hidden", m.set_row_hidden(0, t, p[2] == "1")),
                "s" => ("row:set-style", m.set_row_style(0, t, &style_k(p[2].parse().unwrap()))),
                "d" => ("row:del-style", m.delete_row_style(0, t)),
                _ => ("bad", Err("bad".into())),
            };
            let ok = res.is_ok();
            any_ok |= ok;
            out = out.tag(&format!("{}:{}", name, if ok { "ok" } else { "err" }));
            let local: Vec<String> = if is_col {
                around(t).iter().map(|&c| c.map(|c| col_getters(&m, c)).unwrap_or("X".into())).collect()
            } else {
                around(t).iter().map(|&r| r.map(|r| row_getters(&m, r)).unwrap_or("X".into())).collect()
            };
            blocks.push(format!("{}/{}", if ok { "ok" } else { "err" }, local.join(";")));
            // ── the property oracle: the frame law on the implementation ──
            let after_c: Vec<ColSnap> = cps.iter().map(|&c| col_snap(&m, c)).collect();
            let after_r: Vec<RowSnap> = rps.iter().map(|&r| row_snap(&m, r)).collect();
            let mut fail = |what: &str, detail: String| {
                fails.push((format!("c29:{name}:{what}"), format!("op #{opi} {op}: {detail}")));
            };
            for (i, &c) in cps.iter().enumerate() {
                let (x, y) = (&before_c[i], &after_c[i]);
                if y.vis != if y.hidden { 0f64.to_bits() } else { y.act } {
                    fail("getter-visible-width-inconsistent", format!("column {c}: {y:?}"));
                }
                if !(is_col && ok && c == t) {
                    if x != y {
                        let what = if !ok {
                            "failed-call-changed-state"
                        } else if is_col {
                            "other-column-changed"
                        } else {
                            "row-op-changed-column"
                        };
                        fail(what, format!("column {c}: {x:?} -> {y:?}"));
                    }
                    continue;
                }
                // the target column of a successful column operation
                let skip_unsorted_delete = p[0] == "D" && !wf_layout;
                match p[0] {
                    "W" => {
                        let w = f64::from_bits(p[2].parse().unwrap());
                        // the width is stored as w / 9 and read as (w / 9) * 9: equal up to rounding
                        let got = f64::from_bits(y.act);
                        if !(got == w || (got - w).abs() <= 1e-12 * w.abs()) {
                            fail("value-not-set", format!("column {c}: asked {w:?}, actual width {got:?}"));
                        }
                    }
                    _ => {
                        if x.act != y.act && !skip_unsorted_delete {
                            fail("width-changed", format!("column {c}: {:?} -> {:?}", f64::from_bits(x.act), f64::from_bits(y.act)));
                        }
                    }
                }
                match p[0] {
                    "H" => {
                        if y.hidden != (p[2] == "1") {
                            fail("value-not-set", format!("column {c}: hidden = {}", y.hidden));
                        }
                    }
                    _ => {
                        if x.hidden != y.hidden && !skip_unsorted_delete {
                            fail("hidden-changed", format!("column {c}: {} -> {}", x.hidden, y.hidden));
                        }
                    }
                }
                match p[0] {
                    "S" => {
                        let k: i64 = p[2].parse().unwrap();
                        if y.style != Some(k) {
                            fail("style-not-set", format!("column {c}: asked style {k}, has {:?} (had {:?})", y.style, x.style));
                        }
                    }
                    "D" => {
                        if y.style.is_some() && !skip_unsorted_delete {
                            fail("style-not-deleted", format!("column {c}: has {:?}", y.style));
                        }
                    }
                    _ => {
                        if x.style != y.style {
                            fail("style-changed", format!("column {c}: {:?} -> {:?}", x.style, y.style));
                        }
                    }
                }
            }
            for (i, &r) in rps.iter().enumerate() {
                let (x, y) = (&before_r[i], &after_r[i]);
                if y.vis != if y.hidden { 0f64.to_bits() } else { y.act } {
                    fail("getter-visible-height-inconsistent", format!("row {r}: {y:?}"));
                }
                if !(!is_col && ok && r == t) {
                    if x != y {
                        let what = if !ok {
                            "failed-call-changed-state"
                        } else if !is_col {
                            "other-row-changed"
                        } else {
                            "column-op-changed-row"
                        };
                        fail(what, format!("row {r}: {x:?} -> {y:?}"));
                    }
                    continue;
                }
                match p[0] {
                    "h" => {
                        let h = f64::from_bits(p[2].parse().unwrap());
                        let got = f64::from_bits(y.act);
                        if !(got == h || (got - h).abs() <= 1e-12 * h.abs()) {
                            fail("value-not-set", format!("row {r}: asked {h:?}, actual height {got:?}"));
                        }
                    }
                    _ => {
                        if x.act != y.act {
                            fail("height-changed", format!("row {r}: {:?} -> {:?}", f64::from_bits(x.act), f64::from_bits(y.act)));
                        }
                    }
                }
                match p[0] {
                    "x" => {
                        if y.hidden != (p[2] == "1") {
                            fail("value-not-set", format!("row {r}: hidden = {}", y.hidden));
                        }
                    }
                    _ => {
                        if x.hidden != y.hidden {
                            fail("hidden-changed", format!("row {r}: {} -> {}", x.hidden, y.hidden));
                        }
                    }
                }
                match p[0] {
                    "s" => {
                        let k: i64 = p[2].parse().unwrap();
                        if y.style != k {
                            fail("style-not-set", format!("row {r}: asked style {k}, has {}", y.style));
                        }
                    }
                    "d" => {
                        if y.style != 0 {
                            fail("style-not-deleted", format!("row {r}: has {}", y.style));
                        }
                    }
                    _ => {
                        if x.style != y.style {
                            fail("style-changed", format!("row {r}: {} -> {}", x.style, y.style));
                        }
                    }
                }
            }
        }
        let ws = &m.workbook.worksheets[0];
        let final_cols = if ws.cols.is_empty() { "-".to_string() } else { ws.cols.iter().map(show_col).collect::<Vec<_>>().join(";") };
        let final_rows = if ws.rows.is_empty() { "-".to_string() } else { ws.rows.iter().map(show_row).collect::<Vec<_>>().join(";") };
        let cg: Vec<String> = cps.iter().map(|&c| col_getters(&m, c)).collect();
        let rg: Vec<String> = rps.iter().map(|&r| row_getters(&m, r)).collect();
        let mut cells: Vec<String> = vec![];
        for &r in rps.iter().take(4) {
            for &c in cps.iter().take(6) {
                cells.push(m.get_style_for_cell(0, r, c).map(|s| index_of(&s).to_string()).unwrap_or("E".into()));
            }
        }
        let wf_after = sorted_disjoint(&ws.cols);
        if wf_layout && !wf_after {
            fails.push(("c29:layout-no-longer-sorted-disjoint".into(), format!("cols = {final_cols}")));
        }
        blocks.push(final_cols);
        blocks.push(final_rows);
        blocks.push(cg.join(";"));
        blocks.push(rg.join(";"));
        blocks.push(cells.join(","));
        blocks.push(b(wf_after).to_string());
        out.ans = blocks.join("|");
        out.oracle = fails;
        out.nontrivial = any_ok;
        out
    })
}

pub fn suites() -> Vec<Suite> {
    vec![Suite {
        name: "c29-seq",
        rule: "one case = descriptor layout assigned to worksheet.cols/.rows (0-6 column descriptors with spans 1-10 or the whole sheet, gaps, hidden, styled, custom/default/negative stored widths; 10% unsorted or overlapping; 0-5 row entries, rare duplicates) + 1-12 operations of the 8 public Model calls on targets inside/at the edges of/outside descriptors and invalid indices; compared with the model: status and getters at target±2 after every operation, final raw descriptor lists (f64 bit patterns), all getters at every probe, inherited cell styles, sortedness; oracle: frame law at every probe after every operation; quick 3000 cases, thorough 200000; non-trivial = at least one call accepted; distinct by request",
        modelled: true,
        gen: gen_seq,
        eval: eval_seq,
        exhaustive: never,
    }]
}
