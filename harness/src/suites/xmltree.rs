//! Abstract XML trees for C25: read from the exporter's parts (roxmltree), mutated, written back as
//! XML text, and sent to the Lean skeleton model as a token stream.
//!
//! tokens:  node := `E <qname> <nattr> (<aqname> <value-hex>)* <nkids> node*` | `T <text-hex>`
use crate::proto::{hex, unhex};
use std::io::{Cursor, Read, Write};

#[derive(Clone, Debug, PartialEq)]
pub enum X {
    E { name: String, attrs: Vec<(String, String)>, kids: Vec<X> },
    T(String),
}

pub type Package = Vec<(String, X)>;

fn qname(prefix: Option<&str>, local: &str) -> String {
    match prefix {
        Some(p) if !p.is_empty() => format!("{p}:{local}"),
        _ => local.to_string(),
    }
}

fn from_node(n: roxmltree::Node, parent_ns: &[(Option<String>, String)]) -> X {
    let in_scope: Vec<(Option<String>, String)> =
        n.namespaces().map(|ns| (ns.name().map(|s| s.to_string()), ns.uri().to_string())).collect();
    let prefix_of = |uri: Option<&str>, is_attr: bool| -> Option<String> {
        let uri = uri?;
        if uri == "http://www.w3.org/XML/1998/namespace" {
            return Some("xml".into());
        }
        // elements may use the default namespace, attributes never do
        let mut best: Option<String> = None;
        for (name, u) in &in_scope {
            if u == uri {
                match name {
                    None if !is_attr => return None,
                    None => {}
                    Some(p) => best = Some(p.clone()),
                }
            }
        }
        best
    };
    let mut attrs = vec![];
    for (name, uri) in &in_scope {
        if name.as_deref() == Some("xml") {
            continue;
        }
        if !parent_ns.contains(&(name.clone(), uri.clone())) {
            attrs.push((qname(Some("xmlns").filter(|_| name.is_some()), name.as_deref().unwrap_or("xmlns")), uri.clone()));
        }
    }
    for a in n.attributes() {
        attrs.push((qname(prefix_of(a.namespace(), true).as_deref(), a.name()), a.value().to_string()));
    }
    let name = qname(prefix_of(n.tag_name().namespace(), false).as_deref(), n.tag_name().name());
    let mut kids = vec![];
    for c in n.children() {
        if c.is_element() {
            kids.push(from_node(c, &in_scope));
        } else if c.is_text() {
            kids.push(X::T(c.text().unwrap_or("").to_string()));
        }
    }
    X::E { name, attrs, kids }
}

pub fn parse_part(text: &str) -> Option<X> {
    let doc = roxmltree::Document::parse(text).ok()?;
    Some(from_node(doc.root_element(), &[]))
}

fn esc(s: &str, attr: bool, out: &mut String) {
    for c in s.chars() {
        match c {
            '&' => out.push_str("&amp;"),
            '<' => out.push_str("&lt;"),
            '>' => out.push_str("&gt;"),
            '"' if attr => out.push_str("&quot;"),
            '\t' | '\n' | '\r' => out.push_str(&format!("&#x{:X};", c as u32)),
            _ => out.push(c),
        }
    }
}

pub fn to_xml(x: &X, out: &mut String) {
    match x {
        X::T(t) => esc(t, false, out),
        X::E { name, attrs, kids } => {
            out.push('<');
            out.push_str(name);
            for (k, v) in attrs {
                out.push(' ');
                out.push_str(k);
                out.push_str("=\"");
                esc(v, true, out);
                out.push('"');
            }
            if kids.is_empty() {
                out.push_str("/>");
            } else {
                out.push('>');
                for k in kids {
                    to_xml(k, out);
                }
                out.push_str("</");
                out.push_str(name);
                out.push('>');
            }
        }
    }
}

pub fn part_xml(x: &X) -> String {
    let mut s = String::from("<?xml version=\"1.0\" encoding=\"UTF-8\" standalone=\"yes\"?>\n");
    to_xml(x, &mut s);
    s
}

pub fn tokens(x: &X, out: &mut Vec<String>) {
    match x {
        X::T(t) => {
            out.push("T".into());
            out.push(hex(t));
        }
        X::E { name, attrs, kids } => {
            out.push("E".into());
            out.push(name.clone());
            out.push(attrs.len().to_string());
            for (k, v) in attrs {
                out.push(k.clone());
                out.push(hex(v));
            }
            out.push(kids.len().to_string());
            for k in kids {
                tokens(k, out);
            }
        }
    }
}

pub fn package_tokens(p: &Package) -> String {
    let mut out = vec![];
    for (path, x) in p {
        out.push("P".to_string());
        out.push(hex(path));
        tokens(x, &mut out);
    }
    out.join(" ")
}

fn parse_node(t: &[&str], i: &mut usize) -> Option<X> {
    match *t.get(*i)? {
        "T" => {
            let s = unhex(t.get(*i + 1)?)?;
            *i += 2;
            Some(X::T(s))
        }
        "E" => {
            let name = t.get(*i + 1)?.to_string();
            let na: usize = t.get(*i + 2)?.parse().ok()?;
            *i += 3;
            let mut attrs = vec![];
            for _ in 0..na {
                attrs.push((t.get(*i)?.to_string(), unhex(t.get(*i + 1)?)?));
                *i += 2;
            }
            let nk: usize = t.get(*i)?.parse().ok()?;
            *i += 1;
            let mut kids = vec![];
            for _ in 0..nk {
                kids.push(parse_node(t, i)?);
            }
            Some(X::E { name, attrs, kids })
        }
        _ => None,
    }
}

pub fn parse_package(t: &[&str]) -> Option<Package> {
    let mut i = 0;
    let mut p = vec![];
    while i < t.len() {
        if t[i] != "P" {
            return None;
        }
        let path = unhex(t.get(i + 1)?)?;
        i += 2;
        p.push((path, parse_node(t, &mut i)?));
    }
    Some(p)
}

/// (name, bytes) of every file entry of a zip archive
pub fn unzip(bytes: &[u8]) -> Option<Vec<(String, Vec<u8>)>> {
    let mut a = zip::ZipArchive::new(Cursor::new(bytes)).ok()?;
    let mut out = vec![];
    for i in 0..a.len() {
        let mut f = a.by_index(i).ok()?;
        if f.is_dir() {
            continue;
        }
        let mut b = vec![];
        f.read_to_end(&mut b).ok()?;
        out.push((f.name().to_string(), b));
    }
    Some(out)
}

pub fn zip_up(parts: &[(String, Vec<u8>)]) -> Vec<u8> {
    let mut w = zip::ZipWriter::new(Cursor::new(Vec::new()));
    let opt = zip::write::FileOptions::default();
    for (name, b) in parts {
        // duplicated names are legal at the zip level
        if w.start_file(name.clone(), opt).is_ok() {
            let _ = w.write_all(b);
        }
    }
    w.finish().map(|c| c.into_inner()).unwrap_or_default()
}

/// all element paths (child-index paths) of a tree, root = []
pub fn element_paths(x: &X, cur: &mut Vec<usize>, out: &mut Vec<Vec<usize>>) {
    if let X::E { kids, .. } = x {
        out.push(cur.clone());
        for (i, k) in kids.iter().enumerate() {
            cur.push(i);
            element_paths(k, cur, out);
            cur.pop();
        }
    }
}

pub fn get_mut<'a>(x: &'a mut X, path: &[usize]) -> Option<&'a mut X> {
    let mut cur = x;
    for &i in path {
        match cur {
            X::E { kids, .. } => cur = kids.get_mut(i)?,
            X::T(_) => return None,
        }
    }
    Some(cur)
}

pub fn get<'a>(x: &'a X, path: &[usize]) -> Option<&'a X> {
    let mut cur = x;
    for &i in path {
        match cur {
            X::E { kids, .. } => cur = kids.get(i)?,
            X::T(_) => return None,
        }
    }
    Some(cur)
}
