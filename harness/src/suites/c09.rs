//! C09 — printing a formula and parsing it back preserves its meaning.
//!  * extraction: the parenthesisation table of the real printer (`stringify.rs`), one entry per
//!    (slot, child kind), regenerated into `Generated/ParenStringify.lean` on every check;
//!  * `c09-entries`: every two-level tree parent[child] (exhaustive over slots × kinds × variants)
//!    printed and re-parsed by the real code — the concrete failing input for a bad table entry;
//!  * `c09-deep`: random well-formed trees: real print → real lexer → model tokens, real re-parse
//!    → same tree, in the internal (R1C1) form; display forms (A1, en/es/de/fr/it × locales) by oracle.
use crate::fbridge::*;
use crate::prng::Rng;
use crate::run::{always, never, Ctx, ImplOut, Suite, Tier};
use ironcalc_base::expressions::lexer::LexerMode;
use ironcalc_base::expressions::parser::stringify::{to_localized_string, to_rc_format};
use ironcalc_base::expressions::parser::Node;
use ironcalc_base::expressions::token::TokenType;
use ironcalc_base::language::get_language;
use ironcalc_base::locale::get_locale;
use std::path::Path;

pub const SLOTS: [&str; 20] = [
    "binL.cmp", "binR.cmp", "binL.cat", "binR.cat", "binL.add", "binR.add", "binL.sub", "binR.sub",
    "binL.mul", "binR.mul", "binL.div", "binR.div", "binL.pow", "binR.pow", "neg", "pct", "rngL",
    "rngR", "at", "spill",
];

fn op_index(name: &str) -> u8 {
    OP_CLASSES.iter().position(|x| *x == name).unwrap() as u8
}
fn op_level(c: u8) -> u32 {
    [0, 1, 2, 2, 3, 3, 4][c as usize]
}

pub fn kind_level(n: &MNode) -> u32 {
    match n {
        MNode::Bin(c, ..) => op_level(*c),
        MNode::Neg(_) | MNode::Pct(_) => 5,
        MNode::Rng(..) => 6,
        MNode::At(_) | MNode::Spill(_) => 7,
        _ => 8,
    }
}
pub fn slot_level(slot: &str) -> u32 {
    if let Some(c) = slot.strip_prefix("binL.") {
        op_level(op_index(c))
    } else if let Some(c) = slot.strip_prefix("binR.") {
        op_level(op_index(c)) + 1
    } else {
        match slot {
            "neg" => 6,
            "pct" => 5,
            "rngL" => 7,
            _ => 8,
        }
    }
}

/// representative children for each kind (several variants per kind to detect context dependence)
pub fn kind_reps() -> Vec<(String, Vec<MNode>)> {
    let one = || Box::new(MNode::Lit(0, 1));
    let two = || Box::new(MNode::Lit(0, 2));
    let r0 = || Box::new(MNode::Lit(3, 0));
    let mut v: Vec<(String, Vec<MNode>)> = vec![];
    for c in 0..8u8 {
        v.push((format!("lit.{}", LIT_CLASSES[c as usize]), vec![MNode::Lit(c, 1), MNode::Lit(c, 2)]));
    }
    v.push(("name".into(), vec![MNode::Name(0), MNode::Name(1), MNode::Name(2), MNode::Name(3)]));
    for c in 0..7u8 {
        let ks: Vec<u8> = if c == 0 { (0..6).collect() } else { vec![0] };
        v.push((format!("bin.{}", OP_CLASSES[c as usize]), ks.iter().map(|k| MNode::Bin(c, *k, one(), two())).collect()));
    }
    v.push(("neg".into(), vec![MNode::Neg(one())]));
    v.push(("pct".into(), vec![MNode::Pct(one())]));
    v.push(("rng".into(), vec![MNode::Rng(Box::new(MNode::Name(0)), Box::new(MNode::Lit(3, 1)))]));
    v.push(("at".into(), vec![MNode::At(r0())]));
    v.push(("spill".into(), vec![MNode::Spill(r0())]));
    v.push(("call".into(), vec![MNode::Call(1000, vec![Some(MNode::Lit(0, 1))]), MNode::Call(2000, vec![]), MNode::Call(1006, vec![])]));
    v.push(("lam".into(), vec![MNode::Lam(vec![(0, false)], Box::new(MNode::Name(0)))]));
    v.push(("lamcall".into(), vec![MNode::LamCall(vec![(0, false)], Box::new(MNode::Name(0)), vec![Some(MNode::Lit(0, 1))])]));
    v
}

/// parent trees for a slot holding `child`
pub fn parents(slot: &str, child: &MNode) -> Vec<MNode> {
    let sib = || Box::new(MNode::Lit(0, 3));
    let c = Box::new(child.clone());
    if let Some(o) = slot.strip_prefix("binL.") {
        let oc = op_index(o);
        let ks: Vec<u8> = if oc == 0 { (0..6).collect() } else { vec![0] };
        ks.iter().map(|k| MNode::Bin(oc, *k, c.clone(), sib())).collect()
    } else if let Some(o) = slot.strip_prefix("binR.") {
        let oc = op_index(o);
        let ks: Vec<u8> = if oc == 0 { (0..6).collect() } else { vec![0] };
        ks.iter().map(|k| MNode::Bin(oc, *k, sib(), c.clone())).collect()
    } else {
        match slot {
            "neg" => vec![MNode::Neg(c)],
            "pct" => vec![MNode::Pct(c)],
            "rngL" => vec![MNode::Rng(c, Box::new(MNode::Name(0)))],
            "rngR" => vec![MNode::Rng(Box::new(MNode::Name(0)), c)],
            "at" => vec![MNode::At(c)],
            _ => vec![MNode::Spill(c)],
        }
    }
}

/// Does the real printer parenthesise `child` inside `parent`? (None = neither bare nor wrapped)
fn wrapped_in(parent: &MNode, child: &MNode, slot: &str) -> Option<bool> {
    wrapped_in_with(&|n: &MNode| to_rc_format(&to_real(n)), parent, child, slot)
}

/// Does the printer `print` parenthesise `child` inside `parent`? (None = neither bare nor wrapped)
pub fn wrapped_in_with(print: &dyn Fn(&MNode) -> String, parent: &MNode, child: &MNode, slot: &str) -> Option<bool> {
    let p = print(parent);
    let c = print(child);
    let probe = |inner: &str| -> String {
        // print the parent shape with a placeholder child, textually
        let sib3 = print(&MNode::Lit(0, 3));
        let nsib = print(&MNode::Name(0));
        if slot.starts_with("binL.") || slot.starts_with("binR.") {
            let op = match parent {
                MNode::Bin(oc, k, _, _) => {
                    let s = print(&MNode::Bin(*oc, *k, Box::new(MNode::Lit(0, 2)), Box::new(MNode::Lit(0, 3))));
                    s[1..s.len() - 1].to_string()
                }
                _ => unreachable!(),
            };
            if slot.starts_with("binL.") {
                format!("{inner}{op}{sib3}")
            } else {
                format!("{sib3}{op}{inner}")
            }
        } else {
            match slot {
                "neg" => format!("-{inner}"),
                "pct" => format!("{inner}%"),
                "rngL" => format!("{inner}:{nsib}"),
                "rngR" => format!("{nsib}:{inner}"),
                "at" => format!("@{inner}"),
                _ => format!("{inner}#"),
            }
        }
    };
    if p == probe(&c) {
        Some(false)
    } else if p == probe(&format!("({c})")) {
        Some(true)
    } else {
        None
    }
}

/// the extracted table: (slot, kind) → wrapped?; Err lists entries that are context dependent
pub fn extract_table() -> (Vec<(String, String, bool)>, Vec<String>) {
    extract_table_with(&|n: &MNode| to_rc_format(&to_real(n)))
}

pub fn extract_table_with(print: &dyn Fn(&MNode) -> String) -> (Vec<(String, String, bool)>, Vec<String>) {
    let mut table = vec![];
    let mut bad = vec![];
    for slot in SLOTS {
        for (kind, reps) in kind_reps() {
            let mut seen: Option<bool> = None;
            let mut consistent = true;
            for child in &reps {
                for parent in parents(slot, child) {
                    match wrapped_in_with(print, &parent, child, slot) {
                        Some(b) => {
                            if let Some(s) = seen {
                                if s != b {
                                    consistent = false;
                                }
                            }
                            seen = Some(b);
                        }
                        None => consistent = false,
                    }
                }
            }
            if !consistent || seen.is_none() {
                bad.push(format!("{slot}/{kind}"));
            }
            table.push((slot.to_string(), kind, seen.unwrap_or(false)));
        }
    }
    (table, bad)
}

pub fn lean_slot(s: &str) -> String {
    if let Some(c) = s.strip_prefix("binL.") {
        format!("(.binL .{c})")
    } else if let Some(c) = s.strip_prefix("binR.") {
        format!("(.binR .{c})")
    } else {
        format!(".{s}")
    }
}
pub fn lean_kind(k: &str) -> String {
    if let Some(c) = k.strip_prefix("lit.") {
        format!("(.lit .{c})")
    } else if let Some(c) = k.strip_prefix("bin.") {
        format!("(.bin .{c})")
    } else {
        format!(".{k}")
    }
}

pub fn extract(dir: &Path) {
    let (table, bad) = extract_table();
    write_table(dir, "ParenStringify", "parenStringify", "base/src/expressions/parser/stringify.rs::stringify prints the\n  child in parentheses (two-level trees printed with `to_rc_format`)", &table, &bad);
}

pub fn write_table(dir: &Path, file: &str, name: &str, what: &str, table: &[(String, String, bool)], bad: &[String]) {
    let mut s = String::new();
    s.push_str("import IronCalc.Formula.Syntax\n");
    s.push_str(&format!("/-\n  GENERATED on every check by `verif_harness extract` from the running code: for every\n  (slot, child kind) whether {what}. Do not edit.\n-/\n"));
    s.push_str("namespace IronCalc.Generated\nopen IronCalc.Formula\n\n");
    s.push_str("/-- the (slot, kind) pairs the real printer parenthesises -/\n");
    s.push_str(&format!("def {name}True : List (Slot × Kind) := [\n"));
    let trues: Vec<String> = table.iter().filter(|(_, _, b)| *b).map(|(sl, k, _)| format!("  ({}, {})", lean_slot(sl), lean_kind(k))).collect();
    s.push_str(&trues.join(",\n"));
    s.push_str("\n]\n\n");
    s.push_str(&format!("def {name} : Table := fun s k => {name}True.contains (s, k)\n\n"));
    s.push_str(&format!("/-- entries where the printer's decision is not a function of (slot, kind): {} -/\n", bad.len()));
    s.push_str(&format!("def {name}ContextDependent : List String := {:?}\n\n", bad));
    s.push_str("end IronCalc.Generated\n");
    super::write_if_changed(&dir.join(format!("{file}.lean")), &s);
}

// ------------------------------------------------------------------------------------------

fn gen_entries(_ctx: &Ctx, sink: &mut dyn FnMut(String)) {
    for slot in SLOTS {
        for (kind, reps) in kind_reps() {
            for child in &reps {
                for parent in parents(slot, child) {
                    sink(format!("c09 entry {slot} {kind} {}", encode(&parent)));
                }
            }
        }
    }
}

fn parse_rc(text: &str) -> Node {
    let locale = get_locale("en").unwrap();
    let language = get_language("en").unwrap();
    let mut p = new_parser(locale, language);
    p.set_lexer_mode(LexerMode::R1C1);
    p.parse(text, &context())
}

/// first (slot, kind) occurrence in the tree that needs parentheses — used to attribute a failure
fn first_needed_unwrapped(n: &MNode, table: &[(String, String, bool)]) -> Option<(String, String)> {
    let lookup = |slot: &str, child: &MNode| -> Option<(String, String)> {
        let k = kind_name(child);
        let wrapped = table.iter().find(|(s, kk, _)| s == slot && *kk == k).map(|x| x.2).unwrap_or(false);
        if kind_level(child) < slot_level(slot) && !wrapped {
            Some((slot.to_string(), k))
        } else {
            None
        }
    };
    // straightforward recursive search (the closure machinery above is not needed)
    fn search(n: &MNode, lookup: &dyn Fn(&str, &MNode) -> Option<(String, String)>) -> Option<(String, String)> {
        let kids: Vec<(Option<String>, &MNode)> = match n {
            MNode::Bin(c, _, a, b) => {
                let o = OP_CLASSES[*c as usize];
                vec![(Some(format!("binL.{o}")), a.as_ref()), (Some(format!("binR.{o}")), b.as_ref())]
            }
            MNode::Neg(a) => vec![(Some("neg".into()), a.as_ref())],
            MNode::Pct(a) => vec![(Some("pct".into()), a.as_ref())],
            MNode::Rng(a, b) => vec![(Some("rngL".into()), a.as_ref()), (Some("rngR".into()), b.as_ref())],
            MNode::At(a) => vec![(Some("at".into()), a.as_ref())],
            MNode::Spill(a) => vec![(Some("spill".into()), a.as_ref())],
            MNode::Call(_, args) => args.iter().flatten().map(|a| (None, a)).collect(),
            MNode::Lam(_, body) => vec![(None, body.as_ref())],
            MNode::LamCall(_, body, args) => {
                let mut v: Vec<(Option<String>, &MNode)> = vec![(None, body.as_ref())];
                v.extend(args.iter().flatten().map(|a| (None, a)));
                v
            }
            _ => vec![],
        };
        for (slot, c) in kids {
            if let Some(s) = &slot {
                if let Some(hit) = lookup(s, c) {
                    return Some(hit);
                }
            }
            if let Some(hit) = search(c, lookup) {
                return Some(hit);
            }
        }
        None
    }
    search(n, &lookup)
}

thread_local! {
    static TABLE: (Vec<(String, String, bool)>, Vec<String>) = extract_table();
}

fn classify_failure(tree: &MNode, mode: &str) -> String {
    TABLE.with(|t| match first_needed_unwrapped(tree, &t.0) {
        Some((slot, kind)) => format!("c09:paren:stringify:{slot}:{kind}"),
        None => {
            // payload-level causes
            fn has(n: &MNode, f: &dyn Fn(&MNode) -> bool) -> bool {
                if f(n) {
                    return true;
                }
                match n {
                    MNode::Bin(_, _, a, b) | MNode::Rng(a, b) => has(a, f) || has(b, f),
                    MNode::Neg(a) | MNode::Pct(a) | MNode::At(a) | MNode::Spill(a) => has(a, f),
                    MNode::Call(_, args) => args.iter().flatten().any(|a| has(a, f)),
                    MNode::Lam(_, b) => has(b, f),
                    MNode::LamCall(_, b, args) => has(b, f) || args.iter().flatten().any(|a| has(a, f)),
                    _ => false,
                }
            }
            if has(tree, &|n| matches!(n, MNode::Lit(2, a) if *a as usize % ERRS.len() == 7)) {
                "c09:error-spelling:NIMPL".to_string()
            } else {
                format!("c09:roundtrip:{mode}:other")
            }
        }
    })
}

fn eval_entry(req: &str) -> ImplOut {
    let f: Vec<&str> = req.split(' ').collect();
    let (slot, kind, tree) = (f[2], f[3], decode(f[4]).expect("tree"));
    let child = match (&tree, slot) {
        (MNode::Bin(_, _, a, _), s) if s.starts_with("binL.") => a.as_ref().clone(),
        (MNode::Bin(_, _, _, b), _) => b.as_ref().clone(),
        (MNode::Neg(a), _) | (MNode::Pct(a), _) | (MNode::At(a), _) | (MNode::Spill(a), _) => a.as_ref().clone(),
        (MNode::Rng(a, _), "rngL") => a.as_ref().clone(),
        (MNode::Rng(_, b), _) => b.as_ref().clone(),
        _ => unreachable!(),
    };
    let w = wrapped_in(&tree, &child, slot);
    let ans = match w {
        Some(true) => "wrapped",
        Some(false) => "bare",
        None => "neither",
    };
    let mut out = ImplOut::new(ans.to_string()).tag(&format!("entry:{ans}"));
    // oracle: the two-level tree must survive print → parse
    let real = to_real(&tree);
    let text = to_rc_format(&real);
    let back = parse_rc(&text);
    if back != real {
        let needs = kind_level(&child) < slot_level(slot);
        let sig = if needs && w != Some(true) {
            format!("c09:paren:stringify:{slot}:{kind}")
        } else if let (MNode::Rng(l, r), true) = (&tree, w == Some(false) && slot == "rngL" && ends_with_reference(&child)) {
            glue_sig(l, r).to_string()
        } else {
            classify_failure(&tree, "rc")
        };
        out = out.fail(&sig, &format!("{} printed as `{}` re-parses as {}", f[4], text, from_real(&back).map(|m| encode(&m)).unwrap_or_else(|| format!("{back:?}"))));
    }
    if w.is_none() {
        out = out.fail(&format!("c09:paren:context-dependent:{slot}:{kind}"), &format!("printed `{text}`"));
    }
    out
}

fn gen_deep(ctx: &Ctx, sink: &mut dyn FnMut(String)) {
    let mut rng = Rng::new(ctx.seed ^ 0xC09);
    let n = if ctx.tier == Tier::Quick { 4000 } else { 200_000 };
    for i in 0..n {
        let depth = 1 + (i % 6) as u32;
        let t = gen_tree(&mut rng, depth);
        sink(format!("c09 rt {}", encode(&t)));
    }
}

fn eval_deep(req: &str) -> ImplOut {
    let f: Vec<&str> = req.split(' ').collect();
    let tree = decode(f[2]).expect("tree");
    let real = to_real(&tree);
    let en_loc = get_locale("en").unwrap();
    let en = get_language("en").unwrap();
    let text = to_rc_format(&real);
    let toks = model_tokens(&text, LexerMode::R1C1, en_loc, en, &TokenType::Comma);
    let back = parse_rc(&text);
    let same = back == real;
    let mut out = ImplOut::new(format!("{}|{}", toks.clone().unwrap_or_else(|| format!("<unmapped:{text}>")), if same { "same" } else { "diff" }));
    out = out.tag(&format!("root:{}", kind_name(&tree)));
    if !same {
        out = out.fail(&classify_failure(&tree, "rc"), &format!("internal form `{text}` re-parses differently"));
    }
    // display forms: A1, every language × a locale with `,` and one with `;` separators
    for (lang, loc) in [("en", "en"), ("es", "es"), ("de", "de"), ("fr", "fr"), ("it", "it"), ("en", "de"), ("de", "en-GB")] {
        let locale = get_locale(loc).unwrap();
        let language = get_language(lang).unwrap();
        let shown = to_localized_string(&real, &context(), locale, language);
        let mut p = new_parser(locale, language);
        let back = p.parse(&shown, &context());
        if back != real {
            out = out.fail(&classify_failure(&tree, &format!("display-{lang}-{loc}")), &format!("display form ({lang},{loc}) `{shown}` re-parses differently"));
            break;
        }
    }
    out
}

fn gen_glue(_ctx: &Ctx, sink: &mut dyn FnMut(String)) {
    // left operands of `:` that end in a reference token, against every class of right operand
    let lefts = [MNode::Lit(0, 1), MNode::Lit(3, 0), MNode::Lit(3, 2), MNode::Lit(3, 5), MNode::Lit(5, 1), MNode::At(Box::new(MNode::Lit(3, 0)))];
    let rights = [MNode::Lit(3, 1), MNode::Lit(3, 6), MNode::Lit(4, 1), MNode::Lit(5, 2), MNode::Name(0), MNode::Call(1000, vec![Some(MNode::Lit(0, 1))]), MNode::Lit(0, 1)];
    for l in &lefts {
        for r in &rights {
            sink(format!("c09 glue {}", encode(&MNode::Rng(Box::new(l.clone()), Box::new(r.clone())))));
        }
    }
}

fn glue_sig(l: &MNode, r: &MNode) -> &'static str {
    let right_is_ref = matches!(r, MNode::Lit(3..=6, _));
    let qualified = matches!(l, MNode::Lit(5, _)) || matches!(l, MNode::Lit(3, a) if REFS[*a as usize % REFS.len()].0 >= 0);
    if right_is_ref {
        "c09:lexer-glue:ref-colon-ref"
    } else if qualified {
        "c09:lexer-glue:qualified-ref-colon"
    } else {
        "c09:lexer-glue:other"
    }
}

fn eval_glue(req: &str) -> ImplOut {
    let f: Vec<&str> = req.split(' ').collect();
    let tree = decode(f[2]).expect("tree");
    let real = to_real(&tree);
    let text = to_rc_format(&real);
    let back = parse_rc(&text);
    let mut out = ImplOut::new(if back == real { "same".into() } else { "diff".into() });
    if matches!(&tree, MNode::Rng(l, _) if matches!(l.as_ref(), MNode::Lit(0, _))) {
        // a number before `:` is read as the start of a row range (`3:5`) by the A1 lexer only
        let locale = get_locale("en").unwrap();
        let language = get_language("en").unwrap();
        let shown = to_localized_string(&real, &context(), locale, language);
        let mut p = new_parser(locale, language);
        if p.parse(&shown, &context()) != real {
            out = out.fail("c09:lexer-glue:number-colon", &format!("display form `{shown}` re-parses differently"));
        }
        return out;
    }
    if back != real {
        let (l, r) = match &tree {
            MNode::Rng(l, r) => (l.as_ref(), r.as_ref()),
            _ => unreachable!(),
        };
        let sig = glue_sig(l, r);
        out = out.fail(sig, &format!("`{text}` re-parses as {}", from_real(&back).map(|m| encode(&m)).unwrap_or_else(|| "a parse error / unmapped tree".into())));
    }
    out
}

pub fn suites() -> Vec<Suite> {
    vec![
        Suite {
            name: "c09-glue",
            rule: "OpRange trees whose left operand ends in a bare reference token (plain, sheet-qualified, unknown-sheet, under @) against 7 classes of right operand: real to_rc_format then real re-parse (oracle only: these shapes are outside the token-level model because the real lexer glues `ref:ref` into one range token); non-trivial = all",
            modelled: false,
            gen: gen_glue,
            eval: eval_glue,
            exhaustive: always,
        },
        Suite {
            name: "c09-entries",
            rule: "every (slot, child kind, variant) two-level tree parent[child] — 20 slots × 24 kinds × representatives (all 6 comparison kinds, 4 name classes, 3 call forms) — printed with the real to_rc_format and re-parsed by the real Parser; answer = whether the child came out parenthesised; non-trivial = every entry (distinct by request)",
            modelled: true,
            gen: gen_entries,
            eval: eval_entry,
            exhaustive: always,
        },
        Suite {
            name: "c09-deep",
            rule: "random well-formed trees (depth 1..6, all node kinds incl. empty arguments, LAMBDA definitions/calls, arrays as atoms) → real Node → to_rc_format → real Lexer tokens (mapped to model tokens) and real re-parse; display forms in 7 language/locale pairs re-parsed by the oracle; non-trivial = distinct trees",
            modelled: true,
            gen: gen_deep,
            eval: eval_deep,
            exhaustive: never,
        },
    ]
}
