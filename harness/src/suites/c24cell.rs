//! C24 — the cell level of the sheet XML (`c24-cell`).
//! For every cell of a generated workbook (the fixed all-arms workbook and random books):
//!   W: the `<c>` element the REAL exporter wrote for it (read back with the XML parser), compared with the Lean
//!      `writeCell` of that cell, attribute by attribute (ordered) and child by child;
//!   R: the cell the REAL importer (`load_from_xlsx_bytes` + `Model::from_workbook`) made of the file at that
//!      position, compared with the Lean `readCell` of the real element.
//! The request names the arm of the exporter's cell writer; the oracle is the property at cell level: the imported
//! cell equals the original one up to `normalise` (error origin/message re-derived).
use super::bookgen::{gen_arms_model, gen_model};
use super::xmltree::{parse_part, tokens, unzip, X};
use crate::proto::hex;
use crate::run::{never, Ctx, ImplOut, Suite, Tier};
use ironcalc::export::save_xlsx_to_writer;
use ironcalc::import::load_from_xlsx_bytes;
use ironcalc_base::expressions::parser::stringify::{to_excel_array_string, to_excel_string};
use ironcalc_base::expressions::types::CellReferenceRC;
use ironcalc_base::types::{ArrayKind, Cell, FormulaValue, SpillValue};
use ironcalc_base::Model;
use std::cell::RefCell;
use std::collections::BTreeMap;
use std::io::Cursor;
use std::panic::{catch_unwind, AssertUnwindSafe};

struct Book {
    seed: String,
    original: Model<'static>,
    /// (sheet, row, col) → the exporter's `<c>` element
    elems: BTreeMap<(usize, i32, i32), X>,
    /// the workbook exactly as `load_from_xlsx_bytes` returned it (its cells are the importer's cells) and the
    /// model made of it (only used to print the imported formulas as text)
    imported: Option<(ironcalc_base::types::Workbook, Model<'static>)>,
}

thread_local! {
    static BOOK: RefCell<Option<Book>> = const { RefCell::new(None) };
}

fn build_book(seed: &str) -> Option<Book> {
    let original = if seed == "arms" { gen_arms_model() } else { gen_model(seed.parse().ok()?, 1) };
    let bytes = save_xlsx_to_writer(&original, Cursor::new(Vec::new())).ok()?.into_inner();
    let mut elems = BTreeMap::new();
    for (name, b) in unzip(&bytes)? {
        let Some(n) = name.strip_prefix("xl/worksheets/sheet").and_then(|s| s.strip_suffix(".xml")) else { continue };
        let Ok(idx) = n.parse::<usize>() else { continue };
        let Some(root) = std::str::from_utf8(&b).ok().and_then(parse_part) else { continue };
        let X::E { kids, .. } = &root else { continue };
        for k in kids {
            if let X::E { name, kids: rows, .. } = k {
                if name != "sheetData" {
                    continue;
                }
                for row in rows {
                    if let X::E { kids: cells, .. } = row {
                        for c in cells {
                            if let X::E { attrs, .. } = c {
                                let r = attrs.iter().find(|(k, _)| k == "r").map(|(_, v)| v.clone()).unwrap_or_default();
                                if let Some(p) = ironcalc_base::expressions::utils::parse_reference_a1(&r) {
                                    elems.insert((idx - 1, p.row, p.column), c.clone());
                                }
                            }
                        }
                    }
                }
            }
        }
    }
    let imported = load_from_xlsx_bytes(&bytes, "book", "en", "UTC")
        .ok()
        .and_then(|wb| Model::from_workbook(wb.clone(), "en").ok().map(|m| (wb, m)));
    Some(Book { seed: seed.to_string(), original, elems, imported })
}

fn with_book<T>(seed: &str, f: impl FnOnce(&Book) -> T) -> Option<T> {
    BOOK.with(|b| {
        let mut b = b.borrow_mut();
        if b.as_ref().map(|x| x.seed != seed).unwrap_or(true) {
            *b = build_book(seed);
        }
        b.as_ref().map(f)
    })
}

fn fval(v: &FormulaValue, normalise: Option<&str>) -> String {
    match v {
        FormulaValue::Unevaluated => "U".into(),
        FormulaValue::Boolean(b) => format!("B {}", *b as u8),
        FormulaValue::Number(n) => format!("N {}", hex(&format!("{n}"))),
        FormulaValue::Text(s) => format!("T {}", hex(s)),
        FormulaValue::Error { ei, o, m } => match normalise {
            // what a round trip may change: origin = own address, message = the error text
            Some(origin) => format!("E {} {} {}", hex(&format!("{ei}")), hex(origin), hex(&format!("{ei}"))),
            None => format!("E {} {} {}", hex(&format!("{ei}")), hex(o), hex(m)),
        },
    }
}

fn fval_arm(v: &FormulaValue) -> &'static str {
    match v {
        FormulaValue::Unevaluated => "Unevaluated",
        FormulaValue::Boolean(_) => "Boolean",
        FormulaValue::Number(_) => "Number",
        FormulaValue::Text(_) => "Text",
        FormulaValue::Error { .. } => "Error",
    }
}

/// (arm, tokens) of a cell; `normalise` = render the image the property allows after a round trip
fn cell_tokens(m: &Model, sheet: usize, row: i32, col: i32, cell: &Cell, normalise: bool) -> (String, String) {
    let name = m.workbook.worksheets[sheet].get_name();
    let cr = CellReferenceRC { sheet: name.clone(), row, column: col };
    let origin = format!(
        "{name}!{}{row}",
        ironcalc_base::expressions::utils::number_to_column(col).unwrap_or_default()
    );
    let norm = if normalise { Some(origin.as_str()) } else { None };
    let ftext = |f: i32, array: bool| -> String {
        match m.parsed_formulas.get(sheet).and_then(|p| p.get(f as usize)) {
            Some((node, _)) => {
                if array {
                    to_excel_array_string(node, &cr)
                } else {
                    to_excel_string(node, &cr)
                }
            }
            None => "<no-such-formula>".into(),
        }
    };
    match cell {
        Cell::EmptyCell { s } => ("arm:EmptyCell".into(), format!("Empty {s}")),
        Cell::BooleanCell { v, s } => ("arm:BooleanCell".into(), format!("Bool {} {s}", *v as u8)),
        Cell::NumberCell { v, s } => ("arm:NumberCell".into(), format!("Num {} {s}", hex(&format!("{v}")))),
        Cell::ErrorCell { ei, s } => ("arm:ErrorCell".into(), format!("Err {} {s}", hex(&format!("{ei}")))),
        Cell::SharedString { si, s } => ("arm:SharedString".into(), format!("Shared {si} {s}")),
        Cell::CellFormula { f, s, v } => (
            format!("arm:CellFormula/{}", fval_arm(v)),
            format!("Formula {} {s} {}", hex(&ftext(*f, false)), fval(v, norm)),
        ),
        Cell::ArrayFormula { f, s, r, kind, v } => {
            let k = if matches!(kind, ArrayKind::Dynamic) { "dynamic" } else { "cse" };
            (
                format!("arm:ArrayFormula:{}/{}", if k == "dynamic" { "Dynamic" } else { "Cse" }, fval_arm(v)),
                format!("Array {} {s} {} {} {k} {}", hex(&ftext(*f, true)), r.0, r.1, fval(v, norm)),
            )
        }
        Cell::SpillCell { s, a, v } => {
            let (arm, sv) = match v {
                SpillValue::Boolean(b) => ("Boolean", format!("B {}", *b as u8)),
                SpillValue::Number(n) => ("Number", format!("N {}", hex(&format!("{n}")))),
                SpillValue::Text(t) => ("Text", format!("T {}", hex(t))),
                SpillValue::Error(e) => ("Error", format!("E {}", hex(&format!("{e}")))),
            };
            (format!("arm:SpillCell/{arm}"), format!("Spill {sv} {s} {} {}", a.0, a.1))
        }
    }
}

/// the importer's `array_ranges` lookup, computed on the original workbook: the last multi-cell array formula
/// at or before this cell (document order) whose range contains the cell, other than as its own anchor
fn anchor_ctx(m: &Model, sheet: usize, row: i32, col: i32) -> String {
    let ws = &m.workbook.worksheets[sheet];
    let mut best: Option<(i32, i32)> = None;
    let mut rows: Vec<&i32> = ws.sheet_data.keys().collect();
    rows.sort();
    for r in rows {
        let mut cols: Vec<&i32> = ws.sheet_data[r].keys().collect();
        cols.sort();
        for c in cols {
            if (*r, *c) > (row, col) {
                continue;
            }
            if let Cell::ArrayFormula { r: (w, h), .. } = &ws.sheet_data[r][c] {
                let (r2, c2) = (r + h - 1, c + w - 1);
                if (r2 > *r || c2 > *c) && (*r..=r2).contains(&row) && (*c..=c2).contains(&col) && !(*r == row && *c == col) {
                    best = Some((*r, *c));
                }
            }
        }
    }
    match best {
        Some((r, c)) => format!("{r},{c}"),
        None => "-".into(),
    }
}

fn request_for(b: &Book, sheet: usize, row: i32, col: i32) -> Option<String> {
    let cell = b.original.workbook.worksheets.get(sheet)?.sheet_data.get(&row)?.get(&col)?;
    let (arm, ct) = cell_tokens(&b.original, sheet, row, col, cell, false);
    let elem = match b.elems.get(&(sheet, row, col)) {
        Some(x) => {
            let mut t = vec![];
            tokens(x, &mut t);
            t.join(" ")
        }
        // the exporter skipped the cell: an element the reader rejects stands for "nothing was written"
        None => "E missing 0 0".to_string(),
    };
    Some(format!(
        "c24 cell {} {sheet} {row} {col} {arm} {} {} CELL {ct} ELEM {elem}",
        b.seed,
        hex(&b.original.workbook.worksheets[sheet].get_name()),
        anchor_ctx(&b.original, sheet, row, col)
    ))
}

fn gen_cell(ctx: &Ctx, sink: &mut dyn FnMut(String)) {
    let n = if ctx.tier == Tier::Thorough { 1_500 } else { 60 };
    let mut seeds = vec!["arms".to_string()];
    for i in 0..n {
        seeds.push((ctx.seed.wrapping_mul(1_000_000) + i).to_string());
    }
    for seed in seeds {
        let reqs: Vec<String> = with_book(&seed, |b| {
            let mut out = vec![];
            for (sheet, ws) in b.original.workbook.worksheets.iter().enumerate() {
                let mut keys: Vec<(i32, i32)> = vec![];
                for (r, data) in &ws.sheet_data {
                    for c in data.keys() {
                        keys.push((*r, *c));
                    }
                }
                keys.sort();
                for (r, c) in keys {
                    // a spill cell that no array formula covers is a stale spill of the ORIGINAL workbook
                    // (property C31's subject); the file cannot express it and it is not sent
                    if matches!(ws.sheet_data[&r][&c], Cell::SpillCell { .. }) && anchor_ctx(&b.original, sheet, r, c) == "-" {
                        continue;
                    }
                    if let Some(q) = request_for(b, sheet, r, c) {
                        out.push(q);
                    }
                }
            }
            out
        })
        .unwrap_or_default();
        for q in reqs {
            sink(q);
        }
    }
}

fn eval_cell(req: &str) -> ImplOut {
    let f: Vec<&str> = req.split(' ').collect();
    if f.len() < 10 {
        return ImplOut::new("bad-request".into());
    }
    let (seed, sheet, row, col) = (f[2], f[3].parse::<usize>().unwrap_or(0), f[4].parse::<i32>().unwrap_or(0), f[5].parse::<i32>().unwrap_or(0));
    let arm = f[6].to_string();
    let res = catch_unwind(AssertUnwindSafe(|| {
        with_book(seed, |b| {
            // the request must be the one this workbook gives (a replayed line is checked, not trusted)
            let expected = request_for(b, sheet, row, col);
            if expected.as_deref() != Some(req) {
                return Err("the request line does not match the workbook of this seed".to_string());
            }
            let w = match b.elems.get(&(sheet, row, col)) {
                Some(x) => {
                    let mut t = vec![];
                    tokens(x, &mut t);
                    format!("W {}", t.join(" "))
                }
                None => "W skip".to_string(),
            };
            let cell = &b.original.workbook.worksheets[sheet].sheet_data[&row][&col];
            let want = cell_tokens(&b.original, sheet, row, col, cell, true).1;
            let (r, got) = match &b.imported {
                _ if !b.elems.contains_key(&(sheet, row, col)) => ("R skipped".to_string(), None),
                None => ("R err".to_string(), None),
                Some((wb, m2)) => match wb.worksheets.get(sheet).and_then(|ws| ws.sheet_data.get(&row)).and_then(|d| d.get(&col)) {
                    Some(c2) => {
                        let t = cell_tokens(m2, sheet, row, col, c2, false).1;
                        (format!("R {t}"), Some(t))
                    }
                    None => ("R missing".to_string(), None),
                },
            };
            Ok((w, r, want, got))
        })
    }));
    match res {
        Err(_) => ImplOut::new("panic".into()).tag(&arm).fail(&format!("c24:cell:{arm}:panic"), req),
        Ok(None) => ImplOut::new("no-book".into()).fail("c24:cell:export-failed", req),
        Ok(Some(Err(e))) => ImplOut::new(format!("bad-request: {e}")),
        Ok(Some(Ok((w, r, want, got)))) => {
            let mut out = ImplOut::new(format!("{w} | {r}")).tag(&arm);
            if got.as_deref() != Some(want.as_str()) {
                out = out.fail(
                    &format!("c24:cell:{arm}:roundtrip"),
                    &format!(
                        "seed {seed} sheet {sheet} cell ({row},{col}), writer arm {arm}: the cell `{want}` came back as `{}` after export+import; exported element: {w}",
                        got.unwrap_or_else(|| r.clone())
                    ),
                );
            }
            out
        }
    }
}

pub fn suite() -> Suite {
    Suite {
        name: "c24-cell",
        rule: "distinct cells of generated workbooks: the real exporter's <c> element vs writeCell, the real importer's cell vs readCell of that element",
        modelled: true,
        gen: gen_cell,
        eval: eval_cell,
        exhaustive: never,
    }
}
