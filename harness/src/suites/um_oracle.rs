//! Oracle-only suites for the `UserModel` properties: C01 (undo), C02 (redo / cursor), C03 (replica
//! convergence), C04 (failed op changes nothing), C27 (well-formedness). Every oracle is the property
//! text evaluated on the real implementation; the request line fully determines the evaluation.
//!
//! Request formats (every suite accepts both):
//!   `cXX seed <n> <len> <invalid_bias>`   history generated inside `eval` from the seed
//!   `cXX ops <cmd> <cmd> …`               explicit command tokens (`Cmd::encode`; `U`, `R`, `F`)
//! C04 additionally accepts a trailing `@<invalid-class>` token naming the class of the last op.
use crate::prng::Rng;
use crate::run::{never, Ctx, ImplOut, Suite, Tier};
use crate::suites::um::*;
use ironcalc_base::types::Cell;
use ironcalc_base::UserModel;
use std::cell::RefCell;
use std::collections::{BTreeSet, HashMap};

type M = UserModel<'static>;

// ------------------------------------------------------------------------------------------
// common
// ------------------------------------------------------------------------------------------

enum Req {
    Seed { seed: u64, len: usize, bias: u32 },
    Ops { cmds: Vec<Cmd>, class: Option<String> },
    Bad(String),
}

fn parse_req(req: &str) -> Req {
    let f: Vec<&str> = req.split(' ').filter(|s| !s.is_empty()).collect();
    if f.len() < 2 {
        return Req::Bad("short request".into());
    }
    match f[1] {
        "seed" if f.len() == 5 => match (f[2].parse(), f[3].parse(), f[4].parse()) {
            (Ok(seed), Ok(len), Ok(bias)) => Req::Seed { seed, len, bias },
            _ => Req::Bad("bad seed request".into()),
        },
        "ops" => {
            let mut cmds = vec![];
            let mut class = None;
            for tok in &f[2..] {
                if let Some(c) = tok.strip_prefix('@') {
                    class = Some(c.to_string());
                    continue;
                }
                match Cmd::decode(tok) {
                    Some(c) => cmds.push(c),
                    None => return Req::Bad(format!("undecodable command token {tok}")),
                }
            }
            Req::Ops { cmds, class }
        }
        _ => Req::Bad("unknown request form".into()),
    }
}

/// Snapshot under the canonical language `en` (content text, booleans and error names are localised;
/// the language is per-user view state, not workbook state). The model's language is restored.
fn snap_en(m: &mut M, with_view: bool) -> Snap {
    let lang = m.get_language();
    if lang == "en" {
        return snapshot(m, with_view);
    }
    let _ = m.set_language("en");
    let s = snapshot(m, with_view);
    let _ = m.set_language(&lang);
    s
}

fn trace() -> bool {
    std::env::var("UM_TRACE").map(|v| v == "cmd").unwrap_or(false)
}

/// `UM_TRACE=eval`: print every request with its evaluation time and the peak RSS to stderr.
fn timed(req: &str, f: fn(&str) -> ImplOut) -> ImplOut {
    if std::env::var("UM_TRACE").map(|v| v == "eval").unwrap_or(false) {
        let t = std::time::Instant::now();
        let out = f(req);
        let rss = std::fs::read_to_string("/proc/self/status")
            .ok()
            .and_then(|s| s.lines().find(|l| l.starts_with("VmRSS")).map(|l| l.to_string()))
            .unwrap_or_default();
        eprintln!("EVAL {:?} {} {}", t.elapsed(), rss.replace('\t', " "), &req[..req.len().min(60)]);
        out
    } else {
        f(req)
    }
}

thread_local! {
    static SHRINKS: RefCell<HashMap<String, u32>> = RefCell::new(HashMap::new());
    static SHRINK_SPENT: RefCell<std::time::Duration> = RefCell::new(std::time::Duration::ZERO);
}

/// total time this process may spend on shrinking (a single replayed request always fits)
const SHRINK_BUDGET: std::time::Duration = std::time::Duration::from_secs(8);

/// Shrinking is only spent on the first few occurrences of a signature in this process (the verdict
/// and the signatures never depend on it; only the detail text gets the shrunk replay line).
fn may_shrink(sig: &str) -> bool {
    SHRINKS.with(|s| {
        let mut s = s.borrow_mut();
        let c = s.entry(sig.to_string()).or_insert(0);
        *c += 1;
        *c <= 2
    }) && SHRINK_SPENT.with(|t| *t.borrow() < SHRINK_BUDGET)
}

/// Greedy shrinking: drop commands (never the last `keep_tail` ones) while `fails` still holds.
fn shrink(cmds: &[Cmd], keep_tail: usize, fails: &dyn Fn(&[Cmd]) -> bool) -> Vec<Cmd> {
    let mut cur: Vec<Cmd> = cmds.to_vec();
    let mut budget = 80usize;
    let started = std::time::Instant::now();
    for _pass in 0..2 {
        let mut changed = false;
        // first try to drop big chunks from the front
        let mut chunk = cur.len().saturating_sub(keep_tail) / 2;
        while chunk >= 2 && budget > 0 {
            let cand: Vec<Cmd> = cur[chunk..].to_vec();
            budget -= 1;
            if cand.len() >= keep_tail && fails(&cand) {
                cur = cand;
                changed = true;
                chunk = cur.len().saturating_sub(keep_tail) / 2;
            } else {
                chunk /= 2;
            }
        }
        let mut i = cur.len().saturating_sub(keep_tail);
        while i > 0 && budget > 0 {
            i -= 1;
            let mut cand = cur.clone();
            cand.remove(i);
            budget -= 1;
            if fails(&cand) {
                cur = cand;
                changed = true;
            }
        }
        if !changed {
            break;
        }
    }
    SHRINK_SPENT.with(|t| *t.borrow_mut() += started.elapsed());
    cur
}

fn diff_text(d: &[String]) -> String {
    let mut s = d.iter().take(4).cloned().collect::<Vec<_>>().join(" | ");
    if d.len() > 4 {
        s.push_str(&format!(" | … ({} paths differ)", d.len()));
    }
    if s.len() > 1500 {
        s.truncate(1500);
        s.push('…');
    }
    s
}

/// Random history: ops from `gen_op` against the evolving real model; `undo_redo` > 0 interleaves
/// Undo/Redo (percent), `flush` > 0 interleaves Flush (percent).
fn gen_history(rng: &mut Rng, len: usize, bias: u32, undo_redo: u64, flush: u64) -> Vec<Cmd> {
    let mut m = new_model();
    let mut cmds = vec![];
    // two of three histories use the plain input profile (see `set_plain_inputs`)
    set_plain_inputs(rng.chance(2, 3));
    // `do ; undo ; redo` probes: right after an operation (more often after one that writes a whole
    // rectangle: autofill, paste, clears, array formulas) the history undoes and redoes it, so that every
    // op kind is regularly undone/redone in the very state it ran in, not only some steps later
    let mut pending: Vec<Cmd> = vec![];
    for _ in 0..len {
        let x = rng.below(100);
        let cmd = if let Some(c) = pending.pop() {
            c
        } else if x < undo_redo {
            if rng.chance(3, 5) {
                Cmd::Undo
            } else {
                Cmd::Redo
            }
        } else if x < undo_redo + flush {
            Cmd::Flush
        } else {
            Cmd::Op(gen_op(rng, &m, bias))
        };
        match &cmd {
            Cmd::Op(o) => {
                let _ = apply(&mut m, o);
                if undo_redo > 0 && pending.is_empty() {
                    let rect = matches!(
                        o,
                        Op::AutoFillRows { .. }
                            | Op::AutoFillColumns { .. }
                            | Op::Paste { .. }
                            | Op::PasteCsv { .. }
                            | Op::RangeClearContents { .. }
                            | Op::RangeClearAll { .. }
                            | Op::SetUserArrayFormula { .. }
                            | Op::MoveRows { .. }
                            | Op::MoveColumns { .. }
                            | Op::InsertRows { .. }
                            | Op::InsertColumns { .. }
                            | Op::DeleteRows { .. }
                            | Op::DeleteColumns { .. }
                    );
                    if rng.chance(if rect { 60 } else { 15 }, 100) {
                        // popped from the back: Undo first, then (often) Redo
                        if rng.chance(2, 3) {
                            pending.push(Cmd::Redo);
                        }
                        pending.push(Cmd::Undo);
                    }
                }
            }
            Cmd::Undo => {
                let _ = m.undo();
            }
            Cmd::Redo => {
                let _ = m.redo();
            }
            Cmd::Flush => {}
        }
        assert_eq!(Cmd::decode(&cmd.encode()).as_ref(), Some(&cmd), "codec round trip");
        cmds.push(cmd);
    }
    set_plain_inputs(false);
    cmds
}

fn emit_seeds(ctx: &Ctx, prefix: &str, quick: (usize, usize), thorough: (usize, usize), biases: &[u32], sink: &mut dyn FnMut(String)) {
    let mut rng = Rng::new(ctx.seed);
    let (n, maxlen) = if ctx.tier == Tier::Quick { quick } else { thorough };
    for i in 0..n {
        let seed = rng.next() % 1_000_000_007;
        let len = 3 + rng.below(maxlen as u64 - 2) as usize;
        let bias = biases[i % biases.len()];
        sink(format!("{prefix} seed {seed} {len} {bias}"));
    }
}

/// Tracks which op kind each undo / redo stack entry belongs to, following the engine's own depths.
#[derive(Default, Clone)]
struct KindStacks {
    undo: Vec<&'static str>,
    redo: Vec<&'static str>,
}

impl KindStacks {
    /// call after a command, with the depths before and after it
    fn step(&mut self, cmd: &Cmd, before: (usize, usize), after: (usize, usize)) -> String {
        match cmd {
            Cmd::Op(o) => {
                if after.0 == before.0 + 1 {
                    self.undo.push(o.kind());
                    self.redo.clear();
                }
                o.kind().to_string()
            }
            Cmd::Undo => {
                if after.0 + 1 == before.0 {
                    let k = self.undo.pop().unwrap_or("?");
                    self.redo.push(k);
                    format!("Undo-{k}")
                } else {
                    "Undo-nothing".to_string()
                }
            }
            Cmd::Redo => {
                if after.1 + 1 == before.1 {
                    let k = self.redo.pop().unwrap_or("?");
                    self.undo.push(k);
                    format!("Redo-{k}")
                } else {
                    "Redo-nothing".to_string()
                }
            }
            Cmd::Flush => "Flush".to_string(),
        }
    }
}

// ------------------------------------------------------------------------------------------
// op qualifiers (make C01 signatures specific)
// ------------------------------------------------------------------------------------------

fn cell_state(m: &M, sheet: u32, row: i32, col: i32) -> &'static str {
    match m.get_model().workbook.worksheet(sheet).ok().and_then(|ws| ws.cell(row, col)) {
        None => "absent",
        Some(Cell::EmptyCell { .. }) => "empty",
        Some(Cell::SpillCell { .. }) => "spill",
        Some(Cell::ArrayFormula { .. }) => "array",
        Some(_) => "value",
    }
}

fn area_has(m: &M, a: &Ar, pred: &dyn Fn(&Cell) -> bool) -> bool {
    if let Ok(ws) = m.get_model().workbook.worksheet(a.sheet) {
        for (r, data) in &ws.sheet_data {
            for (c, cell) in data {
                if a.contains(*r, *c) && pred(cell) {
                    return true;
                }
            }
        }
    }
    false
}

fn area_has_array(m: &M, a: &Ar) -> bool {
    area_has(m, a, &|c| matches!(c, Cell::SpillCell { .. }) || matches!(c, Cell::ArrayFormula { r, .. } if r.0 > 1 || r.1 > 1))
}

fn area_has_links(m: &M, a: &Ar) -> bool {
    m.get_model().workbook.worksheet(a.sheet).map(|ws| ws.links.keys().any(|(r, c)| a.contains(*r, *c))).unwrap_or(false)
}

fn shape(a: &Ar) -> &'static str {
    if a.is_full_cols() {
        "-full-col"
    } else if a.is_full_rows() {
        "-full-row"
    } else {
        "-cells"
    }
}

/// `-over-cse`: the fill target holds cells of a CSE array (the engine clears such arrays first);
/// `-arrays`: otherwise, some array formula lives on the sheet (fills next to spills re-evaluate them).
fn fill_qualifier(m: &M, target: &Ar, q: &mut String) {
    let cse_anchor = |ws: &ironcalc_base::types::Worksheet, r: i32, c: i32| {
        matches!(ws.cell(r, c), Some(Cell::ArrayFormula { kind: ironcalc_base::types::ArrayKind::Cse, .. }))
    };
    let mut over = false;
    if let Ok(ws) = m.get_model().workbook.worksheet(target.sheet) {
        for (r, data) in &ws.sheet_data {
            for (c, cell) in data {
                if !target.contains(*r, *c) {
                    continue;
                }
                match cell {
                    Cell::ArrayFormula { kind: ironcalc_base::types::ArrayKind::Cse, .. } => over = true,
                    Cell::SpillCell { a, .. } if cse_anchor(ws, a.0, a.1) => over = true,
                    _ => {}
                }
            }
        }
    }
    if over {
        q.push_str("-over-cse");
    } else if area_has(m, &Ar::new(target.sheet, 1, 1, 64, 64), &|c| matches!(c, Cell::SpillCell { .. } | Cell::ArrayFormula { .. })) {
        q.push_str("-arrays");
    }
}

/// A qualifier derived from the op and the state *before* it runs.
fn qualifier(m: &M, op: &Op) -> String {
    let wb = &m.get_model().workbook;
    let mut q = String::new();
    match op {
        Op::SetUserInput { sheet, row, col, value } => {
            q.push_str(match cell_state(m, *sheet, *row, *col) {
                "absent" => "-into-empty",
                "empty" => "-over-empty-styled",
                "spill" => "-over-spill",
                "array" => "-over-array",
                _ => "-over-existing",
            });
            if value.is_empty() {
                q.push_str("-emptyvalue");
            }
        }
        Op::SetUserArrayFormula { sheet, row, col, width, height, .. } => {
            let a = Ar::new(*sheet, *row, *col, *width, *height);
            q.push_str(if area_has(m, &a, &|_| true) { "-over-existing" } else { "-into-empty" });
        }
        Op::RangeClearContents { area } | Op::RangeClearAll { area } => {
            if area_has_array(m, area) {
                q.push_str("-with-array");
            }
            if area_has_links(m, area) {
                q.push_str("-with-links");
            }
        }
        Op::RangeClearFormatting { area } => q.push_str(shape(area)),
        Op::UpdateRangeStyle { area, path, .. } => {
            q.push_str(shape(area));
            q.push('-');
            q.push_str(path);
        }
        Op::SetAreaWithBorder { area, .. } => q.push_str(shape(area)),
        Op::DeleteRows { sheet, row, count } => {
            let a = Ar::new(*sheet, *row, 1, LAST_COLUMN, *count);
            if area_has_array(m, &a) {
                q.push_str("-with-array");
            }
            if let Ok(ws) = wb.worksheet(*sheet) {
                if ws.rows.iter().any(|r| r.r >= *row && r.r < *row + *count) {
                    q.push_str("-with-row-attrs");
                }
            }
        }
        Op::DeleteColumns { sheet, col, count } => {
            let a = Ar::new(*sheet, 1, *col, *count, LAST_ROW);
            if area_has_array(m, &a) {
                q.push_str("-with-array");
            }
            if let Ok(ws) = wb.worksheet(*sheet) {
                if ws.cols.iter().any(|c| c.max >= *col && c.min < *col + *count) {
                    q.push_str("-with-col-attrs");
                }
            }
        }
        Op::AutoFillRows { area, to_row } => {
            let last = area.row + area.height - 1;
            let t = if *to_row > last { Ar::new(area.sheet, last + 1, area.col, area.width, *to_row - last) } else { Ar::new(area.sheet, *to_row, area.col, area.width, (area.row - *to_row).max(0)) };
            fill_qualifier(m, &t, &mut q);
        }
        Op::AutoFillColumns { area, to_col } => {
            let last = area.col + area.width - 1;
            let t = if *to_col > last { Ar::new(area.sheet, area.row, last + 1, *to_col - last, area.height) } else { Ar::new(area.sheet, area.row, *to_col, (area.col - *to_col).max(0), area.height) };
            fill_qualifier(m, &t, &mut q);
        }
        Op::MoveRows { sheet, .. } | Op::MoveColumns { sheet, .. } | Op::InsertRows { sheet, .. } | Op::InsertColumns { sheet, .. } => {
            // the known inexact undos of structural edits all involve array formulas on the sheet
            let all = Ar::new(*sheet, 1, 1, 64, 64);
            if area_has(m, &all, &|c| matches!(c, Cell::SpillCell { .. } | Cell::ArrayFormula { .. })) {
                q.push_str("-arrays");
            }
        }
        Op::SetColumnsWidth { sheet, start, end, .. } => {
            if let Ok(ws) = wb.worksheet(*sheet) {
                if (*start..=*end).any(|c| ws.is_column_hidden(c).unwrap_or(false)) {
                    q.push_str("-hidden");
                }
            }
        }
        Op::SetRowsHeight { sheet, start, end, .. } => {
            if let Ok(ws) = wb.worksheet(*sheet) {
                if (*start..=*end).any(|r| ws.is_row_hidden(r).unwrap_or(false)) {
                    q.push_str("-hidden");
                }
            }
        }
        Op::SetColumnsHidden { hidden, .. } | Op::SetRowsHidden { hidden, .. } => q.push_str(if *hidden { "-hide" } else { "-unhide" }),
        Op::DeleteSheet { sheet } => {
            if let Ok(ws) = wb.worksheet(*sheet) {
                if !ws.links.is_empty() {
                    q.push_str("-with-links");
                }
                if !ws.conditional_formatting.is_empty() {
                    q.push_str("-with-cf");
                }
                if wb.defined_names.iter().any(|d| d.sheet_id == Some(ws.sheet_id)) {
                    q.push_str("-with-names");
                }
            }
        }
        Op::DuplicateSheet { sheet } => {
            if let Ok(ws) = wb.worksheet(*sheet) {
                if wb.defined_names.iter().any(|d| d.sheet_id == Some(ws.sheet_id)) {
                    q.push_str("-with-names");
                }
            }
        }
        Op::Paste { src_sheet, dst_sheet, r1, c1, r2, c2, cut, .. } => {
            q.push_str(if *cut { "-cut" } else { "-copy" });
            if src_sheet != dst_sheet {
                q.push_str("-cross-sheet");
            }
            if area_has_array(m, &Ar::new(*src_sheet, *r1, *c1, c2 - c1 + 1, r2 - r1 + 1)) {
                q.push_str("-with-array");
            }
        }
        Op::ApplyNamedStyle { name } => {
            if !m.get_named_style_list().contains(name) {
                q.push_str("-builtin-new");
            }
        }
        Op::SetCellLink { sheet, row, col, label, .. } => {
            q.push_str(if m.get_cell_link(*sheet, *row, *col).ok().flatten().is_some() { "-replace" } else { "-new" });
            if label.is_some() {
                q.push_str("-with-label");
            }
        }
        Op::DeleteDefinedName { name, .. } | Op::UpdateDefinedName { name, .. } => {
            let up = name.to_uppercase();
            if wb.worksheets.iter().any(|ws| ws.shared_formulas.iter().any(|f| f.to_uppercase().contains(&up))) {
                q.push_str("-used");
            }
        }
        _ => {}
    }
    q
}

/// Did the op (structural ops only) break references, i.e. did new `#REF!` appear in some content?
fn broke_refs(before: &Snap, after: &Snap) -> bool {
    let count = |s: &Snap| s.iter().filter(|(k, v)| k.ends_with(".content") && v.contains("#REF!")).count();
    count(after) > count(before)
}

// ------------------------------------------------------------------------------------------
// C01
// ------------------------------------------------------------------------------------------

struct Run {
    fails: Vec<(String, String)>,
    tags: Vec<String>,
    checked: usize,
    /// index of the command at which the first failure with the wanted signature happened
    hit_at: Option<usize>,
}

fn run_c01(cmds: &[Cmd], want: Option<&str>) -> Run {
    let mut out = Run { fails: vec![], tags: vec![], checked: 0, hit_at: None };
    let mut m = new_model();
    let initial = snap_en(&mut m, false);
    let mut local_failures = false;
    let mut sigs_seen: BTreeSet<String> = BTreeSet::new();
    macro_rules! fail {
        ($idx:expr, $sig:expr, $detail:expr) => {{
            let sig: String = $sig;
            if want.map(|w| w == sig).unwrap_or(false) && out.hit_at.is_none() {
                out.hit_at = Some($idx);
                return out;
            }
            if sigs_seen.insert(sig.clone()) {
                out.fails.push((sig, $detail));
            }
        }};
    }
    for (idx, cmd) in cmds.iter().enumerate() {
        let op = match cmd {
            Cmd::Op(o) => o,
            Cmd::Undo => {
                let _ = m.undo();
                continue;
            }
            Cmd::Redo => {
                let _ = m.redo();
                continue;
            }
            Cmd::Flush => {
                let _ = m.flush_send_queue();
                continue;
            }
        };
        let kind = op.kind();
        // harness-level preparation (selection moves) is not part of the op
        let prep = match prepare(&mut m, op) {
            Ok(p) => p,
            Err(_) => {
                out.tags.push(format!("c01:{kind}:prepare-failed"));
                continue;
            }
        };
        let t0 = std::time::Instant::now();
        let before = snap_en(&mut m, false);
        let t1 = t0.elapsed();
        let d0 = m.verif_history_len();
        let qual = qualifier(&m, op);
        let res = call(&mut m, op, &prep);
        let d1 = m.verif_history_len();
        if trace() {
            eprintln!("TRACE {} snap={:?} call={:?} -> {:?}", op.encode(), t1, t0.elapsed() - t1, res);
        }
        match &res {
            Err(e) if e.starts_with("PANIC") => out.tags.push(format!("c01:{kind}:panic")),
            Err(_) => out.tags.push(format!("c01:{kind}:err")),
            Ok(()) => {}
        }
        if res.is_err() {
            // C01 speaks about histories in which a failed op changes nothing (that is C04): a failed op
            // that edited the workbook or the stacks leaves a state the rest of the history cannot be judged on
            if d1 != d0 || snap_en(&mut m, false) != before {
                out.tags.push(format!("c01:aborted:failed-op-changed-state:{kind}"));
                return out;
            }
            continue;
        }
        if d1.0 != d0.0 + 1 {
            out.tags.push(format!("c01:{kind}:ok-no-history"));
            continue;
        }
        out.tags.push(format!("c01:{kind}:ok-recorded"));
        let after = snap_en(&mut m, false);
        let mut q = qual;
        if matches!(op, Op::DeleteRows { .. } | Op::DeleteColumns { .. } | Op::MoveRows { .. } | Op::MoveColumns { .. } | Op::DeleteSheet { .. } | Op::Paste { .. })
            && broke_refs(&before, &after)
        {
            q.push_str("-referenced");
        }
        if after == before {
            out.tags.push(format!("c01:{kind}:recorded-noop"));
        }
        out.checked += 1;
        match catch(|| m.undo()) {
            Ok(()) => {}
            Err(e) => {
                local_failures = true;
                fail!(idx, format!("c01:undo-returned-err:{kind}{q}"), format!("op {} ; undo() -> Err({e})", op.encode()));
                // the state is undefined now: stop this history
                out.tags.push("c01:aborted-after-undo-err".into());
                return out;
            }
        }
        let undone = snap_en(&mut m, false);
        if undone != before {
            local_failures = true;
            let d = snapshot_diff(&before, &undone);
            fail!(
                idx,
                format!("c01:undo:{kind}{q}:{}", first_class(&d)),
                format!("op {} ; before-op vs after-undo: {}", op.encode(), diff_text(&d))
            );
        }
        if let Err(e) = catch(|| m.redo()) {
            out.tags.push(format!("c01:{kind}:redo-err"));
            let _ = e;
            return out;
        }
    }
    // undo everything
    let mut guard = 0;
    while m.can_undo() && guard < 10_000 {
        guard += 1;
        if let Err(e) = catch(|| m.undo()) {
            fail!(cmds.len(), "c01:undo-returned-err:undo-all".to_string(), format!("undo() -> Err({e}) while undoing everything"));
            return out;
        }
    }
    let _ = m.set_language("en");
    let end = snap_en(&mut m, false);
    if end != initial {
        let d = snapshot_diff(&initial, &end);
        let suffix = if local_failures { ":after-local-failure" } else { "" };
        fail!(cmds.len(), format!("c01:undo-all:{}{suffix}", first_class(&d)), format!("initial vs after undoing everything: {}", diff_text(&d)));
    }
    out
}

fn catch(f: impl FnOnce() -> Result<(), String>) -> Result<(), String> {
    match std::panic::catch_unwind(std::panic::AssertUnwindSafe(f)) {
        Ok(r) => r,
        Err(_) => Err("PANIC".into()),
    }
}

fn finish(name: &str, cmds: &[Cmd], run: Run, rerun: &dyn Fn(&[Cmd], &str) -> Option<usize>, fixed_tail: usize) -> ImplOut {
    let mut out = ImplOut::new(format!("cmds={} checked={} failures={}", cmds.len(), run.checked, run.fails.len()));
    out.tags = run.tags;
    out.nontrivial = run.checked > 0;
    for (sig, detail) in run.fails {
        let mut detail = detail;
        if may_shrink(&sig) {
            // cut after the failing command, then drop commands greedily
            let mut cur: Vec<Cmd> = cmds.to_vec();
            if let Some(at) = rerun(&cur, &sig) {
                let mut tail = fixed_tail;
                if fixed_tail == 0 && at < cur.len() {
                    cur.truncate(at + 1);
                    tail = 1;
                }
                let small = shrink(&cur, tail, &|c| rerun(c, &sig).is_some());
                detail.push_str(&format!(" ;; replay: {name} ops {}", encode_cmds(&small)));
            }
        }
        out.oracle.push((sig, detail));
    }
    out
}

fn cmds_of(req: &str, undo_redo: u64, flush: u64) -> Result<Vec<Cmd>, String> {
    match parse_req(req) {
        Req::Seed { seed, len, bias } => {
            let mut rng = Rng::new(seed);
            Ok(gen_history(&mut rng, len, bias, undo_redo, flush))
        }
        Req::Ops { cmds, .. } => Ok(cmds),
        Req::Bad(e) => Err(e),
    }
}

fn eval_c01(req: &str) -> ImplOut {
    let cmds = match cmds_of(req, 0, 0) {
        Ok(c) => c,
        Err(e) => return ImplOut::new(format!("bad-request: {e}")).trivial(),
    };
    if trace() {
        let t = std::time::Instant::now();
        for _ in 0..100 {
            let _ = new_model();
        }
        eprintln!("TRACE 100 x new_model: {:?}", t.elapsed());
        let t = std::time::Instant::now();
        for _ in 0..100 {
            let _ = run_c01(&cmds, None);
        }
        eprintln!("TRACE 100 x run_c01: {:?}", t.elapsed());
    }
    let run = run_c01(&cmds, None);
    finish("c01", &cmds, run, &|c, sig| run_c01(c, Some(sig)).hit_at, 0)
}

fn gen_c01(ctx: &Ctx, sink: &mut dyn FnMut(String)) {
    emit_seeds(ctx, "c01", (900, 25), (3000, 60), &[0, 5, 10], sink);
}

pub fn c01_oracle() -> Suite {
    Suite {
        name: "c01-oracle",
        rule: "random histories of UserModel ops (state-aware generator, 0/5/10 % invalid ops); for every successful op that grew the undo stack by one: snapshot(before) == snapshot(after op; undo), then redo; at the end undo everything and compare with the initial snapshot; non-trivial = at least one recorded op was checked",
        modelled: false,
        gen: gen_c01,
        eval: |r| timed(r, eval_c01),
        exhaustive: never,
    }
}

// ------------------------------------------------------------------------------------------
// C02
// ------------------------------------------------------------------------------------------

fn run_c02(cmds: &[Cmd], want: Option<&str>) -> Run {
    let mut out = Run { fails: vec![], tags: vec![], checked: 0, hit_at: None };
    let mut m = new_model();
    // spec: timeline of snapshots + cursor; kinds[k] is the op that leads from position k to k+1
    let mut timeline: Vec<Snap> = vec![snap_en(&mut m, false)];
    // (op kind + the qualifier of the state it ran in, like the C01 oracle)
    let mut kinds: Vec<String> = vec![];
    let mut cursor: usize = 0;
    let mut sigs_seen: BTreeSet<String> = BTreeSet::new();
    // `-lang`: a language switch happened earlier in this history (recorded texts are re-parsed in the
    // language active at replay time: finding F03c); kept in the signature so that the known language
    // effect does not cover a replay defect of the same op kind in histories without a switch
    let mut lang = "";
    macro_rules! fail {
        ($idx:expr, $sig:expr, $detail:expr) => {{
            let sig: String = $sig;
            if want.map(|w| w == sig).unwrap_or(false) && out.hit_at.is_none() {
                out.hit_at = Some($idx);
                return out;
            }
            if sigs_seen.insert(sig.clone()) {
                out.fails.push((sig, $detail));
            }
        }};
    }
    for (idx, cmd) in cmds.iter().enumerate() {
        match cmd {
            Cmd::Flush => {
                let _ = m.flush_send_queue();
                continue;
            }
            Cmd::Op(op) => {
                if matches!(op, Op::SetLanguage { lang: l } if l != "en") {
                    lang = "-lang";
                }
                let kind = op.kind();
                let kq = format!("{}{}", kind, qualifier(&m, op));
                let d0 = m.verif_history_len();
                let res = apply(&mut m, op);
                let d1 = m.verif_history_len();
                if d1.0 == d0.0 + 1 {
                    if let Err(e) = &res {
                        fail!(idx, format!("c02:depths:failed-op-recorded:{kind}"), format!("op {} returned Err({e}) but the undo stack grew", op.encode()));
                    }
                    out.tags.push(format!("c02:{kind}:recorded"));
                    timeline.truncate(cursor + 1);
                    kinds.truncate(cursor);
                    timeline.push(snap_en(&mut m, false));
                    kinds.push(kq);
                    cursor += 1;
                    if d1.1 != 0 {
                        fail!(idx, "c02:new-op-kept-redo".to_string(), format!("after op {} the redo stack has depth {}", op.encode(), d1.1));
                    }
                } else {
                    out.tags.push(format!("c02:{kind}:{}", if res.is_err() { "err" } else { "not-recorded" }));
                    // the spec's timeline only stays meaningful if an unrecorded command left the state alone
                    // (that is C04's business, not C02's): otherwise stop here
                    if snap_en(&mut m, false) != timeline[cursor] {
                        out.tags.push("c02:aborted:unrecorded-command-changed-state".into());
                        break;
                    }
                }
            }
            Cmd::Undo => {
                if let Err(e) = catch(|| m.undo()) {
                    let k = if cursor > 0 { kinds[cursor - 1].clone() } else { "nothing".to_string() };
                    fail!(idx, format!("c02:undo-returned-err:{k}"), format!("undo() -> Err({e})"));
                    out.tags.push("c02:aborted:undo-err".into());
                    break;
                }
                if cursor > 0 {
                    cursor -= 1;
                    out.checked += 1;
                    out.tags.push(format!("c02:undo:{}", kinds[cursor].split('-').next().unwrap_or("")));
                    let s = snap_en(&mut m, false);
                    if s != timeline[cursor] {
                        let d = snapshot_diff(&timeline[cursor], &s);
                        fail!(idx, format!("c02:undo:{}{lang}:{}", kinds[cursor], first_class(&d)), format!("position {cursor}: recorded vs after undo: {}", diff_text(&d)));
                        // the leftover of a wrong undo persists at every earlier position: the timeline is
                        // no longer a valid spec for the rest of this history
                        out.tags.push("c02:aborted:after-mismatch".into());
                        break;
                    }
                } else {
                    out.tags.push("c02:undo:at-start".into());
                }
            }
            Cmd::Redo => {
                if let Err(e) = catch(|| m.redo()) {
                    let k = if cursor < kinds.len() { kinds[cursor].clone() } else { "nothing".to_string() };
                    fail!(idx, format!("c02:redo-returned-err:{k}"), format!("redo() -> Err({e})"));
                    out.tags.push("c02:aborted:redo-err".into());
                    break;
                }
                if cursor < kinds.len() {
                    cursor += 1;
                    out.checked += 1;
                    out.tags.push(format!("c02:redo:{}", kinds[cursor - 1].split('-').next().unwrap_or("")));
                    let s = snap_en(&mut m, false);
                    if s != timeline[cursor] {
                        let d = snapshot_diff(&timeline[cursor], &s);
                        fail!(idx, format!("c02:redo:{}{lang}:{}", kinds[cursor - 1], first_class(&d)), format!("position {cursor}: recorded vs after redo: {}", diff_text(&d)));
                        out.tags.push("c02:aborted:after-mismatch".into());
                        break;
                    }
                } else {
                    out.tags.push("c02:redo:at-end".into());
                }
            }
        }
        let (u, r) = m.verif_history_len();
        let want_d = (cursor > 0, cursor < kinds.len(), cursor, kinds.len() - cursor);
        let got = (m.can_undo(), m.can_redo(), u, r);
        if got != want_d {
            let what = if got.2 != want_d.2 {
                "undo-depth"
            } else if got.3 != want_d.3 {
                "redo-depth"
            } else if got.0 != want_d.0 {
                "can-undo"
            } else {
                "can-redo"
            };
            fail!(idx, format!("c02:depths:{what}"), format!("after {}: (can_undo, can_redo, undo, redo) = {:?}, spec {:?}", cmd.encode(), got, want_d));
            out.tags.push("c02:aborted:depths".into());
            break;
        }
    }
    out
}

fn eval_c02(req: &str) -> ImplOut {
    let cmds = match cmds_of(req, 35, 0) {
        Ok(c) => c,
        Err(e) => return ImplOut::new(format!("bad-request: {e}")).trivial(),
    };
    let run = run_c02(&cmds, None);
    finish("c02", &cmds, run, &|c, sig| run_c02(c, Some(sig)).hit_at, 0)
}

fn gen_c02(ctx: &Ctx, sink: &mut dyn FnMut(String)) {
    emit_seeds(ctx, "c02", (1200, 25), (3000, 60), &[0, 5, 10], sink);
}

pub fn c02_oracle() -> Suite {
    Suite {
        name: "c02-oracle",
        rule: "random interleavings of ops / undo / redo (35 % undo-redo); spec = timeline of snapshots + cursor: after every undo/redo the snapshot equals the one first recorded at that cursor position, a recorded op truncates and appends, (can_undo, can_redo, depths) = (cursor>0, cursor<len, cursor, len-cursor); non-trivial = at least one undo or redo was compared",
        modelled: false,
        gen: gen_c02,
        eval: |r| timed(r, eval_c02),
        exhaustive: never,
    }
}

// ------------------------------------------------------------------------------------------
// C27
// ------------------------------------------------------------------------------------------

fn run_c27(cmds: &[Cmd], want: Option<&str>) -> Run {
    let mut out = Run { fails: vec![], tags: vec![], checked: 0, hit_at: None };
    let mut m = new_model();
    let mut ks = KindStacks::default();
    let mut violated: BTreeSet<String> = wf_check(&m).into_iter().map(|x| x.0).collect();
    let mut sigs_seen: BTreeSet<String> = BTreeSet::new();
    for (idx, cmd) in cmds.iter().enumerate() {
        let d0 = m.verif_history_len();
        let res: Result<(), String> = match cmd {
            Cmd::Op(o) => apply(&mut m, o),
            Cmd::Undo => catch(|| m.undo()),
            Cmd::Redo => catch(|| m.redo()),
            Cmd::Flush => {
                let _ = m.flush_send_queue();
                Ok(())
            }
        };
        let d1 = m.verif_history_len();
        let label = ks.step(cmd, d0, d1);
        out.tags.push(format!("c27:{label}:{}", if res.is_ok() { "ok" } else { "err" }));
        out.checked += 1;
        let now = wf_check(&m);
        let now_set: BTreeSet<String> = now.iter().map(|x| x.0.clone()).collect();
        for (clause, detail) in now {
            if violated.contains(&clause) {
                continue;
            }
            let sig = format!("{clause}:{label}");
            if want.map(|w| w == sig).unwrap_or(false) {
                out.hit_at = Some(idx);
                return out;
            }
            if sigs_seen.insert(sig.clone()) {
                out.fails.push((sig, format!("after command #{idx} {} ({}): {detail}", cmd.encode(), if res.is_ok() { "ok" } else { "err" })));
            }
        }
        violated = now_set;
    }
    out
}

fn eval_c27(req: &str) -> ImplOut {
    let cmds = match cmds_of(req, 30, 0) {
        Ok(c) => c,
        Err(e) => return ImplOut::new(format!("bad-request: {e}")).trivial(),
    };
    let run = run_c27(&cmds, None);
    finish("c27", &cmds, run, &|c, sig| run_c27(c, Some(sig)).hit_at, 0)
}

fn gen_c27(ctx: &Ctx, sink: &mut dyn FnMut(String)) {
    emit_seeds(ctx, "c27", (600, 30), (3000, 80), &[10, 20, 0], sink);
}

pub fn c27_oracle() -> Suite {
    Suite {
        name: "c27-oracle",
        rule: "random histories of ops (0/10/20 % invalid-argument ops) interleaved with undo / redo (30 %); the well-formedness predicate (sheet names and ids, cells in grid, style / string / formula indices in range, cols sorted and disjoint, rows unique, spill structure, defined-name scopes) is evaluated after every command; a clause is reported at the command after which it first becomes violated; non-trivial = every history (distinct)",
        modelled: false,
        gen: gen_c27,
        eval: |r| timed(r, eval_c27),
        exhaustive: never,
    }
}

// ------------------------------------------------------------------------------------------
// C03
// ------------------------------------------------------------------------------------------

fn new_replica(primary: &M) -> Result<M, String> {
    UserModel::from_bytes(&primary.to_bytes(), "en")
}

fn run_cmd_primary(m: &mut M, cmd: &Cmd, ks: &mut KindStacks, tags: &mut Vec<String>) -> String {
    let d0 = m.verif_history_len();
    let res: Result<(), String> = match cmd {
        Cmd::Op(o) => apply(m, o),
        Cmd::Undo => catch(|| m.undo()),
        Cmd::Redo => catch(|| m.redo()),
        Cmd::Flush => Ok(()),
    };
    let d1 = m.verif_history_len();
    let label = ks.step(cmd, d0, d1);
    if !matches!(cmd, Cmd::Flush) {
        tags.push(format!("c03:{label}:{}", if res.is_ok() { "ok" } else { "err" }));
    }
    label
}

enum Lock {
    ApplyErr(String, String),
    Diverged(String, &'static str, String),
    Converged,
}

/// The same history with a flush after every command, comparing after every command.
fn lockstep(cmds: &[Cmd]) -> Lock {
    let mut p = new_model();
    let mut r = match new_replica(&p) {
        Ok(r) => r,
        Err(e) => return Lock::ApplyErr("from_bytes".into(), e),
    };
    let mut ks = KindStacks::default();
    let mut tags = vec![];
    let mut lang = "";
    for cmd in cmds {
        if matches!(cmd, Cmd::Flush) {
            continue;
        }
        if matches!(cmd, Cmd::Op(Op::SetLanguage { lang: l }) if l != "en") {
            lang = "-lang";
        }
        let n_tags = tags.len();
        let label = run_cmd_primary(&mut p, cmd, &mut ks, &mut tags);
        // discriminating circumstances: the command itself returned Err on the primary (a failed call that
        // nevertheless changed the primary: C04 family) / a language switch happened earlier (F03c)
        let failed = tags.len() > n_tags && tags[tags.len() - 1].ends_with(":err");
        let label = format!("{label}{}{lang}", if failed { "-failed" } else { "" });
        let q = p.flush_send_queue();
        if let Err(e) = catch(|| r.apply_external_diffs(&q)) {
            return Lock::ApplyErr(label, e);
        }
        let (a, b) = (snap_en(&mut p, false), snapshot(&r, false));
        if a != b {
            let d = snapshot_diff(&a, &b);
            return Lock::Diverged(label, first_class(&d), diff_text(&d));
        }
    }
    Lock::Converged
}

fn run_c03(cmds: &[Cmd], want: Option<&str>) -> Run {
    let mut out = Run { fails: vec![], tags: vec![], checked: 0, hit_at: None };
    let mut p = new_model();
    let mut r = match new_replica(&p) {
        Ok(r) => r,
        Err(e) => {
            out.fails.push(("c03:from-bytes-err".into(), e));
            return out;
        }
    };
    let mut ks = KindStacks::default();
    let mut batches = 0;
    let mut with_final: Vec<Cmd> = cmds.to_vec();
    with_final.push(Cmd::Flush);
    for cmd in &with_final {
        if !matches!(cmd, Cmd::Flush) {
            run_cmd_primary(&mut p, cmd, &mut ks, &mut out.tags);
            continue;
        }
        let q = p.flush_send_queue();
        batches += 1;
        if let Err(e) = catch(|| r.apply_external_diffs(&q)) {
            let label = match lockstep(cmds) {
                Lock::ApplyErr(l, _) => l,
                _ => "batch-only".to_string(),
            };
            let sig = format!("c03:replica-apply-err:{label}");
            if want.map(|w| w == sig).unwrap_or(false) {
                out.hit_at = Some(cmds.len());
                return out;
            }
            out.fails.push((sig, format!("apply_external_diffs -> Err({e}) in batch {batches}")));
            return out;
        }
    }
    out.checked = 1;
    out.tags.push(format!("c03:batches:{}", batches.min(9)));
    let (a, b) = (snap_en(&mut p, false), snapshot(&r, false));
    if a != b {
        let d = snapshot_diff(&a, &b);
        let (label, class, text) = match lockstep(cmds) {
            Lock::Diverged(l, c, t) => (l, c, t),
            Lock::ApplyErr(l, e) => (format!("lockstep-apply-err-{l}"), first_class(&d), e),
            Lock::Converged => ("schedule-dependent".to_string(), first_class(&d), String::new()),
        };
        let sig = format!("c03:diverged:{label}:{class}");
        if want.map(|w| w == sig).unwrap_or(false) {
            out.hit_at = Some(cmds.len());
            return out;
        }
        out.fails.push((sig, format!("primary vs replica at the end: {} ;; first divergence in lock-step: {}", diff_text(&d), text)));
    }
    out
}

fn c03_cmds(req: &str) -> Result<Vec<Cmd>, String> {
    match parse_req(req) {
        Req::Seed { seed, len, bias } => {
            let mut rng = Rng::new(seed);
            let schedule = rng.below(3);
            let cmds = gen_history(&mut rng, len, bias, 25, if schedule == 1 { 20 } else { 0 });
            if schedule == 0 {
                let mut v = vec![];
                for c in cmds {
                    v.push(c);
                    v.push(Cmd::Flush);
                }
                Ok(v)
            } else {
                Ok(cmds)
            }
        }
        Req::Ops { cmds, .. } => Ok(cmds),
        Req::Bad(e) => Err(e),
    }
}

fn eval_c03(req: &str) -> ImplOut {
    let cmds = match c03_cmds(req) {
        Ok(c) => c,
        Err(e) => return ImplOut::new(format!("bad-request: {e}")).trivial(),
    };
    let run = run_c03(&cmds, None);
    let mut out = finish("c03", &cmds, run, &|c, sig| run_c03(c, Some(sig)).hit_at, 0);
    out.nontrivial = cmds.iter().any(|c| matches!(c, Cmd::Op(_)));
    out
}

fn gen_c03(ctx: &Ctx, sink: &mut dyn FnMut(String)) {
    emit_seeds(ctx, "c03", (900, 25), (3000, 60), &[5, 15, 0], sink);
}

pub fn c03_oracle() -> Suite {
    Suite {
        name: "c03-oracle",
        rule: "primary = fresh UserModel, replica = from_bytes(to_bytes(primary)); random histories of ops (0/5/15 % invalid ops, language switches) with undo / redo (25 %); flush schedule from the seed (every step / random / once at the end); every flushed batch is applied to the replica with apply_external_diffs; at the end the snapshots (without view state) must be equal; non-trivial = history with at least one op",
        modelled: false,
        gen: gen_c03,
        eval: |r| timed(r, eval_c03),
        exhaustive: never,
    }
}

// ------------------------------------------------------------------------------------------
// C04
// ------------------------------------------------------------------------------------------

fn run_c04(cmds: &[Cmd], class_in: Option<&str>, want: Option<&str>) -> Run {
    let mut out = Run { fails: vec![], tags: vec![], checked: 0, hit_at: None };
    let (op, prefix) = match cmds.split_last() {
        Some((Cmd::Op(op), prefix)) => (op, prefix),
        _ => {
            out.tags.push("c04:bad-request:last-command-is-not-an-op".into());
            return out;
        }
    };
    let mut m = new_model();
    for c in prefix {
        match c {
            Cmd::Op(o) => {
                let _ = apply(&mut m, o);
            }
            Cmd::Undo => {
                let _ = catch(|| m.undo());
            }
            Cmd::Redo => {
                let _ = catch(|| m.redo());
            }
            Cmd::Flush => {
                let _ = m.flush_send_queue();
            }
        }
    }
    let kind = op.kind();
    let class: String = match class_in {
        Some(c) => c.to_string(),
        None => classify_invalid(&m, op).to_string(),
    };
    let prep = match prepare(&mut m, op) {
        Ok(p) => p,
        Err(_) => {
            out.tags.push(format!("c04:{kind}:{class}:prepare-failed"));
            return out;
        }
    };
    let before = snap_en(&mut m, true);
    let (h0, q0) = (m.verif_history_len(), m.verif_queue_len());
    let res = call(&mut m, op, &prep);
    let e = match res {
        Ok(()) => {
            out.tags.push(format!("c04:{kind}:{class}:ok"));
            return out;
        }
        Err(e) => e,
    };
    out.checked = 1;
    out.tags.push(format!("c04:{kind}:{class}:err"));
    out.tags.push(format!("c04:class:{class}"));
    let after = snap_en(&mut m, true);
    let (h1, q1) = (m.verif_history_len(), m.verif_queue_len());
    let idx = cmds.len() - 1;
    let mut found: Vec<(String, String)> = vec![];
    if e.starts_with("PANIC") {
        found.push(("panic".into(), e.clone()));
    }
    if h1.0 > h0.0 {
        found.push(("undo-entry-added".into(), format!("undo depth {} -> {}, redo depth {} -> {}, queue {} -> {}", h0.0, h1.0, h0.1, h1.1, q0, q1)));
    } else if h1.0 < h0.0 {
        found.push(("undo-entry-lost".into(), format!("undo depth {} -> {}", h0.0, h1.0)));
    } else if h1.1 != h0.1 {
        found.push(("redo-cleared".into(), format!("redo depth {} -> {}", h0.1, h1.1)));
    } else if q1 != q0 {
        found.push(("queue-grew".into(), format!("queue length {} -> {}", q0, q1)));
    }
    if after != before {
        let d = snapshot_diff(&before, &after);
        if only_view(&d) {
            found.push(("view-changed".into(), diff_text(&d)));
        } else {
            let nv: Vec<String> = d.into_iter().filter(|x| diff_class(diff_path(x)) != "view").collect();
            found.push((format!("partial-edit:{}", first_class(&nv)), diff_text(&nv)));
        }
    }
    for (what, detail) in found {
        let sig = format!("c04:{kind}:{class}:{what}");
        if want.map(|w| w == sig).unwrap_or(false) {
            out.hit_at = Some(idx);
            return out;
        }
        out.fails.push((sig, format!("op {} -> Err({e}) ; {detail}", op.encode())));
    }
    out
}

fn c04_cmds(req: &str) -> Result<(Vec<Cmd>, Option<String>), String> {
    match parse_req(req) {
        Req::Seed { seed, len, bias: _ } => {
            let mut rng = Rng::new(seed);
            // prefix of valid ops, some undone so that the redo stack is not empty
            let mut cmds = gen_history(&mut rng, len, 0, 10, 0);
            for _ in 0..rng.below(4) {
                cmds.push(Cmd::Undo);
            }
            let mut m = new_model();
            for c in &cmds {
                match c {
                    Cmd::Op(o) => {
                        let _ = apply(&mut m, o);
                    }
                    Cmd::Undo => {
                        let _ = m.undo();
                    }
                    Cmd::Redo => {
                        let _ = m.redo();
                    }
                    Cmd::Flush => {}
                }
            }
            let e = gen_invalid(&mut rng, &m);
            cmds.extend(e.setup.into_iter().map(Cmd::Op));
            cmds.push(Cmd::Op(e.op));
            Ok((cmds, Some(e.class.to_string())))
        }
        Req::Ops { cmds, class } => Ok((cmds, class)),
        Req::Bad(e) => Err(e),
    }
}

fn eval_c04(req: &str) -> ImplOut {
    let (cmds, class) = match c04_cmds(req) {
        Ok(c) => c,
        Err(e) => return ImplOut::new(format!("bad-request: {e}")).trivial(),
    };
    let run = run_c04(&cmds, class.as_deref(), None);
    let cl = class.clone();
    let mut out = finish("c04", &cmds, run, &|c, sig| run_c04(c, cl.as_deref(), Some(sig)).hit_at, 1);
    if let Some(c) = class {
        for (_, d) in out.oracle.iter_mut() {
            if d.contains(";; replay: ") {
                d.push_str(&format!(" @{c}"));
            }
        }
    }
    out
}

fn fixture_full() -> Vec<Op> {
    let inp = |sheet: u32, row: i32, col: i32, v: &str| Op::SetUserInput { sheet, row, col, value: v.to_string() };
    vec![
        inp(0, 1, 1, "1"),
        inp(0, 2, 1, "2"),
        inp(0, 3, 1, "3"),
        inp(0, 7, 1, "=SUM(A1:A3)+A2"),
        inp(0, 7, 5, "=SEQUENCE(2,2)"),
        inp(0, 1, 6, "10%"),
        Op::UpdateRangeStyle { area: Ar::new(0, 1, 1, 1, 1), path: "font.b".into(), value: "true".into() },
        Op::NewSheet {},
        inp(1, 1, 1, "=Sheet1!A1*2"),
        Op::NewDefinedName { name: "total".into(), scope: None, formula: "Sheet1!$A$1:$A$3".into() },
        Op::NewDefinedName { name: "loc".into(), scope: Some(1), formula: "Sheet2!$A$1".into() },
        Op::CreateNamedStyle { name: "custom".into(), spec: StyleSpec { b: true, ..StyleSpec::plain() }, includes: 63 },
        Op::AddCf { sheet: 0, range: "A1:A3".into(), kind: 2, formula: "1".into(), color: "#FF0000".into() },
        Op::SetColumnsHidden { sheet: 1, start: 2, end: 2, hidden: true },
        Op::SetRowsHeight { sheet: 1, start: 3, end: 3, height: 40.0 },
        Op::SetCellLink { sheet: 0, row: 8, col: 6, external: true, target: "https://ironcalc.com".into(), tooltip: None, label: Some("site".into()) },
        Op::SetSelectedSheet { sheet: 0 },
        Op::SetSelectedCell { row: 2, col: 1 },
        inp(0, 8, 1, "9"),
    ]
}

fn gen_c04(ctx: &Ctx, sink: &mut dyn FnMut(String)) {
    // deterministic sweep: every (op kind x invalid class) pair of the table, from two fixed states
    let fixtures: Vec<Vec<Cmd>> = vec![
        {
            let mut v: Vec<Cmd> = fixture_full().into_iter().map(Cmd::Op).collect();
            v.push(Cmd::Undo);
            v
        },
        vec![
            Cmd::Op(Op::SetUserInput { sheet: 0, row: 1, col: 1, value: "1".into() }),
            Cmd::Op(Op::SetUserInput { sheet: 0, row: 2, col: 1, value: "2".into() }),
            Cmd::Undo,
        ],
    ];
    for fx in &fixtures {
        let mut m = new_model();
        for c in fx {
            match c {
                Cmd::Op(o) => {
                    let _ = apply(&mut m, o);
                }
                Cmd::Undo => {
                    let _ = m.undo();
                }
                _ => {}
            }
        }
        for e in invalid_table(&m) {
            let mut cmds = fx.clone();
            cmds.extend(e.setup.iter().cloned().map(Cmd::Op));
            cmds.push(Cmd::Op(e.op.clone()));
            sink(format!("c04 ops {} @{}", encode_cmds(&cmds), e.class));
        }
    }
    emit_seeds(ctx, "c04", (300, 20), (6000, 50), &[100], sink);
}

pub fn c04_oracle() -> Suite {
    Suite {
        name: "c04-oracle",
        rule: "table-driven sweep of every (op kind x invalid-argument class) pair from two fixed states, plus random reachable states (valid prefix, some commands undone) followed by one invalid-argument op; when the op returns Err: snapshot (incl. view), undo/redo depths and send-queue length must be unchanged; non-trivial = the op returned Err",
        modelled: false,
        gen: gen_c04,
        eval: |r| timed(r, eval_c04),
        exhaustive: never,
    }
}
