//! C32 — defined names are stable under edits.
//!  * `c32-ops`  : workbooks with global and sheet-local names (cell, range, LAMBDA) built in every
//!    language × locale next to an English twin; one sheet operation (rename / move / delete /
//!    duplicate), name operation (new / delete / rename / re-define) or `to_bytes`/`from_bytes` round
//!    trip; `Model` and `UserModel` level.  Driver tie: name/id vectors, every stored formula and every
//!    stored defined-name formula re-parsed by the real parser after the operation.  Oracle: stored
//!    names and values equal to the English twin's (language/locale independence); names survive
//!    operations on other sheets with the same meaning; renaming a name shows the new spelling in every
//!    user and changes no value; round trip changes nothing.
//!  * `c32-xlsx` : the same workbooks through xlsx export + import (oracle only).
use super::c17::{emit_with, gen_spec, observe, quote, ser_str, state_str, Book, CellObs, Op, Spec};
use ironcalc_base::expressions::parser::new_parser_english;
use ironcalc_base::expressions::types::CellReferenceRC;
use ironcalc_base::expressions::utils::is_valid_identifier;
use crate::prng::Rng;
use crate::proto::{hex, unhex};
use crate::run::{never, Ctx, ImplOut, Suite, Tier};
use ironcalc_base::{Model, UserModel};
use std::panic::{catch_unwind, AssertUnwindSafe};

const LANGS: &[&str] = &["en", "es", "fr", "de", "it"];
const LOCALES: &[&str] = &["en", "es", "fr", "de", "it"];

#[derive(Clone, Debug)]
enum NOp {
    Sheet(Op),
    New(String, Option<u32>, String),
    Del(String, Option<u32>),
    /// name, scope, new name, new scope, new formula (None = keep the stored one)
    Upd(String, Option<u32>, String, Option<u32>, Option<String>),
    Bytes,
}

fn sc(s: &Option<u32>) -> String {
    s.map(|x| x.to_string()).unwrap_or("~".into())
}
fn unsc(s: &str) -> Option<Option<u32>> {
    if s == "~" {
        Some(None)
    } else {
        s.parse().ok().map(Some)
    }
}

impl NOp {
    fn encode(&self) -> String {
        match self {
            NOp::Sheet(o) => o.encode(),
            NOp::New(n, s, f) => format!("newname:{}:{}:{}", hex(n), sc(s), hex(f)),
            NOp::Del(n, s) => format!("delname:{}:{}", hex(n), sc(s)),
            NOp::Upd(n, s, n2, s2, f) => format!(
                "updname:{}:{}:{}:{}:{}",
                hex(n),
                sc(s),
                hex(n2),
                sc(s2),
                f.as_ref().map(|x| hex(x)).unwrap_or("~".into())
            ),
            NOp::Bytes => "bytes".into(),
        }
    }
    fn decode(s: &str) -> Option<NOp> {
        let f: Vec<&str> = s.split(':').collect();
        Some(match f[0] {
            "newname" => NOp::New(unhex(f[1])?, unsc(f[2])?, unhex(f[3])?),
            "delname" => NOp::Del(unhex(f[1])?, unsc(f[2])?),
            "updname" => NOp::Upd(
                unhex(f[1])?,
                unsc(f[2])?,
                unhex(f[3])?,
                unsc(f[4])?,
                if f[5] == "~" { None } else { Some(unhex(f[5])?) },
            ),
            "bytes" => NOp::Bytes,
            _ => NOp::Sheet(Op::decode(s)?),
        })
    }
}

fn stored_formula(m: &Model, name: &str, scope: Option<u32>) -> Option<String> {
    let sid = match scope {
        Some(i) => Some(m.workbook.worksheets.get(i as usize)?.sheet_id),
        None => None,
    };
    m.workbook
        .defined_names
        .iter()
        .find(|d| d.name.to_uppercase() == name.to_uppercase() && d.sheet_id == sid)
        .map(|d| d.formula.clone())
}

fn apply(book: Book, op: &NOp) -> (Book, Result<(), String>) {
    let mut book = book;
    let r = match op {
        NOp::Sheet(o) => book.apply(o),
        NOp::New(n, s, f) => match &mut book {
            Book::M(m) => m.new_defined_name(n, *s, f),
            Book::U(u) => u.new_defined_name(n, *s, f),
        },
        NOp::Del(n, s) => match &mut book {
            Book::M(m) => m.delete_defined_name(n, *s),
            Book::U(u) => u.delete_defined_name(n, *s),
        },
        NOp::Upd(n, s, n2, s2, f) => {
            let formula = match f {
                Some(f) => Some(f.clone()),
                None => stored_formula(book.model(), n, *s),
            };
            match formula {
                None => Err("Defined name not found".into()),
                Some(formula) => match &mut book {
                    Book::M(m) => m.update_defined_name(n, *s, n2, *s2, &formula),
                    Book::U(u) => u.update_defined_name(n, *s, n2, *s2, &formula),
                },
            }
        }
        NOp::Bytes => {
            let lang: &'static str = Box::leak(book.model().get_language().into_boxed_str());
            match book {
                Book::M(m) => {
                    let bytes = m.to_bytes();
                    match Model::from_bytes(&bytes, lang) {
                        Ok(m2) => {
                            book = Book::M(m2);
                            Ok(())
                        }
                        Err(e) => {
                            book = Book::M(m);
                            Err(e)
                        }
                    }
                }
                Book::U(u) => {
                    let bytes = u.to_bytes();
                    match UserModel::from_bytes(&bytes, lang) {
                        Ok(u2) => {
                            book = Book::U(u2);
                            Ok(())
                        }
                        Err(e) => {
                            book = Book::U(u);
                            Err(e)
                        }
                    }
                }
            }
        }
    };
    book.evaluate();
    (book, r)
}

fn err_kind(e: &str) -> &'static str {
    if e.starts_with("Formula") {
        "badFormula"
    } else if e.contains("Invalid name for a sheet") {
        "invalidName"
    } else if e.contains("Sheet already exists") || e.contains("worksheet already exists") {
        "nameExists"
    } else if e.contains("Target") || e.contains("target") {
        "badTarget"
    } else if e.contains("only sheet") {
        "onlySheet"
    } else if e.contains("Invalid defined name") {
        "badIdent"
    } else if e.contains("Defined name already exists") {
        "dnExists"
    } else if e.contains("Defined name not found") || e.contains("Failed to get old name") {
        "dnNotFound"
    } else if e.contains("Scope") {
        "badScope"
    } else if e.contains("Formula") || e.contains("formula") {
        "badFormula"
    } else {
        "badIndex"
    }
}

/// value with error texts collapsed to their class (error spellings are localized)
fn val_class(v: &str) -> String {
    if v.contains("String(\"#") {
        "ERR".into()
    } else {
        v.to_string()
    }
}

fn stored_names(m: &Model) -> Vec<(String, Option<u32>, String)> {
    m.workbook.defined_names.iter().map(|d| (d.name.clone(), d.sheet_id, d.formula.clone())).collect()
}

fn eval_ops(req: &str) -> ImplOut {
    match catch_unwind(AssertUnwindSafe(|| eval_ops_inner(req))) {
        Ok(o) => o,
        Err(_) => ImplOut::new("panic".into()).fail("c32:panic", "the implementation panicked"),
    }
}

fn eval_ops_inner(req: &str) -> ImplOut {
    // c32 <op> <level> <spec> <sheets> <formulas> <names> <twin-op> <twin-spec> <op-formula-tree> <new-name-valid>
    let f: Vec<&str> = req.split(' ').collect();
    if f.len() != 11 {
        return ImplOut::new("bad-request".into());
    }
    let (op, spec, top, tspec) = match (NOp::decode(f[1]), Spec::decode(f[3]), NOp::decode(f[7]), Spec::decode(f[8])) {
        (Some(a), Some(b), Some(c), Some(d)) => (a, b, c, d),
        _ => return ImplOut::new("bad-request".into()),
    };
    let (model, twin) = match (spec.build(), tspec.build()) {
        (Ok(m), Ok(t)) => (m, t),
        (a, b) => {
            return ImplOut::new("build-failed".into())
                .trivial()
                .tag("build-failed")
                .tag(&format!("build-failed:{}:{}", a.is_ok(), b.is_ok()))
        }
    };
    if state_str(&model, false) != format!("{} {} {}", f[4], f[5], f[6]) {
        return ImplOut::new("pre-mismatch".into()).tag("pre-mismatch");
    }
    let opname = f[1].split(':').next().unwrap_or("?").to_string();
    let mut out = ImplOut::new(String::new());
    let tagl = format!("lang:{}:{}", spec.lang, spec.locale);
    // (a) before anything: the stored names and the values do not depend on language/locale
    if stored_names(&model) != stored_names(&twin) {
        out = out.fail(
            "c32:create:stored-depends-on-language",
            &format!("{} {}: {:?} vs en {:?}", spec.lang, spec.locale, stored_names(&model), stored_names(&twin)),
        );
    }
    let pre_obs = observe(&model);
    let tw_obs = observe(&twin);
    cmp_values(&mut out, "c32:create:value-depends-on-language", &pre_obs, &tw_obs);
    let pre_state = state_str(&model, true);
    let pre_names = stored_names(&model);
    let pre_ids: Vec<u32> = model.workbook.worksheets.iter().map(|w| w.sheet_id).collect();
    let pre_list = model.get_defined_name_list();
    let (book, res) = apply(if f[2] == "u" { Book::U(UserModel::from_model(model)) } else { Book::M(model) }, &op);
    let (tbook, tres) = apply(if f[2] == "u" { Book::U(UserModel::from_model(twin)) } else { Book::M(twin) }, &top);
    let m = book.model();
    let t = tbook.model();
    out = out.tag(&tagl);
    match &res {
        Err(e) => {
            out.ans = format!("err {}", err_kind(e));
            out = out.tag(&format!("{opname}:err:{}", err_kind(e)));
            if tres.is_ok() {
                out = out.fail(&format!("c32:{opname}:fails-only-in-language"), &format!("{} {}: {e}", spec.lang, spec.locale));
            }
            if state_str(m, true) != pre_state || observe(m) != pre_obs {
                out = out.fail("c32:failed-op-changed-state", &format!("{op:?}: {e}"));
            }
            return out;
        }
        Ok(()) => {
            out.ans = format!("ok {}", state_str(m, true));
            out = out.tag(&format!("{opname}:ok"));
            if let Err(e) = &tres {
                out = out.fail(&format!("c32:{opname}:succeeds-only-in-language"), &format!("en twin: {e}"));
                return out;
            }
        }
    }
    let post_obs = observe(m);
    let post_names = stored_names(m);
    let post_ids: Vec<u32> = m.workbook.worksheets.iter().map(|w| w.sheet_id).collect();
    // (a) after the operation
    if post_names != stored_names(t) {
        out = out.fail(
            &format!("c32:{opname}:stored-depends-on-language"),
            &format!("{} {}: {:?} vs en {:?}", spec.lang, spec.locale, post_names, stored_names(t)),
        );
    }
    cmp_values(&mut out, &format!("c32:{opname}:value-depends-on-language"), &post_obs, &observe(t));
    // (b)/(c)/(d) per operation
    let affected: Option<u32> = match &op {
        NOp::Sheet(Op::Rename(i, _)) | NOp::Sheet(Op::Delete(i)) => pre_ids.get(*i as usize).copied(),
        _ => None,
    };
    match &op {
        NOp::Bytes => {
            if post_names != pre_names {
                out = out.fail("c32:bytes:stored-changed", &format!("{pre_names:?} -> {post_names:?}"));
            }
            if state_str(m, true) != pre_state {
                out = out.fail("c32:bytes:state-changed", "");
            }
            if m.get_defined_name_list() != pre_list {
                out = out.fail("c32:bytes:list-changed", &format!("{pre_list:?} -> {:?}", m.get_defined_name_list()));
            }
            cmp_values(&mut out, "c32:bytes:value-changed", &post_obs, &pre_obs);
        }
        NOp::Sheet(Op::Move(..)) => {
            if post_names != pre_names {
                out = out.fail("c32:move:stored-changed", &format!("{pre_names:?} -> {post_names:?}"));
            }
            cmp_values(&mut out, "c32:move:value-changed", &post_obs, &pre_obs);
        }
        NOp::Sheet(Op::Rename(_, new)) => {
            let ghost_capture = pre_state.contains(&format!("|{}|!|", hex(new)));
            if ghost_capture {
                out = out.tag("ghost-capture");
            }
            // every name survives with its scope; names not mentioning the renamed sheet keep their text
            for (n, sid, fo) in &pre_names {
                match post_names.iter().find(|(n2, s2, _)| n2 == n && s2 == sid) {
                    None => out = out.fail("c32:rename:name-lost", &format!("{n} {sid:?}")),
                    Some((_, _, f2)) => {
                        let old_name = spec.sheets.get(pre_ids.iter().position(|x| Some(*x) == affected).unwrap_or(99)).cloned().unwrap_or_default().replace('\'', "''");
                        if !fo.contains(&old_name) && f2 != fo {
                            out = out.fail("c32:rename:unrelated-name-formula-changed", &format!("{n}: {fo} -> {f2}"));
                        }
                    }
                }
            }
            // a defined name whose formula spells an existing sheet in another case: the name machinery
            // (`parse_reference_formula`) finds the sheet ignoring case, the formula parser does not
            let case_variant = pre_names.iter().any(|(_, _, fo)| {
                let fu = fo.to_uppercase();
                spec.sheets.iter().any(|sh| {
                    let q = sh.replace('\'', "''");
                    fu.contains(&q.to_uppercase()) && !fo.contains(&q)
                })
            });
            if case_variant {
                out = out.tag("name-with-case-variant-prefix");
            }
            if !ghost_capture {
                let sig = if case_variant { "c32:rename:case-variant-prefix-in-name" } else { "c32:rename:value-changed" };
                cmp_values(&mut out, sig, &post_obs, &pre_obs);
            }
        }
        NOp::Sheet(Op::Delete(_)) => {
            let del = affected.unwrap_or(0);
            for (n, sid, fo) in &pre_names {
                if *sid == Some(del) {
                    continue;
                }
                match post_names.iter().find(|(n2, s2, _)| n2 == n && s2 == sid) {
                    None => out = out.fail("c32:delete:name-lost", &format!("{n} {sid:?}")),
                    Some((_, _, f2)) if f2 != fo => {
                        out = out.fail("c32:delete:other-name-formula-changed", &format!("{n}: {fo} -> {f2}"))
                    }
                    _ => {}
                }
            }
            // the names local to the deleted sheet go with it
            if let Some((n, _, _)) = post_names.iter().find(|(_, sid, _)| *sid == Some(del)) {
                out = out.fail("c32:delete:local-name-left-behind", &format!("{n} is still stored with sheet id {del}"));
            }
            // no name may change scope: a name of the deleted sheet must not show up as a global name
            let globals_before = pre_list.iter().filter(|(_, s, _)| s.is_none()).count();
            let globals_after = m.get_defined_name_list().iter().filter(|(_, s, _)| s.is_none()).count();
            if globals_after > globals_before {
                out = out.fail(
                    "c32:delete:scoped-name-reported-global",
                    &format!("{:?} -> {:?}", pre_list, m.get_defined_name_list()),
                );
            }
            // cells of other sheets whose formulas do not mention the deleted sheet keep their value
            // as it appears inside formulas (an apostrophe is doubled inside the quotes)
            let del_name = spec.sheets.get(pre_ids.iter().position(|x| *x == del).unwrap_or(99)).cloned().unwrap_or_default().replace('\'', "''");
            let del_up = del_name.to_uppercase();
            let names_on_deleted: Vec<String> = pre_names
                .iter()
                .filter(|(_, sid, fo)| *sid == Some(del) || fo.to_uppercase().contains(&del_up))
                .map(|(n, _, _)| n.to_uppercase())
                .collect();
            for po in pre_obs.iter().filter(|c| c.sheet_id != del) {
                // formula-less cells outside the generator's data block (rows 1-3) are spill cells of a
                // dynamic-array formula elsewhere; whether they are related is decided at their anchor
                if po.formula.is_none() && po.row > 3 {
                    continue;
                }
                let fo = po.formula.clone().unwrap_or_default();
                if fo.to_uppercase().contains(&del_up) || names_on_deleted.iter().any(|n| fo.to_uppercase().contains(n)) {
                    continue;
                }
                if let Some(q) = post_obs.iter().find(|q| q.sheet_id == po.sheet_id && q.row == po.row && q.col == po.col) {
                    if val_class(&q.value) != val_class(&po.value) {
                        out = out.fail("c32:delete:unrelated-value-changed", &format!("{po:?} -> {q:?}"));
                    }
                }
            }
        }
        NOp::Sheet(Op::Dup(_)) => {
            for nm in &pre_names {
                if !post_names.contains(nm) {
                    out = out.fail("c32:dup:existing-name-changed", &format!("{nm:?}"));
                }
            }
            let old: Vec<CellObs> = post_obs.iter().filter(|c| pre_ids.contains(&c.sheet_id)).cloned().collect();
            cmp_values(&mut out, "c32:dup:value-changed", &old, &pre_obs);
        }
        NOp::New(..) | NOp::Del(..) => {}
        NOp::Upd(n, s, n2, s2, fnew) => {
            // all four combinations (name and/or scope changed, or neither) and every scope pair
            let keep = fnew.is_none();
            let spelling_changes = n.to_uppercase() != n2.to_uppercase();
            let scope_changes = s != s2;
            out = out.tag(&format!(
                "update-name:{}{}:{}->{}",
                if spelling_changes { "name" } else { "" },
                if scope_changes { "+scope" } else { "" },
                if s.is_some() { "local" } else { "global" },
                if s2.is_some() { if s.is_some() && scope_changes { "other-local" } else { "local" } } else { "global" },
            ));
            let sid = s.and_then(|k| pre_ids.get(k as usize).copied());
            let sid2 = s2.and_then(|k| pre_ids.get(k as usize).copied());
            // the stored entry that is being updated (last match, as the code does)
            let is_target = |x: &str, xs: &Option<u32>| x.to_uppercase() == n.to_uppercase() && *xs == sid;
            // does an identifier spelled `n` on that sheet denote the updated definition (local first, then global)?
            let resolves_to_target = |sheet_id: u32| match sid {
                Some(id) => sheet_id == id,
                None => !pre_names.iter().any(|(x, xs, _)| x.to_uppercase() == n.to_uppercase() && *xs == Some(sheet_id)),
            };
            // after the update: is the definition (spelled n2, scope s2) what `n2` denotes on that sheet?
            let visible_after = |sheet_id: u32| match sid2 {
                Some(id2) => sheet_id == id2,
                None => !pre_names
                    .iter()
                    .any(|(x, xs, _)| x.to_uppercase() == n2.to_uppercase() && *xs == Some(sheet_id) && !is_target(x, xs)),
            };
            let decoy_old = pre_names.iter().filter(|(x, xs, _)| x.to_uppercase() == n.to_uppercase() && !is_target(x, xs)).count();
            let decoy_new = pre_names.iter().filter(|(x, xs, _)| x.to_uppercase() == n2.to_uppercase() && !is_target(x, xs)).count();
            if decoy_old > 0 {
                out = out.tag("update-name:decoy-with-old-spelling");
            }
            if spelling_changes && decoy_new > 0 {
                out = out.tag("update-name:decoy-with-new-spelling");
            }
            for po in &pre_obs {
                let pf = match &po.formula {
                    Some(f) => f,
                    None => continue, // data and spill cells
                };
                let qo = match post_obs.iter().find(|q| q.sheet_id == po.sheet_id && q.row == po.row && q.col == po.col) {
                    Some(q) => q,
                    None => {
                        out = out.fail("c32:update-name:cell-lost", &format!("{po:?}"));
                        continue;
                    }
                };
                let qf = qo.formula.clone().unwrap_or_default();
                let value_same = val_class(&po.value) == val_class(&qo.value);
                let what = format!("update ({n},{s:?}) -> ({n2},{s2:?}) keep-formula={keep}: sheet id {} R{}C{} {pf} = {} -> {qf} = {}", po.sheet_id, po.row, po.col, po.value, qo.value);
                if has_ident(pf, n) && resolves_to_target(po.sheet_id) {
                    // a user of the updated name
                    out = out.tag("update-name:user");
                    if spelling_changes {
                        if has_ident(&qf, n) {
                            out = out.fail("c32:update-name:user-not-renamed", &what);
                            continue;
                        } else if !has_ident(&qf, n2) {
                            out = out.fail("c32:update-name:user-lost-name", &what);
                            continue;
                        }
                    } else if qf.to_uppercase() != pf.to_uppercase() {
                        // (a change of case only re-spells the users)
                        out = out.fail("c32:update-name:user-formula-changed", &what);
                        continue;
                    }
                    if keep && !value_same {
                        if visible_after(po.sheet_id) {
                            // the same definition is still what the formula reads
                            let sig = if spelling_changes && has_ident(pf, n2) {
                                "c32:updname:capture-value-changed"
                            } else {
                                "c32:update-name:user-value-changed"
                            };
                            out = out.fail(sig, &what);
                        } else if !scope_changes {
                            // a pure rename must not change any value: the new spelling is shadowed on this sheet
                            out = out.fail("c32:updname:capture-value-changed", &what);
                        }
                    }
                } else {
                    // a formula using a decoy (same spelling, other definition) or not using the name at all
                    if &qf != pf {
                        let sig = if has_ident(pf, n) { "c32:update-name:decoy-renamed" } else { "c32:update-name:unrelated-formula-changed" };
                        out = out.fail(sig, &what);
                        continue;
                    }
                    if has_ident(pf, n2) {
                        // it spells the new name: the updated definition may legitimately (scope change) or by
                        // capture (finding F32d) become what it reads
                        let bound_before = pre_names.iter().any(|(x, xs, _)| {
                            x.to_uppercase() == n2.to_uppercase() && (xs.is_none() || *xs == Some(po.sheet_id))
                        });
                        if !bound_before {
                            // an identifier that named nothing (#NAME?) now names the renamed definition: not a defect
                            out = out.tag("update-name:free-identifier-bound");
                        } else if !value_same && !scope_changes && keep && spelling_changes {
                            out = out.fail("c32:updname:capture-value-changed", &what);
                        }
                    } else if !value_same {
                        out = out.fail("c32:update-name:unrelated-value-changed", &what);
                    }
                }
            }
        }
    }
    let _ = post_ids;
    out
}

/// does the displayed formula contain the identifier `name` as a whole word (case-insensitive)?
fn has_ident(formula: &str, name: &str) -> bool {
    let f = formula.to_uppercase();
    let n = name.to_uppercase();
    let bytes: Vec<char> = f.chars().collect();
    let pat: Vec<char> = n.chars().collect();
    if pat.is_empty() || bytes.len() < pat.len() {
        return false;
    }
    let word = |c: char| c.is_alphanumeric() || c == '_' || c == '.';
    for i in 0..=bytes.len() - pat.len() {
        if bytes[i..i + pat.len()] == pat[..] {
            let before = i == 0 || !word(bytes[i - 1]);
            let after = i + pat.len() == bytes.len() || !(word(bytes[i + pat.len()]) || bytes[i + pat.len()] == '(' || bytes[i + pat.len()] == '!');
            // `lam(` is a use of the name lam as well
            let call = i + pat.len() < bytes.len() && bytes[i + pat.len()] == '(';
            if before && (after || call) {
                return true;
            }
        }
    }
    false
}

fn cmp_values(out: &mut ImplOut, sig: &str, a: &[CellObs], b: &[CellObs]) {
    for x in a {
        if let Some(y) = b.iter().find(|y| y.sheet_id == x.sheet_id && y.row == x.row && y.col == x.col) {
            if val_class(&x.value) != val_class(&y.value) {
                out.oracle.push((sig.to_string(), format!("sheet id {} R{}C{} {:?}: {} vs {}", x.sheet_id, x.row, x.col, x.formula, x.value, y.value)));
                return;
            }
        }
    }
}

// ---------------------------------------------------------------------------------------------

fn gen_case(rng: &mut Rng, lang: &str, locale: &str) -> (Spec, Spec, NOp, NOp) {
    // the same random choices for the localized workbook and its English twin
    let mut r2 = rng.clone();
    let sp = gen_spec(rng, lang, locale);
    let tw = gen_spec(&mut r2, "en", "en");
    let ns = sp.sheets.len() as u64;
    let sep = if locale == "en" { "," } else { ";" };
    let i = rng.below(ns) as u32;
    let pick_name = |rng: &mut Rng| -> (String, Option<u32>) {
        if sp.names.is_empty() || rng.chance(1, 8) {
            ("nosuch".to_string(), None)
        } else {
            let d = &sp.names[rng.below(sp.names.len() as u64) as usize];
            (if rng.chance(1, 3) { d.0.to_uppercase() } else { d.0.clone() }, d.1)
        }
    };
    let fresh = ["fresh_1", "Total", "x", "rate", "néw", "A1", "lam", "Zed2"];
    let target = sp.sheets[rng.below(ns) as usize].clone();
    let k = rng.below(20);
    let (op, top) = match k {
        0..=3 => {
            let new = ["Renamed", "New Name", "Otra hoja", "données", "R2C2", "zz"][rng.below(6) as usize].to_string();
            let o = NOp::Sheet(Op::Rename(i, new));
            (o.clone(), o)
        }
        4 | 5 => {
            let o = NOp::Sheet(Op::Move(i, rng.below(ns) as u32));
            (o.clone(), o)
        }
        6..=8 => {
            let o = NOp::Sheet(Op::Delete(i));
            (o.clone(), o)
        }
        9 | 10 => {
            let o = NOp::Sheet(Op::Dup(i));
            (o.clone(), o)
        }
        11 | 12 => (NOp::Bytes, NOp::Bytes),
        13 | 14 => {
            let n = fresh[rng.below(fresh.len() as u64) as usize].to_string();
            let scope = if rng.chance(1, 2) { None } else { Some(rng.below(ns + 1) as u32) };
            match rng.below(3) {
                0 => {
                    let o = NOp::New(n, scope, format!("{}!$B$2", quote(&target)));
                    (o.clone(), o)
                }
                1 => {
                    let o = NOp::New(n, scope, format!("{}!$A$1:$A$3", quote(&target)));
                    (o.clone(), o)
                }
                _ => (
                    NOp::New(n.clone(), scope, format!("=LAMBDA(a{sep}b{sep}a*b+{}!$A$1)", quote(&target))),
                    NOp::New(n, scope, format!("=LAMBDA(a,b,a*b+{}!$A$1)", quote(&target))),
                ),
            }
        }
        15 => {
            let (n, s) = pick_name(rng);
            let o = NOp::Del(n, s);
            (o.clone(), o)
        }
        16..=18 => {
            // pure rename of a name
            let (n, s) = pick_name(rng);
            let n2 = fresh[rng.below(fresh.len() as u64) as usize].to_string();
            let o = NOp::Upd(n, s, n2, s, None);
            (o.clone(), o)
        }
        _ => {
            let (n, s) = pick_name(rng);
            let s2 = if rng.chance(1, 2) { s } else { Some(rng.below(ns) as u32) };
            let o = NOp::Upd(n.clone(), s, n, s2, Some(format!("{}!$B$1", quote(&target))));
            (o.clone(), o)
        }
    };
    (sp, tw, op, top)
}

/// A workbook built around ONE defined name that is then updated: name only / scope only / both / neither,
/// for every scope pair (global->local, local->global, local->other local, same), with decoys of the old and of
/// the new spelling in the source and target scopes, and users / decoy users on every sheet.
fn gen_update_case(rng: &mut Rng, lang: &str, locale: &str) -> (Spec, NOp) {
    let sep = if locale == "en" { "," } else { ";" };
    let sum = match lang {
        "es" => "SUMA",
        "fr" => "SOMME",
        "de" => "SUMME",
        "it" => "SOMMA",
        _ => "SUM",
    };
    let sheets: Vec<String> = vec!["Sheet1".into(), ["Other", "My Data", "données"][rng.below(3) as usize].to_string(), "Third".into()];
    let mut sp = Spec { lang: lang.into(), locale: locale.into(), sheets: sheets.clone(), cells: vec![], names: vec![] };
    for sh in 0..3u32 {
        for r in 1..=3 {
            for c in 1..=2 {
                sp.cells.push((sh, r, c, format!("{}", (sh as i64 + 1) * 100 + (r as i64) * 10 + c as i64)));
            }
        }
    }
    // names with non-ASCII cased letters too: the parser resolves names with full Unicode case folding, so a
    // user typed in another case (`=TAMAÑO*2`) is a user of `tamaño` (seeded change C32b)
    let old = ["ratio", "total", "Rate_1", "tamaño", "Élan_2"][rng.below(5) as usize].to_string();
    let new = ["factor", "néw", "Zed2"][rng.below(3) as usize].to_string();
    let scope: Option<u32> = if rng.chance(1, 2) { None } else { Some(rng.below(3) as u32) };
    // target scope: same, or any of the other three possibilities
    let scope2: Option<u32> = if rng.chance(1, 3) {
        scope
    } else {
        let all = [None, Some(0u32), Some(1), Some(2)];
        let others: Vec<Option<u32>> = all.iter().filter(|x| **x != scope).cloned().collect();
        others[rng.below(others.len() as u64) as usize]
    };
    let change_name = rng.chance(2, 3);
    let new_name = if change_name { new.clone() } else if rng.chance(1, 4) { old.to_uppercase() } else { old.clone() };
    let cell_of = |k: u32| format!("{}!${}${}", quote(&sheets[(k % 3) as usize]), ["A", "B"][(k / 3 % 2) as usize], 1 + k % 3);
    // the name itself, then decoys: the old spelling in the other scopes (incl. the target scope), the new
    // spelling in scopes other than the target one
    sp.names.push((old.clone(), scope, cell_of(0)));
    let all = [None, Some(0u32), Some(1), Some(2)];
    for (k, sc) in all.iter().enumerate() {
        if *sc != scope && rng.chance(2, 5) {
            sp.names.push((old.clone(), *sc, cell_of(1 + k as u32)));
        }
    }
    for (k, sc) in all.iter().enumerate() {
        if *sc != scope2 && change_name && rng.chance(1, 4) {
            sp.names.push((new.clone(), *sc, cell_of(5 + k as u32)));
        }
    }
    // users and decoy users on every sheet; the name inside a two-argument call and bare
    for sh in 0..3u32 {
        sp.cells.push((sh, 5, 1, format!("={sum}({old}{sep}1)+{old}")));
        sp.cells.push((sh, 6, 1, format!("={}*2", if rng.chance(1, 3) { old.to_uppercase() } else { old.clone() })));
        sp.cells.push((sh, 7, 1, format!("={}!A1+1", quote(&sheets[((sh + 1) % 3) as usize]))));
        if rng.chance(1, 3) {
            sp.cells.push((sh, 8, 1, format!("={new}+0")));
        }
    }
    let formula = if rng.chance(3, 4) { None } else { Some(cell_of(9)) };
    (sp, NOp::Upd(old, scope, new_name, scope2, formula))
}

fn gen_ops(ctx: &Ctx, sink: &mut dyn FnMut(String)) {
    let mut rng = Rng::new(ctx.seed ^ 0xC32);
    let n = if ctx.tier == Tier::Quick { 40 } else { 400 };
    // witnesses first: rename under `es` with a LAMBDA name stored with '=' (F10a), delete of a scoped name's sheet (F27a)
    for (lang, locale) in [("es", "es"), ("en", "en"), ("de", "de")] {
        let sep = if locale == "en" { "," } else { ";" };
        let sum = match lang { "es" => "SUMA", "de" => "SUMME", _ => "SUM" };
        let mk = |sum: &str, sep: &str, lang: &str, locale: &str| Spec {
            lang: lang.into(),
            locale: locale.into(),
            sheets: vec!["Sheet1".into(), "Other".into()],
            cells: vec![(1, 1, 1, "7".into()), (0, 1, 1, "=lam(1)".into()), (0, 2, 1, format!("={sum}(rng)")), (0, 3, 1, "=loc".into())],
            names: vec![
                ("lam".into(), None, format!("=LAMBDA(x{sep}{sum}(x{sep}Other!$A$1))")),
                ("rng".into(), None, "Other!$A$1:$B$2".into()),
                ("loc".into(), Some(1), "Other!$A$1".into()),
            ],
        };
        let sp = mk(sum, sep, lang, locale);
        let tw = mk("SUM", ",", "en", "en");
        for op in [NOp::Sheet(Op::Rename(1, "Otra".into())), NOp::Sheet(Op::Delete(1)), NOp::Bytes] {
            emit2(&sp, &tw, &op, &op, "m", sink);
            emit2(&sp, &tw, &op, &op, "u", sink);
        }
    }
    // updates of one name in all combinations (name / scope / both / neither) with decoys
    let n_upd = if ctx.tier == Tier::Quick { 120 } else { 3000 };
    for k in 0..n_upd {
        let lang = LANGS[k % LANGS.len()];
        let locale = LOCALES[(k / LANGS.len() + k) % LOCALES.len()];
        let mut r2 = rng.clone();
        let (sp, op) = gen_update_case(&mut rng, lang, locale);
        let (tw, top) = gen_update_case(&mut r2, "en", "en");
        emit2(&sp, &tw, &op, &top, if k % 2 == 0 { "m" } else { "u" }, sink);
    }
    // the seeded witness: Sheet2-local `ratio` becomes the global `factor` in one update
    {
        let w = Spec {
            lang: "en".into(),
            locale: "en".into(),
            sheets: vec!["Sheet1".into(), "Sheet2".into()],
            cells: vec![(1, 1, 1, "7".into()), (1, 1, 2, "=ratio*2".into()), (0, 1, 2, "=ratio+1".into())],
            names: vec![("ratio".into(), Some(1), "Sheet2!$A$1".into()), ("ratio".into(), None, "Sheet1!$C$1".into())],
        };
        let op = NOp::Upd("ratio".into(), Some(1), "factor".into(), None, None);
        emit2(&w, &w, &op, &op, "m", sink);
        emit2(&w, &w, &op, &op, "u", sink);
    }
    for _ in 0..n {
        for lang in LANGS {
            for locale in LOCALES {
                if ctx.tier == Tier::Quick && lang != locale && !rng.chance(1, 4) {
                    continue;
                }
                let (sp, tw, op, top) = gen_case(&mut rng, lang, locale);
                let level = if rng.chance(1, 2) { "m" } else { "u" };
                emit2(&sp, &tw, &op, &top, level, sink);
            }
        }
    }
}

fn emit2(sp: &Spec, tw: &Spec, op: &NOp, top: &NOp, level: &str, sink: &mut dyn FnMut(String)) {
    // the formula of a name operation as the tree the (English) parser makes of it, and whether the new
    // spelling is an identifier at all (`is_valid_identifier`, C22's subject) — inputs of the model
    let (tree, valid) = match top {
        NOp::New(n, _, f) => (Some(f.clone()), is_valid_identifier(n)),
        NOp::Upd(_, _, n2, _, f) => (f.clone(), is_valid_identifier(n2)),
        _ => (None, true),
    };
    let tree = match tree {
        None => "-".to_string(),
        Some(f) => {
            let mut p = new_parser_english(tw.sheets.clone(), vec![], std::collections::HashMap::new());
            let ctx = CellReferenceRC { sheet: tw.sheets[0].clone(), row: 1, column: 1 };
            ser_str(&p.parse(f.strip_prefix('=').unwrap_or(&f), &ctx), false)
        }
    };
    emit_with(
        sp,
        "c32",
        &op.encode(),
        level,
        &format!(" {} {} {} v{}", top.encode(), tw.encode(), tree, valid as u8),
        sink,
    );
}

// ---------------------------------------------------------------------------------------------
// xlsx round trip (oracle only)

fn eval_xlsx(req: &str) -> ImplOut {
    match catch_unwind(AssertUnwindSafe(|| eval_xlsx_inner(req))) {
        Ok(o) => o,
        Err(_) => ImplOut::new("panic".into()).fail("c32:xlsx:panic", "export/import panicked"),
    }
}

fn eval_xlsx_inner(req: &str) -> ImplOut {
    // c32x <spec>
    let f: Vec<&str> = req.split(' ').collect();
    let spec = match f.get(1).and_then(|s| Spec::decode(s)) {
        Some(s) => s,
        None => return ImplOut::new("bad-request".into()),
    };
    let m = match spec.build() {
        Ok(m) => m,
        Err(_) => return ImplOut::new("build-failed".into()).trivial().tag("build-failed"),
    };
    let mut out = ImplOut::new("xlsx".into()).tag(&format!("lang:{}:{}", spec.lang, spec.locale));
    let buf = std::io::Cursor::new(Vec::<u8>::new());
    let bytes = match ironcalc::export::save_xlsx_to_writer(&m, buf) {
        Ok(w) => w.into_inner(),
        Err(e) => return out.fail("c32:xlsx:export-failed", &format!("{e}")),
    };
    let lang: &'static str = Box::leak(spec.lang.clone().into_boxed_str());
    let wb = match ironcalc::import::load_from_xlsx_bytes(&bytes, "book", &spec.locale, "UTC") {
        Ok(w) => w,
        Err(e) => return out.fail("c32:xlsx:import-failed", &format!("{e}")),
    };
    let mut m2 = match Model::from_workbook(wb, lang) {
        Ok(m) => m,
        Err(e) => return out.fail("c32:xlsx:from-workbook-failed", &e),
    };
    m2.evaluate();
    // names by (name, scope index), values by (sheet index, cell)
    let key = |m: &Model| {
        let mut v: Vec<(String, Option<u32>)> = m.get_defined_name_list().into_iter().map(|(n, s, _)| (n, s)).collect();
        v.sort();
        v
    };
    if key(&m) != key(&m2) {
        out = out.fail("c32:xlsx:names-changed", &format!("{:?} -> {:?}", key(&m), key(&m2)));
    }
    let idx = |m: &Model, o: &CellObs| m.workbook.worksheets.iter().position(|w| w.sheet_id == o.sheet_id).unwrap_or(0);
    let a = observe(&m);
    let b = observe(&m2);
    let name_list: Vec<String> = m.get_defined_name_list().into_iter().map(|(n, _, _)| n).collect();
    for x in &a {
        // C32 is about names: only formulas that use a defined name are compared here; the general
        // formula round trip (e.g. an explicit `@` dropped by the exporter) is C24's subject
        let fx = match &x.formula {
            Some(f) => f.clone(),
            None => continue,
        };
        if !name_list.iter().any(|n| has_ident(&fx, n)) {
            continue;
        }
        if fx.contains('@') || fx.contains('#') {
            out = out.tag("xlsx:skipped-@-or-#");
            continue;
        }
        let xi = idx(&m, x);
        match b.iter().find(|y| idx(&m2, y) == xi && y.row == x.row && y.col == x.col) {
            Some(y) if val_class(&y.value) == val_class(&x.value) => {}
            other => {
                out = out.fail(
                    "c32:xlsx:value-changed",
                    &format!("{x:?} -> {other:?}; names {:?} -> {:?}", m.get_defined_name_list(), m2.get_defined_name_list()),
                );
                break;
            }
        }
    }
    out
}

fn gen_xlsx(ctx: &Ctx, sink: &mut dyn FnMut(String)) {
    let mut rng = Rng::new(ctx.seed ^ 0xC32F);
    let n = if ctx.tier == Tier::Quick { 2 } else { 40 };
    for _ in 0..n {
        for lang in LANGS {
            for locale in ["en", "de"] {
                let sp = gen_spec(&mut rng, lang, locale);
                if sp.build().is_ok() {
                    sink(format!("c32x {}", sp.encode()));
                }
            }
        }
    }
}

pub fn suites() -> Vec<Suite> {
    vec![
        Suite {
            name: "c32-ops",
            rule: "the C17 workbook generator (2-5 sheets, cross-sheet / nonexistent-sheet references, 0-4 global or sheet-local names: cell, range, LAMBDA) instantiated in every language x locale of {en,es,fr,de,it} next to an English twin built from the same random choices; one operation per case: sheet rename / move / delete / duplicate, new / delete / rename / re-define a name (existing, missing, other-case spellings; fresh and non-fresh new names; valid and invalid scopes), to_bytes/from_bytes; Model and UserModel level; witnesses of F10a and F27a first; non-trivial = both workbooks were built; distinct by request",
            modelled: true,
            gen: gen_ops,
            eval: eval_ops,
            exhaustive: never,
        },
        Suite {
            name: "c32-xlsx",
            rule: "the same workbooks in 5 languages x {en,de} locales through save_xlsx_to_writer + load_from_xlsx_bytes + Model::from_workbook: defined names (name, scope index) and formula values preserved; oracle only",
            modelled: false,
            gen: gen_xlsx,
            eval: eval_xlsx,
            exhaustive: never,
        },
    ]
}
