use crate::run::Suite;
use std::path::Path;

pub mod c06;
pub mod c08;
pub mod c21;

pub fn for_property(p: &str) -> Vec<Suite> {
    match p {
        "C06" => c06::suites(),
        "C08" => c08::suites(),
        "C21" => c21::suites(),
        _ => vec![],
    }
}

/// Regenerate `Generated/*.lean` from the running implementation (only rewritten when changed).
pub fn extract_all(_dir: &Path) {}

#[allow(dead_code)]
pub fn write_if_changed(path: &Path, content: &str) {
    if let Ok(old) = std::fs::read_to_string(path) {
        if old == content {
            return;
        }
    }
    std::fs::write(path, content).expect("write generated file");
}
