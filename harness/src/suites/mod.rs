use crate::run::Suite;
use std::path::Path;

pub mod c21;
pub mod um;
pub mod um_model;
pub mod um_oracle;

pub fn for_property(p: &str) -> Vec<Suite> {
    match p {
        "C21" => c21::suites(),
        "C01" => vec![um_model::c01_model(), um_oracle::c01_oracle()],
        "C02" => vec![um_model::c02_model(), um_oracle::c02_oracle()],
        "C03" => vec![um_model::c03_model(), um_oracle::c03_oracle()],
        "C04" => vec![um_model::c04_model(), um_oracle::c04_oracle()],
        "C27" => vec![um_model::c27_model(), um_oracle::c27_oracle()],
        _ => vec![],
    }
}

/// Regenerate `Generated/*.lean` from the running implementation (only rewritten when changed).
pub fn extract_all(_dir: &Path) {}

#[allow(dead_code)]
pub fn write_if_changed(path: &Path, content: &str) {
    if let Ok(old) = std::fs::read_to_string(path) {
        if old == content {
            return;
        }
    }
    std::fs::write(path, content).expect("write generated file");
}
