use crate::run::Suite;
use std::path::Path;

pub mod c21;
pub mod c29;
pub mod c30;

pub fn for_property(p: &str) -> Vec<Suite> {
    match p {
        "C21" => c21::suites(),
        "C29" => c29::suites(),
        "C30" => c30::suites(),
        _ => vec![],
    }
}

/// Regenerate `Generated/*.lean` from the running implementation (only rewritten when changed).
pub fn extract_all(dir: &Path) {
    c30::extract(dir);
}

#[allow(dead_code)]
pub fn write_if_changed(path: &Path, content: &str) {
    if let Ok(old) = std::fs::read_to_string(path) {
        if old == content {
            return;
        }
    }
    std::fs::write(path, content).expect("write generated file");
}
