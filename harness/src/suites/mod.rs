use crate::run::Suite;
use std::path::Path;

pub mod c21;
pub mod um;
pub mod um_model;
pub mod um_oracle;
pub mod um_suites;

pub fn for_property(p: &str) -> Vec<Suite> {
    match p {
        "C21" => c21::suites(),
        "C01" => um_suites::c01(),
        "C02" => um_suites::c02(),
        "C03" => um_suites::c03(),
        "C04" => um_suites::c04(),
        "C27" => um_suites::c27(),
        _ => vec![],
    }
}

/// Regenerate `Generated/*.lean` from the running implementation (only rewritten when changed).
pub fn extract_all(_dir: &Path) {}

#[allow(dead_code)]
pub fn write_if_changed(path: &Path, content: &str) {
    if let Ok(old) = std::fs::read_to_string(path) {
        if old == content {
            return;
        }
    }
    std::fs::write(path, content).expect("write generated file");
}
