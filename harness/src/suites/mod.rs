use crate::run::Suite;
use std::path::Path;

pub mod c09;
pub mod c09lex;
pub mod c10;
pub mod c12;
pub mod c33;
pub mod c16;
pub mod c18;
pub mod c19;
pub mod c11;
pub mod c20;
pub mod c06;
pub mod c08;
pub mod c21;
pub mod c26;
pub mod c22;
pub mod c34;
pub mod c27desc;
pub mod c29;
pub mod c30;
pub mod c05;
pub mod c07;
pub mod c31;
pub mod c17;
pub mod c32;
pub mod um;
pub mod um_model;
pub mod um_oracle;
pub mod um_suites;
pub mod c23;
pub mod c28;
pub mod bookgen;
pub mod c24;
pub mod c24cell;
pub mod c25;
pub mod xmltree;

pub fn for_property(p: &str) -> Vec<Suite> {
    match p {
        "C09" => c09::suites().into_iter().chain(c09lex::suites()).chain(c09lex::stored_suites().into_iter().filter(|s| s.modelled)).collect(),
        "C10" => c10::suites(),
        "C16" => c16::suites(),
        "C18" => c18::suites(),
        "C19" => c19::suites(),
        "C11" => c11::suites(),
        "C20" => c20::suites(),
        "C06" => c06::suites(),
        "C08" => c08::suites(),
        "C21" => c21::suites(),
        "C26" => c26::suites().into_iter().chain(c09lex::stored_suites()).collect(),
        "C12" => c12::suites_c12(),
        "C13" => c12::suites_c13(),
        "C14" => c12::suites_c14(),
        "C15" => c12::suites_c15(),
        "C33" => c33::suites(),
        "C22" => c22::suites(),
        "C34" => c34::suites(),
        "C29" => c29::suites(),
        "C30" => c30::suites(),
        "C05" => c05::suites(),
        "C07" => c07::suites(),
        "C31" => c31::suites(),
        "C17" => c17::suites(),
        "C32" => c32::suites(),
        "C01" => um_suites::c01(),
        "C02" => um_suites::c02(),
        "C03" => um_suites::c03(),
        "C04" => um_suites::c04(),
        "C27" => um_suites::c27(),
        "C23" => c23::suites(),
        "C28" => c28::suites(),
        "C24" => c24::suites(),
        "C25" => c25::suites(),
        _ => vec![],
    }
}

/// Regenerate `Generated/*.lean` from the running implementation (only rewritten when changed).
pub fn extract_all(dir: &Path) {
    c09::extract(dir);
    c09lex::extract(dir);
    c16::extract(dir);
    c22::extract(dir);
    c30::extract(dir);
    c18::extract(dir);
    c19::extract(dir);
    c23::extract(dir);
    c20::extract(dir);
}

#[allow(dead_code)]
pub fn write_if_changed(path: &Path, content: &str) {
    if let Ok(old) = std::fs::read_to_string(path) {
        if old == content {
            return;
        }
    }
    std::fs::write(path, content).expect("write generated file");
}
