//! C21 — date serial numbers ↔ calendar dates.
//!  * `c21-pure`  : `from_excel_date` / `date_to_serial_number` / the `yyyy-mm-dd` number format,
//!                  exhaustive over every serial 0 ..= 2 958 466 (both tiers) + all (y,m,d) candidates
//!                  of a spread of years;
//!  * `c21-engine`: YEAR/MONTH/DAY/WEEKDAY/DATE and typed ISO dates through a real `Model`
//!                  (sampled in quick, every serial in thorough).
use crate::run::{always, Ctx, ImplOut, Suite, Tier};
use chrono::Datelike;
use ironcalc_base::cell::CellValue;
use ironcalc_base::formatter::dates::{date_to_serial_number, from_excel_date};
use ironcalc_base::formatter::format::format_number;
use ironcalc_base::locale::get_locale;
use ironcalc_base::Model;
use std::cell::RefCell;

const MAX: i64 = 2_958_465;

fn gen_pure(_ctx: &Ctx, sink: &mut dyn FnMut(String)) {
    for s in [-5i64, -1] {
        sink(format!("c21 from {s}"));
    }
    for s in 0..=MAX + 1 {
        sink(format!("c21 from {s}"));
    }
    // every candidate (y, m, d) incl. invalid days, for a spread of years (leap rules: /4, /100, /400)
    for y in [1u32, 4, 100, 400, 1582, 1899, 1900, 1904, 1999, 2000, 2023, 2024, 2100, 2400, 9999] {
        for m in 0..=13 {
            for d in 0..=32 {
                sink(format!("c21 to {y} {m} {d}"));
            }
        }
    }
}

fn eval_pure(req: &str) -> ImplOut {
    let f: Vec<&str> = req.split(' ').collect();
    let locale = get_locale("en").unwrap();
    match f[1] {
        "from" => {
            let s: i64 = f[2].parse().unwrap();
            match from_excel_date(s) {
                Ok(d) => {
                    let iso = format_number(s as f64, "yyyy-mm-dd", locale).text;
                    let ans = format!(
                        "{} {} {} {} {}",
                        d.year(),
                        d.month(),
                        d.day(),
                        d.weekday().num_days_from_monday(),
                        iso
                    );
                    let mut out = ImplOut::new(ans).tag("from:ok");
                    // oracle: serial → date → serial is the identity, and the format agrees
                    match date_to_serial_number(d.day(), d.month(), d.year()) {
                        Ok(back) if back as i64 == s => {}
                        other => {
                            out = out.fail("c21:roundtrip", &format!("serial {s} -> {d} -> {other:?}"))
                        }
                    }
                    let want = format!("{:04}-{:02}-{:02}", d.year(), d.month(), d.day());
                    if iso != want {
                        out = out.fail("c21:format-disagrees", &format!("serial {s}: {iso} vs {want}"));
                    }
                    out
                }
                Err(_) => ImplOut::new("err".into()).tag("from:err"),
            }
        }
        "to" => {
            let y: i32 = f[2].parse().unwrap();
            let m: u32 = f[3].parse().unwrap();
            let d: u32 = f[4].parse().unwrap();
            match date_to_serial_number(d, m, y) {
                Ok(s) => {
                    let mut out = ImplOut::new(format!("{s}")).tag("to:ok");
                    if (1..=MAX).contains(&(s as i64)) {
                        match from_excel_date(s as i64) {
                            Ok(dt) if dt.year() == y && dt.month() == m && dt.day() == d => {}
                            other => {
                                out = out.fail("c21:roundtrip", &format!("{y}-{m}-{d} -> {s} -> {other:?}"))
                            }
                        }
                    }
                    out
                }
                Err(_) => ImplOut::new("err".into()).tag("to:err").trivial(),
            }
        }
        "fmt" => eval_fmt(f[2].parse().unwrap()),
        _ => ImplOut::new("bad-request".into()),
    }
}

/// every date token of the number-format language, one rendering per token plus composite layouts
const FMT_TOKENS: [&str; 11] = ["d", "dd", "ddd", "dddd", "m", "mm", "mmm", "mmmm", "mmmmm", "yy", "yyyy"];
const FMT_LAYOUTS: [&str; 5] = ["dd/mm/yyyy", "d/m/yy", "mm-dd-yy", "d-mmm-yyyy", "dddd, mmmm d, yyyy"];

fn gen_fmt(ctx: &Ctx, sink: &mut dyn FnMut(String)) {
    for s in [0i64, MAX + 1] {
        sink(format!("c21 fmt {s}"));
    }
    if ctx.tier == Tier::Thorough {
        for s in 1..=MAX {
            sink(format!("c21 fmt {s}"));
        }
        return;
    }
    // quick: every day of 1899..=1910, 1999..=2010, 9990..=9999 (all two-digit-year classes incl. 00..09,
    // all months, all weekdays), then a seed-shifted stride of 11 over the whole range
    let mut seen = std::collections::BTreeSet::new();
    for s in 1..=4_020 {
        seen.insert(s as i64);
    }
    for s in 36_161..=40_543 {
        seen.insert(s as i64);
    }
    for s in MAX - 3_660..=MAX {
        seen.insert(s);
    }
    let mut s = (ctx.seed % 11) as i64 + 1;
    while s <= MAX {
        seen.insert(s);
        s += 11;
    }
    for s in seen {
        sink(format!("c21 fmt {s}"));
    }
}

fn eval_fmt(s: i64) -> ImplOut {
    let locale = get_locale("en").unwrap();
    let mut parts: Vec<String> = vec![];
    for f in FMT_TOKENS.iter().chain(FMT_LAYOUTS.iter()) {
        let r = format_number(s as f64, f, locale);
        parts.push(if r.error.is_some() { format!("E:{}", r.text) } else { r.text });
    }
    let mut out = ImplOut::new(parts.join("|"));
    // oracle: every rendering agrees with the calendar date of the serial (from_excel_date)
    match from_excel_date(s) {
        Ok(d) => {
            out = out.tag("fmt:in-range");
            let (y, m, dd) = (d.year(), d.month(), d.day());
            let want = [
                format!("{dd}"),
                format!("{dd:02}"),
                String::new(),
                String::new(),
                format!("{m}"),
                format!("{m:02}"),
                String::new(),
                String::new(),
                String::new(),
                format!("{:02}", y % 100),
                format!("{y}"),
                format!("{dd:02}/{m:02}/{y}"),
                format!("{dd}/{m}/{:02}", y % 100),
                format!("{m:02}-{dd:02}-{:02}", y % 100),
            ];
            for (i, w) in want.iter().enumerate() {
                if !w.is_empty() && &parts[i] != w {
                    let f = FMT_TOKENS.iter().chain(FMT_LAYOUTS.iter()).nth(i).unwrap();
                    out = out.fail(
                        "c21:format-disagrees",
                        &format!("serial {s} ({y}-{m}-{dd}) with format {f}: {} vs {w}", parts[i]),
                    );
                }
            }
        }
        Err(_) => out = out.tag("fmt:out-of-range"),
    }
    out
}

thread_local! {
    static MODEL: RefCell<Model<'static>> = RefCell::new(Model::new_empty("c21", "en", "UTC", "en").unwrap());
}

fn gen_engine(ctx: &Ctx, sink: &mut dyn FnMut(String)) {
    if ctx.tier == Tier::Thorough {
        for s in 0..=MAX + 1 {
            sink(format!("c21 engine {s}"));
        }
        return;
    }
    let mut seen = std::collections::BTreeSet::new();
    for s in [0i64, 1, 2, 58, 59, 60, 61, 62, 365, 366, 367, MAX - 1, MAX, MAX + 1] {
        seen.insert(s);
    }
    // every 1st of month, every end of February / start of March, and a stride
    for s in 1..=MAX {
        if let Ok(d) = from_excel_date(s) {
            if (d.day() == 1 && d.month() % 3 == 1 && d.year() % 7 == 0)
                || (d.month() == 2 && d.day() >= 28 && d.year() % 4 == 0)
                || (d.month() == 3 && d.day() == 1 && d.year() % 100 == 0)
                || (d.month() == 12 && d.day() == 31 && d.year() % 50 == 0)
            {
                seen.insert(s);
            }
        }
    }
    let mut s = (ctx.seed % 977) as i64 + 1;
    while s <= MAX {
        seen.insert(s);
        s += 977;
    }
    for s in seen {
        sink(format!("c21 engine {s}"));
    }
}

fn num(v: Result<CellValue, String>) -> String {
    match v {
        Ok(CellValue::Number(f)) => {
            if f == f.trunc() && f.abs() < 1e15 {
                format!("{}", f as i64)
            } else {
                format!("{f}")
            }
        }
        Ok(CellValue::String(s)) => format!("'{s}"),
        Ok(CellValue::Boolean(b)) => format!("{b}"),
        Ok(CellValue::None) => "none".into(),
        Err(e) => format!("ERR:{e}"),
    }
}

fn eval_engine(req: &str) -> ImplOut {
    let f: Vec<&str> = req.split(' ').collect();
    let s: i64 = f[2].parse().unwrap();
    MODEL.with(|m| {
        let mut m = m.borrow_mut();
        m.set_user_input(0, 1, 1, format!("{s}")).unwrap();
        m.set_user_input(0, 1, 2, "=YEAR(A1)".into()).unwrap();
        m.set_user_input(0, 1, 3, "=MONTH(A1)".into()).unwrap();
        m.set_user_input(0, 1, 4, "=DAY(A1)".into()).unwrap();
        m.set_user_input(0, 1, 5, "=WEEKDAY(A1)".into()).unwrap();
        m.set_user_input(0, 1, 6, "=DATE(B1,C1,D1)".into()).unwrap();
        m.evaluate();
        let y = num(m.get_cell_value_by_index(0, 1, 2));
        let mo = num(m.get_cell_value_by_index(0, 1, 3));
        let d = num(m.get_cell_value_by_index(0, 1, 4));
        let wd = num(m.get_cell_value_by_index(0, 1, 5));
        let back = num(m.get_cell_value_by_index(0, 1, 6));
        // typed ISO date
        let mut typed = "-".to_string();
        let mut out_fail: Vec<(String, String)> = vec![];
        if let (Ok(yy), Ok(mm), Ok(dd)) = (y.parse::<i64>(), mo.parse::<i64>(), d.parse::<i64>()) {
            let text = format!("{yy:04}-{mm:02}-{dd:02}");
            m.set_user_input(0, 2, 1, text.clone()).unwrap();
            m.evaluate();
            typed = num(m.get_cell_value_by_index(0, 2, 1));
            let shown = m.get_formatted_cell_value(0, 2, 1).unwrap_or_default();
            if typed != format!("{s}") {
                out_fail.push(("c21:typed-iso".into(), format!("typed {text} stored as {typed}, serial {s}")));
            } else if shown != text {
                out_fail.push(("c21:typed-iso-format".into(), format!("typed {text} shown as {shown}")));
            }
            m.set_user_input(0, 2, 1, String::new()).unwrap();
            if back != format!("{s}") {
                out_fail.push(("c21:date-fn".into(), format!("DATE({yy},{mm},{dd}) = {back}, serial {s}")));
            }
        }
        let mut out = ImplOut::new(format!("{y} {mo} {d} {wd} {back} {typed}"));
        out.oracle = out_fail;
        if !(1..=MAX).contains(&s) {
            out = out.tag("engine:out-of-range");
        } else {
            out = out.tag("engine:in-range");
        }
        out
    })
}

fn thorough_only(t: Tier) -> bool {
    t == Tier::Thorough
}

pub fn suites() -> Vec<Suite> {
    vec![
        Suite {
            name: "c21-pure",
            rule: "every serial -5,-1,0..=2958466 through from_excel_date + format_number(yyyy-mm-dd), and every (y,m,d) with m in 0..=13, d in 0..=32 for 15 years through date_to_serial_number; non-trivial = the call succeeded (a date was produced); distinct by request",
            modelled: true,
            gen: gen_pure,
            eval: eval_pure,
            exhaustive: always,
        },
        Suite {
            name: "c21-fmt",
            rule: "format_number(serial, f) for each date token f in d dd ddd dddd m mm mmm mmmm mmmmm yy yyyy and 5 composite layouts (en locale), compared with the Lean layout model and with the calendar date of the serial; quick: every day of 1899-1910, 1999-2010, 9990-9999 and a seed-shifted stride of 11; thorough: every serial 0..=2958466; non-trivial = serial in range (distinct serials)",
            modelled: true,
            gen: gen_fmt,
            eval: eval_pure,
            exhaustive: thorough_only,
        },
        Suite {
            name: "c21-engine",
            rule: "YEAR/MONTH/DAY/WEEKDAY/DATE evaluated by a real Model and the ISO text typed into a cell; quick: boundaries, month starts, Feb/Mar transitions, year ends and a seed-shifted stride of 977; thorough: every serial; non-trivial = every case (distinct serials)",
            modelled: true,
            gen: gen_engine,
            eval: eval_engine,
            exhaustive: thorough_only,
        },
    ]
}
