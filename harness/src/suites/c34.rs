//! C34 — F4 reference cycling (base/src/expressions/lexer/util.rs through `Model::cycle_reference`).
//!  * `c34-step`   : one press: the real `Model::cycle_reference` (and the real lexer's Reference/Range
//!                   spans, `get_tokens_with_locale`) vs the model driver, which lexes the formula with
//!                   the Lean lexer model and cycles the touched tokens; requests are
//!                   generated as chains of four presses (the input of press k+1 is the real output
//!                   of press k), so every request replays alone;
//!  * `c34-period` : four presses on the implementation only, with the property oracle: only `$` and
//!                   letter case change, text outside the touched tokens is untouched, the references
//!                   denote the same cells after every press, and the fourth press returns the
//!                   original formula up to case.  The oracle applies to formulas the real Parser accepts.
use crate::proto::{hex, unhex};
use crate::prng::Rng;
use crate::run::{never, Ctx, ImplOut, Suite, Tier};
use ironcalc_base::expressions::lexer::util::get_tokens_with_locale;
use ironcalc_base::expressions::parser::Parser;
use ironcalc_base::expressions::token::TokenType;
use ironcalc_base::expressions::types::CellReferenceRC;
use ironcalc_base::language::get_language;
use ironcalc_base::locale::get_locale;
use ironcalc_base::Model;
use std::cell::RefCell;
use std::collections::HashMap;

fn rng_for(seed: u64, salt: u64) -> Rng {
    let mut z = (seed ^ salt.wrapping_mul(0x9E3779B97F4A7C15)).wrapping_add(0x632BE59BD9B4E019);
    z = (z ^ (z >> 30)).wrapping_mul(0xBF58476D1CE4E5B9);
    z = (z ^ (z >> 27)).wrapping_mul(0x94D049BB133111EB);
    Rng::new(z ^ (z >> 31))
}

thread_local! {
    static MODEL: RefCell<Model<'static>> = RefCell::new(Model::new_empty("c34", "en", "UTC", "en").unwrap());
}

fn press(value: &str, start: usize, end: usize) -> Result<(String, i32, i32), String> {
    let v = value.to_string();
    let r = std::panic::catch_unwind(move || MODEL.with(|m| m.borrow().cycle_reference(&v, start, end)));
    match r {
        Ok(x) => x,
        Err(_) => Err("panic".into()),
    }
}

/// the spans (relative to the formula body) of the tokens the real lexer classifies as Reference/Range
fn ref_spans(value: &str) -> Vec<(i32, i32)> {
    let chars: Vec<char> = value.chars().collect();
    if chars.first() != Some(&'=') {
        return vec![];
    }
    let body: String = chars[1..].iter().collect();
    let locale = get_locale("en").unwrap();
    let language = get_language("en").unwrap();
    get_tokens_with_locale(&body, locale, language)
        .into_iter()
        .filter(|t| matches!(t.token, TokenType::Reference { .. } | TokenType::Range { .. }))
        .map(|t| (t.start, t.end))
        .collect()
}

fn spans_arg(sp: &[(i32, i32)]) -> String {
    if sp.is_empty() {
        "-".into()
    } else {
        sp.iter().map(|(a, b)| format!("{a}-{b}")).collect::<Vec<_>>().join(",")
    }
}

// ---------------------------------------------------------------------------------------------
// formulas
// ---------------------------------------------------------------------------------------------

const CELLS: [&str; 14] = ["A1", "$A$1", "A$1", "$A1", "a1", "$b$2", "ab$12", "XFD1048576", "$xfd$1", "C3", "Z26", "aa10", "$AA10", "b$7"];
const RANGES: [&str; 16] = [
    "A1:B2", "$A1:B$2", "$A$1:$B$2", "a1:b2", "1:1", "$1:3", "2:$4", "$5:$5", "A:A", "$A:B", "c:$d", "$E:$E", "B2:A1", "A1:$a$1", "3:1",
    "D:B",
];
const SHEETS: [&str; 7] = ["Sheet1!", "sheet1!", "'My Sheet'!", "'it''s'!", "'Sheet1'!", "Other!", "'A1'!"];
const CONTEXTS: [&str; 22] = [
    "={}", "={}+{}", "=SUM({},{})", "=SUM( {} , {} )", "=IF({}>1,{},\"x\")", "=-{}*2", "={}&\"A1\"", "=  {}", "= {} ", "{}", "={}:{}",
    "=SUM({})+{}%", "=({})", "={}={}", "=@{}", "={}#", "={} {}", "=\"{}\"&{}", "=MAX({},1,{},TRUE)", "=A1B2+{}", "={}^{}/{}", "={}+",
];

fn gen_formula(rng: &mut Rng) -> String {
    let ctx = *rng.pick(&CONTEXTS);
    let mut out = String::new();
    let mut parts = ctx.split("{}").peekable();
    while let Some(p) = parts.next() {
        out.push_str(p);
        if parts.peek().is_some() {
            let mut r = String::new();
            if rng.chance(1, 3) {
                r.push_str(*rng.pick(&SHEETS));
            }
            if rng.chance(1, 2) {
                r.push_str(*rng.pick(&CELLS));
            } else {
                r.push_str(*rng.pick(&RANGES));
            }
            out.push_str(&r);
        }
    }
    out
}

fn cursors(rng: &mut Rng, len: usize, all: bool, sink: &mut dyn FnMut(usize, usize)) {
    for c in 0..=len {
        sink(c, c);
    }
    for s in 0..=len {
        for e in (s + 1)..=len {
            if all || rng.chance(1, 6) {
                if rng.chance(1, 8) {
                    sink(e, s); // reversed selection
                } else {
                    sink(s, e);
                }
            }
        }
    }
    // out of bounds
    sink(len + 1, len + 1);
    sink(0, len + 3);
}

fn formulas(ctx: &Ctx, salt: u64) -> Vec<String> {
    let mut rng = rng_for(ctx.seed, salt);
    let mut out: Vec<String> = vec![
        "=A1", "=a1", "=$A$1", "=A1+B2", "=SUM(A1,B2)", "=A1:B2", "=$A1:B$2", "=1:1", "=A:A", "=Sheet1!A1", "='My Sheet'!A1:B2", "=A1 B2",
        "A1", "", "=", "=1+2", "=\"A1\"", "='it''s'!$A$1+'it''s'!b2", "=SUM(1:1,A:A)", "= A1", "=A1 ", "=é+A1", "=A1+é1", "=😀",
        "='My Sheet' !A1", "=Sheet1!A1:Sheet1!B2", "=A1:B2:C3", "=$$A1", "=A$$1", "=A1$", "=$1:$2", "=$A:$A", "=A1:B", "=1:A",
    ]
    .into_iter()
    .map(String::from)
    .collect();
    let n = if ctx.tier == Tier::Quick { 120 } else { 4000 };
    for _ in 0..n {
        out.push(gen_formula(&mut rng));
    }
    out
}

// ---------------------------------------------------------------------------------------------
// c34-step
// ---------------------------------------------------------------------------------------------

fn gen_step(ctx: &Ctx, sink: &mut dyn FnMut(String)) {
    let mut rng = rng_for(ctx.seed, 0x34);
    for f in formulas(ctx, 0xF4) {
        let len = f.chars().count();
        let all = len <= 14;
        let mut cs: Vec<(usize, usize)> = vec![];
        cursors(&mut rng, len, all, &mut |s, e| cs.push((s, e)));
        for (s, e) in cs {
            let (mut text, mut s, mut e) = (f.clone(), s, e);
            for _ in 0..4 {
                sink(format!("c34 lexcyc {} {s} {e}", hex(&text)));
                match press(&text, s, e) {
                    Ok((t, a, b)) if a >= 0 && b >= 0 => {
                        text = t;
                        s = a as usize;
                        e = b as usize;
                    }
                    _ => break,
                }
            }
        }
    }
}

fn eval_step(req: &str) -> ImplOut {
    let f: Vec<&str> = req.split(' ').collect();
    let value = unhex(f[2]).unwrap();
    let (s, e): (usize, usize) = (f[3].parse().unwrap(), f[4].parse().unwrap());
    // the answer carries the real lexer's Reference/Range spans: the model computes them with its
    // own character-level lexer (Formula/Lex.lean), so a lexer change shows up as a disagreement
    let sp = spans_arg(&ref_spans(&value));
    match press(&value, s, e) {
        Ok((t, a, b)) => {
            let changed = t != value;
            let out = ImplOut::new(format!("{} {a} {b} | {sp}", hex(&t))).tag(if changed { "step:cycled" } else { "step:unchanged" });
            if changed {
                out
            } else {
                out.trivial()
            }
        }
        Err(m) if m == "panic" => ImplOut::new("panic".into()).fail("c34:step:panic", &format!("{value:?} {s} {e}")),
        Err(_) => ImplOut::new(format!("err | {sp}")).tag("step:err").trivial(),
    }
}

// ---------------------------------------------------------------------------------------------
// c34-period
// ---------------------------------------------------------------------------------------------

fn gen_period(ctx: &Ctx, sink: &mut dyn FnMut(String)) {
    let mut rng = rng_for(ctx.seed, 0x3434);
    for f in formulas(ctx, 0xF4F4) {
        let len = f.chars().count();
        let all = len <= 16;
        cursors(&mut rng, len, all, &mut |s, e| sink(format!("c34 four {} {s} {e}", hex(&f))));
    }
}

fn strip_dollar_upper(s: &str) -> String {
    s.chars().filter(|c| *c != '$').map(|c| c.to_ascii_uppercase()).collect()
}

/// the token list with the `$` flags erased: what the formula refers to
fn denotation(value: &str) -> Vec<String> {
    let chars: Vec<char> = value.chars().collect();
    let body: String = chars.iter().skip(1).collect();
    let locale = get_locale("en").unwrap();
    let language = get_language("en").unwrap();
    get_tokens_with_locale(&body, locale, language)
        .into_iter()
        .map(|t| match t.token {
            TokenType::Reference { sheet, row, column, .. } => format!("ref {sheet:?} {row} {column}"),
            TokenType::Range { sheet, left, right } => {
                format!("range {sheet:?} {} {} {} {}", left.row, left.column, right.row, right.column)
            }
            other => format!("{other:?}"),
        })
        .collect()
}

fn parses(value: &str) -> bool {
    let chars: Vec<char> = value.chars().collect();
    if chars.first() != Some(&'=') {
        return false;
    }
    let body: String = chars[1..].iter().collect();
    let locale = get_locale("en").unwrap();
    let language = get_language("en").unwrap();
    let ws = vec!["Sheet1".to_string(), "My Sheet".to_string(), "it's".to_string(), "A1".to_string()];
    let mut p = Parser::new(ws, vec![], HashMap::new(), locale, language);
    let ctx = CellReferenceRC { sheet: "Sheet1".into(), row: 5, column: 5 };
    // `Parser::parse` stops at the first token it cannot continue with and ignores the rest
    // (`A1 B2` parses as `A1`).  Inside parentheses the closing `)` must follow the expression, so the
    // formula is accepted as a whole iff both forms parse.
    let ok = |n: &ironcalc_base::expressions::parser::Node| !format!("{n:?}").contains("ParseErrorKind");
    let plain = p.parse(&body, &ctx);
    if !ok(&plain) {
        return false;
    }
    let wrapped = p.parse(&format!("({body})"), &ctx);
    ok(&wrapped)
}

/// does the selection touch a reference that is the left operand of the range operator
/// (`A1:OFFSET(..)`, `A1:name`): a `Reference` token directly followed by a `Colon` token
fn touches_range_operator_operand(value: &str, sel_s: usize, sel_e: usize) -> bool {
    let chars: Vec<char> = value.chars().collect();
    let body: String = chars.iter().skip(1).collect();
    let locale = get_locale("en").unwrap();
    let language = get_language("en").unwrap();
    let toks = get_tokens_with_locale(&body, locale, language);
    for (i, t) in toks.iter().enumerate() {
        if matches!(t.token, TokenType::Reference { .. })
            && matches!(toks.get(i + 1).map(|n| &n.token), Some(TokenType::Colon))
            && !((t.start as usize + 1) > sel_e || sel_s > (t.end as usize + 1))
        {
            return true;
        }
    }
    false
}

fn eval_period(req: &str) -> ImplOut {
    let f: Vec<&str> = req.split(' ').collect();
    let value = unhex(f[2]).unwrap();
    let (s0, e0): (usize, usize) = (f[3].parse().unwrap(), f[4].parse().unwrap());
    let valid = parses(&value);
    let spans = ref_spans(&value);
    let (sel_s, sel_e) = (s0.min(e0), s0.max(e0));
    let touched: Vec<&(i32, i32)> =
        spans.iter().filter(|(a, b)| !((*a as usize + 1) > sel_e || sel_s > (*b as usize + 1))).collect();
    let mut out_text = String::new();
    let mut fails: Vec<(String, String)> = vec![];
    let (mut text, mut s, mut e) = (value.clone(), s0, e0);
    let den0 = denotation(&value);
    let mut presses = 0;
    for k in 1..=4 {
        match press(&text, s, e) {
            Ok((t, a, b)) => {
                presses += 1;
                if valid {
                    if strip_dollar_upper(&t) != strip_dollar_upper(&text) {
                        fails.push(("c34:press:changes-more-than-dollars".into(), format!("press {k}: {text:?} -> {t:?}")));
                    }
                    if denotation(&t) != den0 {
                        fails.push(("c34:press:refers-to-other-cells".into(), format!("press {k}: {value:?} -> {t:?}")));
                    }
                    if !parses(&t) {
                        fails.push(("c34:press:result-does-not-parse".into(), format!("press {k}: {text:?} -> {t:?}")));
                    }
                    if k == 1 {
                        // text outside the touched tokens is untouched
                        let old: Vec<char> = value.chars().collect();
                        let new: Vec<char> = t.chars().collect();
                        let (pre, suf) = match (touched.first(), touched.last()) {
                            (Some(a), Some(b)) => (a.0 as usize + 1, old.len() - (b.1 as usize + 1)),
                            _ => (old.len(), 0),
                        };
                        let ok = new.len() >= pre.max(suf)
                            && new[..pre.min(new.len())] == old[..pre.min(old.len())]
                            && new[new.len() - suf..] == old[old.len() - suf..]
                            && (!touched.is_empty() || new == old);
                        if !ok {
                            fails.push(("c34:press:touches-text-outside-the-cursor".into(), format!("{value:?} [{s0},{e0}] -> {t:?}")));
                        }
                    }
                    if a < 0 || b < 0 || a as usize > t.chars().count() || b as usize > t.chars().count() {
                        fails.push(("c34:press:cursor-out-of-bounds".into(), format!("press {k}: {t:?} cursor {a},{b}")));
                    }
                }
                text = t;
                s = a.max(0) as usize;
                e = b.max(0) as usize;
            }
            Err(m) if m == "panic" => {
                fails.push(("c34:press:panic".into(), format!("press {k}: {text:?} {s} {e}")));
                break;
            }
            Err(_) => break,
        }
        out_text = text.clone();
    }
    if presses == 4 && valid {
        if text.to_uppercase() != value.to_uppercase() {
            fails.push(("c34:period:four-presses-do-not-return".into(), format!("{value:?} [{s0},{e0}] -> {text:?}")));
        }
    }
    if !fails.is_empty() && touches_range_operator_operand(&value, sel_s, sel_e) {
        // one mechanism, one signature: `$A$1:<not a reference>` is not lexed as reference + range operator
        fails = vec![(
            "c34:press:range-operator-operand-with-dollar-does-not-lex".to_string(),
            format!("{value:?} [{s0},{e0}]: {}", fails.iter().map(|f| f.1.clone()).collect::<Vec<_>>().join("; ")),
        )];
    }
    let mut out = ImplOut::new(format!("{} {presses}", hex(&out_text)));
    out = out.tag(if !valid { "invalid-formula" } else if touched.is_empty() { "valid:no-reference-touched" } else { "valid:cycled" });
    out.nontrivial = valid && !touched.is_empty();
    out.oracle = fails;
    out
}

pub fn suites() -> Vec<Suite> {
    vec![
        Suite {
            name: "c34-step",
            rule: "34 fixed + generated formulas (22 contexts × 14 cell shapes, 16 range shapes incl. row-only/column-only/reversed, 7 quoted/unquoted sheet prefixes) × every collapsed cursor and every selection (all for len ≤ 14, 1/6 sample beyond; reversed and out-of-bounds too), chains of four presses: Model::cycle_reference and the real lexer's Reference/Range spans vs the model, which finds the spans with its own character-level lexer (Formula/Lex.lean); non-trivial = the text changed",
            modelled: true,
            gen: gen_step,
            eval: eval_step,
            exhaustive: never,
        },
        Suite {
            name: "c34-period",
            rule: "same formula families × cursors: four presses on the implementation; oracle (formulas the real Parser accepts): only $/case change per press, same cells denoted (token list modulo $ flags), result parses, text outside touched tokens untouched, original text up to case after the fourth press; non-trivial = valid formula with a reference under the cursor",
            modelled: false,
            gen: gen_period,
            eval: eval_period,
            exhaustive: never,
        },
    ]
}
